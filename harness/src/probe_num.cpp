// probe_num: executes the pure conversion routines of fix8 (checksum, integer/float text
// conversions, date/time codecs, log time stamp) on the real code and prints what they returned.
// No oracle here: the expected values are recomputed by the TLA+ monitors (spec/T_Chksum.tla,
// T_Numeric.tla, T_Calendar.tla) from the small integers logged with each call.
//
// commands (one per line, blank separated; byte strings / texts in hex, "-" = empty):
//   reset <json>
//   chk <tight|plain|str> <hex> <off> <len|-1>     Message::calc_chksum
//   itoa <decimal int32>                           Field<int>::print and itoa<int>
//   atoi <hex text>                                Field<int>(string) and fast_atoi<int>
//   dtoa <ieee bits, 16 hex digits> <prec>         Field<double>(v, prec)::print and modp_dtoa
//   atof <hex text>                                Field<double>(string) and fast_atof
//   inst <day> <sec> <ms>                          the five date/time field classes: render + parse back
//   parse <ts|to|date|lmd|my> <hex text>           parse a given text with the field class
//   logts <day> <sec> <ns> <dplaces> <gm 0|1>      GetTimeAsStringMS
//   isweep <start> <stride> <count>                supplement: itoa/fast_atoi against libc over a stride
//   quit
#include <precomp.hpp>
#include <fix8/f8includes.hpp>
#include "pj.hpp"
#include <thread>
#include <sanitizer/asan_interface.h>
#include <sys/mman.h>
#include <sys/wait.h>

using namespace FIX8;

// ---------------------------------------------------------------------------------------------
// The checksum routine is an inline function of the header; flatten makes sure the copy that is
// executed is the one compiled into this translation unit.
__attribute__((noinline, flatten))
static unsigned do_chksum(const char *from, size_t sz, unsigned off, int len)
{
	return Message::calc_chksum(from, sz, off, len);
}

static void cmd_chk(const std::vector<std::string>& t)
{
	const std::string& mode = t[1];
	const std::string data = pj::unhex(t[2]);
	const unsigned off = strtoul(t[3].c_str(), 0, 10);
	const int len = strtol(t[4].c_str(), 0, 10);
	const size_t sz = data.size();
	unsigned ret = 0;
	if (mode == "str")
	{
		ret = Message::calc_chksum(data, off, len);
	}
	else if (mode == "plain")
	{
		// the buffer is exactly sz bytes: ASan's red zones begin at byte -1 and at byte sz
		char *base = static_cast<char *>(malloc(sz ? sz : 1));
		memcpy(base, data.data(), sz);
		ret = do_chksum(base, sz, off, len);
		free(base);
	}
	else
	{
		// tight: additionally every byte of the buffer outside [off, off+n) is poisoned, so a read of a
		// byte the call has no business with is reported even when it lies inside the buffer.  The range
		// starts on an 8 byte boundary because that is the granularity ASan can poison a prefix with.
		const size_t n = len >= 0 ? static_cast<size_t>(len) : (sz >= off ? sz - off : 0);
		const size_t shift = (8 - off % 8) % 8;
		const size_t total = ((shift + sz + 16) / 16) * 16;
		char *base = static_cast<char *>(aligned_alloc(16, total));
		if (!base)
			abort();
		char *from = base + shift;
		memcpy(from, data.data(), sz);
		char *rb = from + off, *re = from + off + n, *end = base + total;
		if (rb > base)
			ASAN_POISON_MEMORY_REGION(base, rb - base);
		if (end > re)
			ASAN_POISON_MEMORY_REGION(re, end - re);
		ret = do_chksum(from, sz, off, len);
		ASAN_UNPOISON_MEMORY_REGION(base, total);
		free(base);
	}
	pj::Ev("Chk").s("mode", mode).i("sz", sz).i("off", off).i("n", len).i("ret", ret).emit();
}

// ---------------------------------------------------------------------------------------------
static void split32(pj::Ev& ev, const char *hi, const char *lo, int v)
{
	// v = hi * 65536 + lo, lo in 0..65535 (TLC integers are 32 bit; keeps INT_MIN out of literals)
	const int l = v & 0xffff, h = (v - l) / 65536;
	ev.i(hi, h).i(lo, l);
}

static void cmd_itoa(const std::vector<std::string>& t)
{
	const int v = static_cast<int>(strtoll(t[1].c_str(), 0, 10));
	// exactly the 12 bytes "-2147483648\0" needs
	char *b1 = static_cast<char *>(malloc(12)), *b2 = static_cast<char *>(malloc(12));
	memset(b1, 0x55, 12); memset(b2, 0x55, 12);
	Field<int, 1> f(v);
	const size_t n1 = f.print(b1);
	const std::string s1(b1, n1);
	const size_t n2 = itoa<int>(v, b2, 10);
	const std::string s2(b2, n2);
	pj::Ev ev("Itoa");
	split32(ev, "hi", "lo", v);
	ev.s("text", s1).s("text2", s2).b("nul", b2[n2] == 0).emit();
	free(b1); free(b2);
}

static void cmd_atoi(const std::vector<std::string>& t)
{
	const std::string text = pj::unhex(t[1]);
	char *c = static_cast<char *>(malloc(text.size() + 1));   // exactly the text and its terminator
	memcpy(c, text.data(), text.size());
	c[text.size()] = 0;
	Field<int, 1> f(text);
	const int v1 = f.get();
	const int v2 = fast_atoi<int>(c);
	Field<int, 1> g(0);
	const int v3 = g.set_from_raw(text);
	pj::Ev ev("Atoi");
	ev.s("text", text);
	split32(ev, "hi", "lo", v1);
	split32(ev, "hi2", "lo2", v2);
	split32(ev, "hi3", "lo3", v3);
	ev.emit();
	free(c);
}

// Supplement (labelled as such in the evidence, never a verdict by itself): sweep a stride of the
// int32 range through itoa / fast_atoi and compare with libc; values that disagree are only *selected*
// here, the driver hands them to the TLA+ monitor as ordinary Itoa / Atoi calls.  g_aux tells the
// parent which value was being converted if a sanitizer stops the sweep.
static volatile long long *g_aux = nullptr;

static void cmd_isweep(const std::vector<std::string>& t)
{
	const long long start = strtoll(t[1].c_str(), 0, 10), stride = strtoll(t[2].c_str(), 0, 10), count = strtoll(t[3].c_str(), 0, 10);
	std::vector<long long> bad;
	long long done = 0;
	char buf[16], ref[16];
	for (long long k = 0; k < count; ++k)
	{
		const long long v = start + k * stride;
		if (v > 2147483647LL)
			break;
		if (g_aux) *g_aux = v;
		const size_t n = itoa<int>(static_cast<int>(v), buf, 10);
		snprintf(ref, sizeof ref, "%d", static_cast<int>(v));
		bool ok = n == strlen(ref) && !strcmp(buf, ref);
		if (ok)
			ok = fast_atoi<int>(buf) == static_cast<int>(v);
		if (!ok && bad.size() < 20)
			bad.push_back(v);
		++done;
	}
	pj::Ev("Sweep").i("start", start).i("stride", stride).i("count", done).ints("bad", bad).emit();
}

static std::string bits_of(double d)
{
	uint64_t u;
	memcpy(&u, &d, 8);
	char b[20];
	snprintf(b, sizeof b, "%016llx", static_cast<unsigned long long>(u));
	return b;
}

static void cmd_dtoa(const std::vector<std::string>& t)
{
	const uint64_t u = strtoull(t[1].c_str(), 0, 16);
	const int prec = strtol(t[2].c_str(), 0, 10);
	double d;
	memcpy(&d, &u, 8);
	char *b1 = static_cast<char *>(malloc(32)), *b2 = static_cast<char *>(malloc(32));
	memset(b1, 0, 32); memset(b2, 0, 32);
	Field<fp_type, 1> f(d, prec);
	const size_t n1 = f.print(b1);
	const size_t n2 = modp_dtoa(d, b2, prec);
	pj::Ev("Dtoa").s("bits", t[1]).i("p", prec).s("text", std::string(b1, n1)).s("text2", std::string(b2, n2)).emit();
	free(b1); free(b2);
}

static void cmd_atof(const std::vector<std::string>& t)
{
	const std::string text = pj::unhex(t[1]);
	char *c = static_cast<char *>(malloc(text.size() + 1));
	memcpy(c, text.data(), text.size());
	c[text.size()] = 0;
	Field<fp_type, 1> f(text);
	const double v1 = f.get();
	const double v2 = fast_atof(c);
	pj::Ev("Atof").s("text", text).s("bits", bits_of(v1)).s("bits2", bits_of(v2)).emit();
	free(c);
}

// ---------------------------------------------------------------------------------------------
// an instant as small integers: ticks = ((day * 86400 + sec) * 1000 + ms) * 1000000 + sub
static std::string ticks_json(Tickval::ticks tk)
{
	const bool neg = tk < 0;
	unsigned long long a = neg ? 0ULL - static_cast<unsigned long long>(tk) : static_cast<unsigned long long>(tk);
	const unsigned long long sub = a % 1000000ULL; a /= 1000000ULL;
	const unsigned long long ms = a % 1000ULL; a /= 1000ULL;
	const unsigned long long sec = a % 86400ULL; a /= 86400ULL;
	std::ostringstream o;
	o << "{\"neg\":" << (neg ? "true" : "false") << ",\"day\":" << (a > 2000000000ULL ? 2000000000ULL : a)
	  << ",\"sec\":" << sec << ",\"ms\":" << ms << ",\"sub\":" << sub << "}";
	return o.str();
}

template<typename F>
static std::string render(const F& f)
{
	char *b = static_cast<char *>(malloc(MAX_MSGTYPE_FIELD_LEN));
	memset(b, 0, MAX_MSGTYPE_FIELD_LEN);
	const size_t n = f.print(b);
	std::string s(b, n);
	free(b);
	return s;
}

template<typename F>
static std::string parse_with(const std::string& text)
{
	F f(text);
	return ticks_json(f.get().get_ticks());
}

using TS = Field<UTCTimestamp, 52>;
using TO = Field<UTCTimeOnly, 273>;
using DO = Field<UTCDateOnly, 272>;
using LM = Field<LocalMktDate, 75>;
using MY = Field<MonthYear, 200>;

static void cmd_inst(const std::vector<std::string>& t)
{
	const long long day = strtoll(t[1].c_str(), 0, 10), sec = strtoll(t[2].c_str(), 0, 10), ms = strtoll(t[3].c_str(), 0, 10);
	const Tickval tv(static_cast<time_t>(day * 86400LL + sec), static_cast<long>(ms * 1000000LL));
	pj::Ev ev("Inst");
	ev.i("day", day).i("sec", sec).i("ms", ms);
	{
		TS f(tv);
		const std::string s = render(f);
		ev.s("ts", s).raw("ts_p", parse_with<TS>(s));
	}
	{
		TO f;
		f.set(tv);
		const std::string s = render(f);
		ev.s("to", s).raw("to_p", parse_with<TO>(s));
	}
	{
		DO f;
		f.set(tv);
		const std::string s = render(f);
		ev.s("d8", s).raw("d8_p", parse_with<DO>(s));
	}
	{
		LM f;
		f.set(tv);
		const std::string s = render(f);
		ev.s("lm", s).raw("lm_p", parse_with<LM>(s));
	}
	{
		// MonthYear prints YYYYMM or YYYYMMDD depending on the length of the text it was made from
		MY f(std::string("197001"));
		f.set(tv);
		const std::string s = render(f);
		ev.s("my6", s).raw("my6_p", parse_with<MY>(s));
		MY g(std::string("19700101"));
		g.set(tv);
		const std::string s8 = render(g);
		ev.s("my8", s8).raw("my8_p", parse_with<MY>(s8));
	}
	ev.emit();
}

static void cmd_parse(const std::vector<std::string>& t)
{
	const std::string& kind = t[1];
	const std::string text = pj::unhex(t[2]);
	std::string p;
	if (kind == "ts") p = parse_with<TS>(text);
	else if (kind == "to") p = parse_with<TO>(text);
	else if (kind == "date") p = parse_with<DO>(text);
	else if (kind == "lmd") p = parse_with<LM>(text);
	else if (kind == "my") p = parse_with<MY>(text);
	else { pj::Ev("Error").s("what", "unknown kind " + kind).emit(); return; }
	pj::Ev("Parse").s("kind", kind).s("text", text).raw("p", p).emit();
}

static void cmd_logts(const std::vector<std::string>& t)
{
	const long long day = strtoll(t[1].c_str(), 0, 10), sec = strtoll(t[2].c_str(), 0, 10), ns = strtoll(t[3].c_str(), 0, 10);
	const unsigned dp = strtoul(t[4].c_str(), 0, 10);
	const bool gm = t[5] == "1";
	const Tickval tv(static_cast<time_t>(day * 86400LL + sec), static_cast<long>(ns));
	std::string out;
	// every other rendering happens as the first call of a new thread (loggers render on their own threads; a
	// per-thread cache in the renderer must not depend on what the thread rendered before)
	static unsigned calls = 0;
	if (++calls & 1)
	{
		std::thread th([&]() { GetTimeAsStringMS(out, &tv, dp, gm); });
		th.join();
	}
	else
		GetTimeAsStringMS(out, &tv, dp, gm);
	pj::Ev("Log").i("day", day).i("sec", sec).i("ns", ns).i("dp", dp).b("gm", gm).s("text", out).emit();
}

static bool execute(const std::string& line)
{
	auto t = pj::split(line);
	if (t.empty()) return true;
	const std::string& c = t[0];
	if (c == "reset") pj::Ev("Reset").raw("cfg", line.size() > 6 ? line.substr(6) : "{}").emit();
	else if (c == "chk" && t.size() == 5) cmd_chk(t);
	else if (c == "itoa" && t.size() == 2) cmd_itoa(t);
	else if (c == "atoi" && t.size() == 2) cmd_atoi(t);
	else if (c == "dtoa" && t.size() == 3) cmd_dtoa(t);
	else if (c == "atof" && t.size() == 2) cmd_atof(t);
	else if (c == "inst" && t.size() == 4) cmd_inst(t);
	else if (c == "parse" && t.size() == 3) cmd_parse(t);
	else if (c == "logts" && t.size() == 6) cmd_logts(t);
	else if (c == "isweep" && t.size() == 4) cmd_isweep(t);
	else if (c == "quit") return false;
	else pj::Ev("Error").s("what", "bad command " + line.substr(0, 60)).emit();
	return true;
}

// Commands run in a forked worker so that a sanitizer abort costs one command, not the run: the
// worker notes the index of the command it is about to execute in a shared page; when it dies the
// parent retries that command alone once (a death is believed only if it repeats), prints
// {"e":"Abort","idx":k,"rc":..} for it, marks the place in stderr and forks a worker for the rest.
static int run_worker(const std::vector<std::string>& lines, size_t from, size_t to, volatile long *progress)
{
	fflush(stdout); fflush(stderr);
	const pid_t pid = fork();
	if (pid < 0) { perror("fork"); _exit(95); }
	if (pid == 0)
	{
		for (size_t i = from; i < to; ++i)
		{
			*progress = static_cast<long>(i);
			if (!execute(lines[i])) { *progress = static_cast<long>(lines.size()); break; }
			*progress = static_cast<long>(i + 1);
		}
		fflush(stdout);
		_exit(0);
	}
	int status = 0;
	while (waitpid(pid, &status, 0) < 0 && errno == EINTR);
	return WIFEXITED(status) ? WEXITSTATUS(status) : 128 + WTERMSIG(status);
}

int main(int argc, char **argv)
{
	pj::install_terminate();
	std::vector<std::string> lines;
	std::string line;
	while (std::getline(std::cin, line))
		lines.push_back(line);
	volatile long *progress = static_cast<volatile long *>(mmap(nullptr, 4096, PROT_READ | PROT_WRITE, MAP_SHARED | MAP_ANONYMOUS, -1, 0));
	if (progress == MAP_FAILED) { perror("mmap"); return 95; }
	g_aux = reinterpret_cast<volatile long long *>(progress + 8);
	// isolating an abort costs three forks of a sanitized process; a run that keeps aborting is cut short
	// (the driver treats the unanswered commands as not judged and never reports such a run as clean)
	const int max_aborts = argc > 1 ? atoi(argv[1]) : 40;
	int aborts = 0;
	size_t pos = 0;
	while (pos < lines.size())
	{
		if (aborts >= max_aborts)
		{
			pj::Ev("Truncated").i("idx", pos).emit();
			break;
		}
		*progress = static_cast<long>(pos);
		const int rc = run_worker(lines, pos, lines.size(), progress);
		const size_t at = static_cast<size_t>(*progress);
		if (rc == 0 || at >= lines.size())
			break;
		fprintf(stderr, "\n@@FIRST idx=%zu rc=%d\n", at, rc);
		*progress = static_cast<long>(at);
		const int rc2 = run_worker(lines, at, at + 1, progress);
		if (rc2 != 0)
		{
			fprintf(stderr, "\n@@ABORT idx=%zu rc=%d\n", at, rc2);
			pj::Ev("Abort").i("idx", at).i("rc", rc2).i("aux", *g_aux).emit();
			++aborts;
		}
		else
			fprintf(stderr, "\n@@TRANSIENT idx=%zu\n", at);
		pos = at + 1;
	}
	fflush(stdout);
	_exit(0);
}
