// probe_codec: metadata-driven executor for the message codec (C01, C02, C11; reused by C13/C14).
//
// It contains no schema-specific code and no oracle.  Messages are built only through the generated
// metadata context (F8MetaCntx::create_msg / create_field, MessageBase::add_field, find_add_group,
// GroupBase::create_group, Header()/Trailer()), encoded with Message::encode(f8String&), decoded with
// Message::factory, cloned with Message::clone and transferred with copy_legal / move_legal.  After
// each step it prints what the library holds: the field tree of a message in the order the library
// iterates its position map (per section a list of [tag, rendered text, [elements...]]) and the wire
// bytes (hex; tokenised by lib/codec_common.py).
//
// The context is selected at run time: every f8c-generated schema exports  extern "C" <NS>_ctx(),
// so `ctx <NS>` resolves it with dlsym (the probe is linked with -rdynamic).  Link the probe with the
// generated objects of whatever schemas it should serve (build.probe(..., schemas=[...])).
//
// Commands (one per line, blank separated; byte strings in hex, "-" = empty):
//   ctx <NS>                 select the metadata context <NS>_ctx()
//   reset <json>             start an execution: prints {"e":"Reset","cfg":<json>}
//   new <msgtype-hex>        create a (deep constructed) message of that type
//   f <path> <tag> <val-hex> create_field(tag, val) and add_field() it to the container at <path>
//   e <path> <tag>           append a new element to repeating group <tag> of the container at <path>
//   dump <label>             print the tree of the message under construction
//   encode | decode | reencode | clone | copy | move     the codec steps, each printing one event
//   end                      free everything of this execution
//   quit
// <path>: h | b | t (header, body, trailer) optionally followed by /<grouptag>.<elementindex> steps.
#include <precomp.hpp>
#include <fix8/f8includes.hpp>
#include <fix8/f8types.hpp>
#include "pj.hpp"
#include <dlfcn.h>
#include <memory>

using namespace FIX8;

static const F8MetaCntx *g_ctx = nullptr;
static Message *g_msg = nullptr, *g_dec = nullptr;
static bool g_from_dec = false;   // the current message is one the factory decoded (usedec): events are named ...Dec
static std::string g_bytes;

// ---------------------------------------------------------------------------------------------
static std::string render(const BaseField *bf)
{
	// the text the encoder would put on the wire for this field
	static char buf[FIX8_MAX_MSG_LENGTH + 64];
	const size_t n(bf->print(buf));
	return std::string(buf, n);
}

static std::string tree_of(const MessageBase *mb)
{
	std::string s("[");
	bool first(true);
	for (const auto& pp : mb->get_positions())
	{
		const BaseField *bf(pp.second);
		if (!first) s += ",";
		first = false;
		s += "[" + std::to_string(bf->get_tag()) + ",\"" + pj::esc(render(bf)) + "\",[";
		const GroupBase *gb(mb->find_group(bf->get_tag()));
		if (gb && mb->get_fp().is_group(bf->get_tag()))
			for (unsigned i(0); i < gb->size(); ++i)
			{
				if (i) s += ",";
				s += tree_of(gb->get_element(i));
			}
		s += "]]";
	}
	return s + "]";
}

static std::string tree_of(const Message *m)
{
	return "{\"h\":" + tree_of(m->Header()) + ",\"b\":" + tree_of(static_cast<const MessageBase *>(m)) +
		",\"t\":" + tree_of(m->Trailer()) + "}";
}

// ---------------------------------------------------------------------------------------------
struct Where { MessageBase *mb; GroupBase *owner; };	// owner: the group this container is an element of

static Where resolve(Message *m, const std::string& path)
{
	std::vector<std::string> steps;
	std::string cur;
	for (char c : path) { if (c == '/') { steps.push_back(cur); cur.clear(); } else cur.push_back(c); }
	steps.push_back(cur);
	Where w { nullptr, nullptr };
	if (steps[0] == "h") w.mb = m->Header();
	else if (steps[0] == "b") w.mb = m;
	else if (steps[0] == "t") w.mb = m->Trailer();
	for (size_t i(1); w.mb && i < steps.size(); ++i)
	{
		const size_t dot(steps[i].find('.'));
		const unsigned short tag(static_cast<unsigned short>(atoi(steps[i].substr(0, dot).c_str())));
		const unsigned idx(static_cast<unsigned>(atoi(steps[i].substr(dot + 1).c_str())));
		GroupBase *gb(w.mb->find_group(tag));
		w.owner = gb;
		w.mb = gb ? gb->get_element(idx) : nullptr;
	}
	return w;
}

static void drop()
{
	delete g_msg; g_msg = nullptr;
	delete g_dec; g_dec = nullptr;
	g_from_dec = false;
	g_bytes.clear();
}

template<typename F>
static void guarded(const char *name, F&& body)
{
	pj::Ev ev(name);
	try
	{
		body(ev);
	}
	catch (f8Exception& e)
	{
		ev.b("ok", false).s("exc", std::string("f8Exception: ") + e.what());
	}
	catch (std::exception& e)
	{
		ev.b("ok", false).s("exc", std::string("std::exception: ") + e.what());
	}
	ev.emit();
}

// ---------------------------------------------------------------------------------------------
int main(int argc, char **argv)
{
	pj::install_terminate();
	std::string line;
	while (std::getline(std::cin, line))
	{
		const std::vector<std::string> a(pj::split(line));
		if (a.empty())
			continue;
		const std::string& c(a[0]);
		if (c == "quit")
			break;
		if (c == "ctx" && a.size() > 1)
		{
			using fn = const F8MetaCntx& (*)();
			fn f(reinterpret_cast<fn>(dlsym(RTLD_DEFAULT, (a[1] + "_ctx").c_str())));
			if (!f)
			{
				pj::Ev("Error").s("what", "no metadata context " + a[1]).emit();
				return 3;
			}
			g_ctx = &f();
			pj::Ev("Ctx").s("ns", a[1]).i("version", g_ctx->version()).s("begin", g_ctx->get_beginStr()).emit();
		}
		else if (c == "reset")
		{
			drop();
			const size_t p(line.find('{'));
			pj::Ev("Reset").raw("cfg", p == std::string::npos ? "{}" : line.substr(p)).emit();
		}
		else if (!g_ctx)
		{
			pj::Ev("Error").s("what", "no ctx selected").emit();
			return 3;
		}
		else if (c == "new" && a.size() > 1)
		{
			drop();
			guarded("New", [&](pj::Ev& ev) {
				g_msg = g_ctx->create_msg(pj::unhex(a[1]).c_str(), true);
				ev.b("ok", g_msg != nullptr);
			});
		}
		else if (c == "f" && a.size() > 3)
		{
			guarded("Field", [&](pj::Ev& ev) {
				ev.s("path", a[1]).i("tag", atoi(a[2].c_str()));
				const Where w(g_msg ? resolve(g_msg, a[1]) : Where { nullptr, nullptr });
				if (!w.mb) { ev.b("ok", false).s("exc", "no such container"); return; }
				BaseField *bf(g_ctx->create_field(static_cast<unsigned short>(atoi(a[2].c_str())), pj::unhex(a[3]).c_str()));
				if (!bf) { ev.b("ok", false).s("exc", "create_field returned null"); return; }
				try
				{
					ev.b("ok", w.mb->add_field(bf));
				}
				catch (...)
				{
					delete bf;
					throw;
				}
			});
		}
		else if (c == "e" && a.size() > 2)
		{
			guarded("Element", [&](pj::Ev& ev) {
				ev.s("path", a[1]).i("tag", atoi(a[2].c_str()));
				const Where w(g_msg ? resolve(g_msg, a[1]) : Where { nullptr, nullptr });
				if (!w.mb) { ev.b("ok", false).s("exc", "no such container"); return; }
				GroupBase *gb(w.mb->find_add_group(static_cast<unsigned short>(atoi(a[2].c_str())), w.owner));
				if (!gb) { ev.b("ok", false).s("exc", "find_add_group returned null"); return; }
				MessageBase *el(gb->create_group(true));
				if (!el) { ev.b("ok", false).s("exc", "create_group returned null"); return; }
				*gb += el;
				ev.b("ok", true).i("n", static_cast<long long>(gb->size()));
			});
		}
		else if (c == "dump")
		{
			guarded("Tree", [&](pj::Ev& ev) {
				ev.s("label", a.size() > 1 ? a[1] : "");
				if (!g_msg) { ev.b("ok", false); return; }
				ev.b("ok", true).raw("tree", tree_of(g_msg));
			});
		}
		else if (c == "encode")
		{
			guarded("Encode", [&](pj::Ev& ev) {
				if (!g_msg) { ev.b("ok", false); return; }
				f8String out;
				g_msg->encode(out);
				g_bytes = out;
				ev.b("ok", true).s("hex", pj::hex(out)).raw("tree", tree_of(g_msg));
			});
		}
		else if (c == "decode")
		{
			guarded("Decode", [&](pj::Ev& ev) {
				delete g_dec; g_dec = nullptr;
				g_dec = Message::factory(*g_ctx, g_bytes);
				ev.b("ok", g_dec != nullptr);
				if (g_dec)
					ev.raw("tree", tree_of(g_dec));
			});
		}
		else if (c == "reencode")
		{
			guarded("Reencode", [&](pj::Ev& ev) {
				if (!g_dec) { ev.b("ok", false).s("exc", "nothing decoded"); return; }
				f8String out;
				g_dec->encode(out);
				ev.b("ok", true).s("hex", pj::hex(out));
			});
		}
		else if (c == "usedec")   // from here on clone / copy / move work on the message the factory decoded
		{
			if (g_dec) { delete g_msg; g_msg = g_dec; g_dec = nullptr; g_from_dec = true; }
			pj::Ev("UseDec").b("ok", g_from_dec).emit();
		}
		else if (c == "clone")
		{
			guarded(g_from_dec ? "CloneDec" : "Clone", [&](pj::Ev& ev) {
				if (!g_msg) { ev.b("ok", false); return; }
				std::unique_ptr<Message> cl(g_msg->clone());
				ev.raw("tree", tree_of(cl.get()));
				f8String out;
				cl->encode(out);
				ev.b("ok", true).s("hex", pj::hex(out));
			});
		}
		else if (c == "copy")
		{
			// the way Message::clone uses it: body, header and trailer each into the empty counterpart
			guarded(g_from_dec ? "CopyLegalDec" : "CopyLegal", [&](pj::Ev& ev) {
				if (!g_msg) { ev.b("ok", false); return; }
				std::unique_ptr<Message> to(g_ctx->create_msg(g_msg->get_msgtype().c_str(), true));
				unsigned n(static_cast<const MessageBase *>(g_msg)->copy_legal(to.get()));
				n += g_msg->Header()->copy_legal(to->Header());
				n += g_msg->Trailer()->copy_legal(to->Trailer());
				ev.b("ok", true).i("n", n).raw("tree", tree_of(to.get())).raw("src", tree_of(g_msg));
			});
		}
		else if (c == "move")
		{
			guarded(g_from_dec ? "MoveLegalDec" : "MoveLegal", [&](pj::Ev& ev) {
				if (!g_msg) { ev.b("ok", false); return; }
				std::unique_ptr<Message> to(g_ctx->create_msg(g_msg->get_msgtype().c_str(), true));
				unsigned n(static_cast<MessageBase *>(g_msg)->move_legal(to.get()));
				n += g_msg->Header()->move_legal(to->Header());
				n += g_msg->Trailer()->move_legal(to->Trailer());
				ev.b("ok", true).i("n", n).raw("tree", tree_of(to.get()));
				delete g_msg;		// "source message is invalidated (but can be deleted)"
				g_msg = nullptr;
			});
		}
		else if (c == "end")
		{
			drop();
			pj::Ev("End").emit();
		}
		else
			pj::Ev("Error").s("what", "bad command: " + line.substr(0, 60)).emit();
	}
	drop();
	return 0;
}
