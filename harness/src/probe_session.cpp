// probe_session: a real fix8 Session (initiator or acceptor) with a real Connection over one end of a
// socketpair, a real Memory/File persister and a virtual clock.  Inbound messages are handed to the
// real Session::process (after update_received(), as FIXReader::read does); everything the session
// writes is read back from the peer end of the socket and logged field by field.  No oracle here.
#include <precomp.hpp>
#include <fix8/f8includes.hpp>
#include <fix8/f8types.hpp>
#include "utest_types.hpp"
#include "utest_router.hpp"
#include "utest_classes.hpp"
#include <fix8/sessionwrapper.hpp>
#include "pj.hpp"
#include "vclock.hpp"
#include <Poco/Net/StreamSocketImpl.h>
#include <sys/socket.h>
#include <sys/stat.h>
#include <fcntl.h>
#include <signal.h>
#include <sys/ioctl.h>
#include <map>
#include <thread>
#include <atomic>
#include <mutex>

using namespace FIX8;

static unsigned fnv31(const std::string& s)
{
	unsigned h(2166136261u);
	for (unsigned char c : s) { h ^= c; h *= 16777619u; }
	return h & 0x7fffffff;
}

class RawImpl : public Poco::Net::StreamSocketImpl
{
public:
	explicit RawImpl(int fd) : Poco::Net::StreamSocketImpl(fd) {}
};

// ---------------------------------------------------------------------------------------------
struct Delivered { unsigned seq; std::string id; bool possdup; std::string type; };

class PSession : public Session
{
public:
	std::vector<Delivered> _delivered;
	std::vector<std::string> _notdelivered;
	bool _app_uses_enforce = true;

	PSession(const F8MetaCntx& ctx, const SessionID& sid, Persister *p) : Session(ctx, sid, p) { quiet_timer(); }
	PSession(const F8MetaCntx& ctx, const sender_comp_id& sci, Persister *p) : Session(ctx, sci, p) { quiet_timer(); }
	~PSession() {}

	// the supervision callbacks are invoked synchronously by the driver ("tick"), never by the timer thread
	// (no join here: ~Timer joins, and joining twice would wait on a recycled thread id)
	void quiet_timer() { _timer.clear(); _timer.stop(); }

	// C15: with _record set, what the real reader thread hands to the session is only recorded
	bool _record = false;
	std::mutex _rm;
	std::vector<std::string> _frames;
	bool process(const f8String& from) override
	{
		if (!_record)
			return Session::process(from);
		std::lock_guard<std::mutex> g(_rm);
		_frames.push_back(from);
		return true;
	}
	size_t nframes() { std::lock_guard<std::mutex> g(_rm); return _frames.size(); }

	bool handle_application(const unsigned seqnum, const Message *&msg) override
	{
		// what every fix8 application does first (test/myfix.cpp): return enforce(seqnum, msg) || msg->process(router)
		if (enforce(seqnum, msg))
		{
			_notdelivered.push_back(std::to_string(seqnum));
			return true;
		}
		Delivered d;
		d.seq = seqnum;
		d.type = msg->get_msgtype();
		UTEST::ClOrdID cl;
		if (msg->get(cl)) d.id = cl();
		poss_dup_flag pdf(false);
		d.possdup = msg->Header()->get(pdf) && pdf();
		_delivered.push_back(d);
		return true;
	}

	LoginParameters& lp() { return _loginParameters; }
	unsigned ns() const { return _next_send_seq; }
	unsigned nr() const { return _next_receive_seq; }
	int st() const { return _state; }
	Persister *per() { return _persist; }
	bool tick() { return heartbeat_service(); }
	bool shut() { return is_shutdown(); }
	Connection *conn() { return _connection; }
	Message *mk(const char *t) { return create_msg(t); }
	Message *g_testreq(const std::string& id) { return generate_test_request(id); }
	Message *g_heartbeat(const std::string& id) { return generate_heartbeat(id); }
	Message *g_logout(const char *t) { return generate_logout(t); }
	Message *g_resend(unsigned b, unsigned e) { return generate_resend_request(b, e); }
	Message *g_seqreset(unsigned n, bool gf) { return generate_sequence_reset(n, gf); }
	void set_last_sent_now() { _last_sent.now(); }
};

// ---------------------------------------------------------------------------------------------
struct World
{
	PSession *ses = nullptr;
	Connection *con = nullptr;
	Persister *per = nullptr;
	Poco::Net::StreamSocket *sock = nullptr;
	Poco::Net::SocketAddress addr;
	int peerfd = -1;
	bool initiator = true, per_owned_by_session = false;
	SessionConfig *sf = nullptr;
	std::string persist_kind = "mem", dir, sender = "INI", target = "ACC";
	unsigned hb = 30;
	std::string inbuf;
	std::map<std::string, std::string> flags;
};

static bool g_outhex = false;
static std::string drain(World& w)
{
	std::string out;
	if (w.peerfd < 0) return out;
	char buf[65536];
	for (;;)
	{
		const ssize_t n(recv(w.peerfd, buf, sizeof buf, MSG_DONTWAIT));
		if (n <= 0) break;
		out.append(buf, n);
	}
	return out;
}

// split a byte stream into FIX messages (8=...10=xxx^A) and render each as a JSON object
static std::string field(const std::string& m, const char *tag)
{
	const std::string key(std::string("\001") + tag + "=");
	std::string::size_type p(m.find(key));
	if (p == std::string::npos)
	{
		if (m.compare(0, strlen(tag) + 1, std::string(tag) + "=") == 0) p = 0; else return "";
		p = strlen(tag) + 1;
	}
	else p += key.size();
	const std::string::size_type e(m.find('\001', p));
	return m.substr(p, e == std::string::npos ? e : e - p);
}

static long numf(const std::string& m, const char *tag)
{
	const std::string v(field(m, tag));
	return v.empty() ? 0 : strtol(v.c_str(), 0, 10);
}

// "YYYYMMDD-HH:MM:SS[.sss]" -> (day number since 1970 is not needed) seconds-of-epoch split into day/sec/ms
static std::string ts_json(const std::string& v)
{
	if (v.size() < 17) return "null";
	struct tm t {};
	t.tm_year = atoi(v.substr(0, 4).c_str()) - 1900; t.tm_mon = atoi(v.substr(4, 2).c_str()) - 1; t.tm_mday = atoi(v.substr(6, 2).c_str());
	t.tm_hour = atoi(v.substr(9, 2).c_str()); t.tm_min = atoi(v.substr(12, 2).c_str()); t.tm_sec = atoi(v.substr(15, 2).c_str());
	const long long ep(timegm(&t));
	const int ms(v.size() >= 21 ? atoi(v.substr(18, 3).c_str()) : 0);
	return "{\"day\":" + std::to_string(ep / 86400) + ",\"sec\":" + std::to_string(ep % 86400) + ",\"ms\":" + std::to_string(ms) + "}";
}

static std::string msgs_json(const std::string& stream, std::string *rest = nullptr)
{
	std::string out("[");
	std::string::size_type pos(0);
	bool first(true);
	while (pos < stream.size())
	{
		std::string::size_type e(stream.find("\00110=", pos));
		if (e == std::string::npos) break;
		e = stream.find('\001', e + 1);
		if (e == std::string::npos) break;
		const std::string m(stream.substr(pos, e + 1 - pos));
		pos = e + 1;
		if (!first) out += ",";
		first = false;
		out += "{\"type\":\"" + pj::esc(field(m, "35")) + "\",\"seq\":" + std::to_string(numf(m, "34"))
			+ ",\"possdup\":" + (field(m, "43") == "Y" ? "true" : "false")
			+ ",\"gapfill\":" + (field(m, "123") == "Y" ? "true" : "false")
			+ ",\"newseq\":" + std::to_string(numf(m, "36"))
			+ ",\"begin\":" + std::to_string(numf(m, "7")) + ",\"end\":" + std::to_string(numf(m, "16"))
			+ ",\"testreqid\":\"" + pj::esc(field(m, "112")) + "\""
			+ ",\"hbint\":" + std::to_string(numf(m, "108"))
			+ ",\"reset\":" + (field(m, "141") == "Y" ? "true" : "false")
			+ ",\"refseq\":" + std::to_string(numf(m, "45"))
			+ ",\"sci\":\"" + pj::esc(field(m, "49")) + "\",\"tci\":\"" + pj::esc(field(m, "56")) + "\""
			+ ",\"id\":\"" + pj::esc(field(m, "11")) + "\""
			+ ",\"has_orig\":" + (field(m, "122").empty() ? "false" : "true")
			+ ",\"orig\":" + ts_json(field(m, "122")) + ",\"sending\":" + ts_json(field(m, "52"))
			+ ",\"text\":\"" + pj::esc(field(m, "58")) + "\""
			+ ",\"len\":" + std::to_string(m.size()) + ",\"h\":" + std::to_string(fnv31(m)) + "}";
	}
	if (rest) *rest = stream.substr(pos);
	return out + "]";
}

static std::string state_json(World& w)
{
	if (!w.ses) return "null";
	std::string s("{\"st\":" + std::to_string(w.ses->st()) + ",\"ns\":" + std::to_string(w.ses->ns()) + ",\"nr\":" + std::to_string(w.ses->nr()));
	Persister *p(w.ses->per());
	if (p)
	{
		unsigned a(0), b(0);
		if (p->get(a, b)) s += ",\"ctrl\":[" + std::to_string(a & 0x7fffffff) + "," + std::to_string(b & 0x7fffffff) + "]";
		else s += ",\"ctrl\":[]";
		s += ",\"stored\":[";
		unsigned last(0);
		p->get_last_seqnum(last);
		bool first(true);
		const unsigned lim(last < 4096 ? last : 4096);
		for (unsigned q(1); q <= lim; ++q)
		{
			f8String to;
			if (p->get(q, to))
			{
				if (!first) s += ",";
				first = false;
				// stored text may carry trailing bytes beyond the message if stored from a C string: log both views
				s += "{\"seq\":" + std::to_string(q) + ",\"len\":" + std::to_string(to.size()) + ",\"h\":" + std::to_string(fnv31(to)) + "}";
			}
		}
		s += "]";
	}
	else s += ",\"ctrl\":[],\"stored\":[]";
	return s + ",\"shutdown\":" + (w.ses->shut() ? "true" : "false") + "}";
}

static std::string delivered_json(World& w)
{
	std::string s("[");
	for (size_t i(0); i < w.ses->_delivered.size(); ++i)
	{
		const Delivered& d(w.ses->_delivered[i]);
		if (i) s += ",";
		s += "{\"seq\":" + std::to_string(d.seq) + ",\"id\":\"" + pj::esc(d.id) + "\",\"possdup\":" + (d.possdup ? "true" : "false")
			+ ",\"type\":\"" + pj::esc(d.type) + "\"}";
	}
	w.ses->_delivered.clear();
	w.ses->_notdelivered.clear();
	return s + "]";
}

static std::string g_wname("a"), g_prefetched;
static void emit(World& w, const char *e, const std::string& pre, const std::string& args, bool ret, const std::string& exc = "")
{
	std::string raw(g_prefetched + drain(w));
	g_prefetched.clear();
	if (w.flags.count("pmodel") && w.flags["pmodel"] == "pipeline")
	{
		// the writer thread sends asynchronously: wait until the socket has been quiet for 3 ms (at most 300 ms)
		for (int quiet(0), spins(0); quiet < 3 && spins < 300; ++spins)
		{
			usleep(1000);
			const std::string more(drain(w));
			if (more.empty()) ++quiet; else { quiet = 0; raw += more; }
		}
	}
	const std::string out(msgs_json(raw));
	std::string s("{\"e\":\"");
	s += e; s += "\",\"w\":\"" + g_wname + "\",\"outhex\":\"" + (g_outhex ? pj::hex(raw) : "") + "\"";
	if (!args.empty()) s += "," + args;
	s += ",\"ret\":"; s += ret ? "true" : "false";
	if (!exc.empty()) s += ",\"exc\":\"" + pj::esc(exc) + "\"";
	s += ",\"out\":" + out + ",\"delivered\":" + (w.ses ? delivered_json(w) : "[]") + ",\"pre\":" + pre + ",\"post\":" + state_json(w)
		+ ",\"now\":{\"sec\":" + std::to_string(vclock::now_ns() / 1000000000LL % 86400) + ",\"day\":" + std::to_string(vclock::now_ns() / 1000000000LL / 86400) + "}}\n";
	fputs(s.c_str(), stdout);
	fflush(stdout);
}

static Message *new_order(const std::string& id)
{
	UTEST::NewOrderSingle *nos(new UTEST::NewOrderSingle);
	*nos << new UTEST::TransactTime
		  << new UTEST::OrderQty(100)
		  << new UTEST::Price(47.78, 2)
		  << new UTEST::Symbol("BHP")
		  << new UTEST::ClOrdID(id)
		  << new UTEST::HandlInst(UTEST::HandlInst_AUTOMATED_EXECUTION_ORDER_PRIVATE_NO_BROKER_INTERVENTION)
		  << new UTEST::OrdType(UTEST::OrdType_LIMIT)
		  << new UTEST::Side(UTEST::Side_BUY)
		  << new UTEST::TimeInForce(UTEST::TimeInForce_FILL_OR_KILL);
	return nos;
}

static void teardown(World& w, bool keep_store)
{
	if (w.ses)
	{
		try { w.ses->stop(); } catch (...) {}
		Connection *c(w.ses->conn());
		Persister *sp(w.ses->per());
		delete c;                      // Connection dtor clears the session's pointer
		const bool acceptor(!w.initiator);
		// ~Session deletes the persister itself only for an acceptor whose connection is still attached;
		// the connection is gone by now, so the probe owns it in both roles.
		delete w.ses;
		w.ses = nullptr; w.con = nullptr;
		if (sp) { delete sp; }
		w.per = nullptr;
		(void)acceptor;
	}
	if (w.sock) { delete w.sock; w.sock = nullptr; }
	if (w.peerfd >= 0) { close(w.peerfd); w.peerfd = -1; }
	(void)keep_store;
}

static Persister *make_persister(World& w, bool purge)
{
	if (w.persist_kind == "none") return nullptr;
	if (w.persist_kind == "file")
	{
		FilePersister *fp(new FilePersister);
		mkdir(w.dir.c_str(), 0700);
		if (!fp->initialise(w.dir, "store", purge)) { delete fp; return nullptr; }
		return fp;
	}
	return new MemoryPersister;
}

static bool flag(World& w, const char *k) { auto i(w.flags.find(k)); return i != w.flags.end() && i->second == "1"; }

static void build_session(World& w, bool purge)
{
	w.per = make_persister(w, purge);
	if (w.initiator)
		w.ses = new PSession(UTEST::ctx(), SessionID(UTEST::ctx()._beginStr, w.sender, w.target), w.per);
	else
		w.ses = new PSession(UTEST::ctx(), sender_comp_id(w.sender), w.per);
	LoginParameters& lp(w.ses->lp());
	lp._always_seqnum_assign = flag(w, "always_assign");
	lp._enforce_compids = !w.flags.count("enforce") || flag(w, "enforce");
	lp._reset_sequence_numbers = flag(w, "reset");
	lp._permissive_mode_flag = flag(w, "permissive");
	lp._silent_disconnect = flag(w, "silent");
	lp._no_chksum_flag = flag(w, "nochk");
	lp._hb_int = w.hb;
	w.ses->_record = flag(w, "record");
	if (w.flags.count("sessioncfg"))   // a SessionConfig as the session wrappers install it (ignore_logon_sequence_check etc.)
	{
		if (!w.sf)
			w.sf = new SessionConfig(UTEST::ctx(), w.flags["sessioncfg"], "S1");
		w.ses->set_session_config(w.sf);
	}
	auto ci(w.flags.find("clients"));
	if (ci != w.flags.end())
	{
		std::istringstream is(ci->second);
		std::string c;
		while (std::getline(is, c, ','))
			if (!c.empty()) lp._clients.insert({c, Client(c, Poco::Net::IPAddress())});
	}
}

static int connect_session(World& w, unsigned sseq, unsigned rseq)
{
	int sv[2];
	if (socketpair(AF_UNIX, SOCK_STREAM, 0, sv)) return -9;
	w.peerfd = sv[1];
	int big(1 << 20);
	setsockopt(sv[0], SOL_SOCKET, SO_SNDBUF, &big, sizeof big);
	setsockopt(sv[1], SOL_SOCKET, SO_RCVBUF, &big, sizeof big);
	w.sock = new Poco::Net::StreamSocket(new RawImpl(sv[0]));
	// the socketpair is connected already (ClientConnection::connect would dial TCP)
	struct PConn : Connection
	{
		PConn(Poco::Net::StreamSocket *s, Poco::Net::SocketAddress& a, Session& ses, Role r, unsigned hb, ProcessModel pm)
			: Connection(s, a, ses, r, pm, hb, false) { _connected = true; }
	};
	const bool pipe(w.flags.count("pmodel") && w.flags["pmodel"] == "pipeline");
	w.con = new PConn(w.sock, w.addr, *w.ses, w.initiator ? Connection::cn_initiator : Connection::cn_acceptor, w.hb,
		pipe ? pm_pipeline : pm_thread);
	return w.ses->start(w.con, false, sseq, rseq);
}

int main(int argc, char **argv)
{
	pj::install_terminate();
	signal(SIGPIPE, SIG_IGN);
	GlobalLogger::set_levels(Logger::Levels(Logger::None));
	std::map<std::string, World> worlds;     // "@b <cmd>" addresses world b; default world is "a"
	std::string line;
	while (std::getline(std::cin, line))
	{
		auto t = pj::split(line);
		if (t.empty()) continue;
		std::string wname("a");
		if (t[0][0] == '@')
		{
			wname = t[0].substr(1);
			line = line.substr(line.find(t[0]) + t[0].size());
			line = line.substr(line.find_first_not_of(' ') == std::string::npos ? line.size() : line.find_first_not_of(' '));
			t.erase(t.begin());
			if (t.empty()) continue;
		}
		World& w(worlds[wname]);
		g_wname = wname;
		const std::string& c(t[0]);
		try
		{
			if (c == "reset")
			{
				for (auto& pp : worlds) { teardown(pp.second, false); pp.second.flags.clear(); }
				pj::Ev("Reset").raw("cfg", line.substr(6)).emit();
			}
			else if (c == "clock") { vclock::set(strtoll(t[1].c_str(), 0, 10), t.size() > 2 ? strtoll(t[2].c_str(), 0, 10) : 0); }
			else if (c == "set") { w.flags[t[1]] = t.size() > 2 ? t[2] : "1"; }
			else if (c == "new")    // new <ini|acc> <mem|file|none> <dir> <sender> <target> <hb>
			{
				teardown(w, false);
				w.initiator = t[1] == "ini"; w.persist_kind = t[2]; w.dir = t[3]; w.sender = t[4]; w.target = t[5];
				w.hb = strtoul(t[6].c_str(), 0, 10);
				build_session(w, true);
				pj::Ev("New").s("role", t[1]).s("persist", t[2]).s("sender", w.sender).s("target", w.target).i("hb", w.hb)
					.b("always_assign", flag(w, "always_assign")).b("enforce", w.ses->lp()._enforce_compids).b("reset", flag(w, "reset"))
					.s("clients", w.flags.count("clients") ? w.flags["clients"] : "").emit();
			}
			else if (c == "start")  // start <send_seq> <recv_seq>
			{
				const std::string pre(state_json(w));
				const unsigned a(strtoul(t[1].c_str(), 0, 10)), b(strtoul(t[2].c_str(), 0, 10));
				const int r(connect_session(w, a, b));
				emit(w, "Start", pre, "\"cfg_send\":" + std::to_string(a) + ",\"cfg_recv\":" + std::to_string(b), r == 0);
			}
			else if (c == "send")   // send <id>
			{
				const std::string pre(state_json(w));
				const bool r(w.ses->send(new_order(t[1])));
				emit(w, "Send", pre, "\"kind\":\"app\",\"id\":\"" + t[1] + "\"", r);
			}
			else if (c == "sendbatch")
			{
				const std::string pre(state_json(w));
				std::vector<Message *> v;
				std::string ids("[");
				for (size_t i(1); i < t.size(); ++i) { v.push_back(new_order(t[i])); ids += (i > 1 ? ",\"" : "\"") + t[i] + "\""; }
				const size_t r(w.ses->send_batch(v, true));
				emit(w, "SendBatch", pre, "\"ids\":" + ids + "],\"n\":" + std::to_string(r), r == v.size());
			}
			else if (c == "sendpar")   // sendpar <threads> <per_thread> <batch> [mix]: concurrent application senders
			{
				const std::string pre(state_json(w));
				const unsigned nt(strtoul(t[1].c_str(), 0, 10)), per(strtoul(t[2].c_str(), 0, 10)), bs(strtoul(t[3].c_str(), 0, 10));
				const bool mix(t.size() > 4 && t[4] == "mix");   // every other thread sends single messages while the others send batches
				std::string got;
				std::mutex gm;
				std::atomic<bool> stop_reader(false);
				std::thread rd([&]() {         // the counterparty keeps reading while the senders run
					char buf[65536];
					while (!stop_reader)
					{
						const ssize_t n(recv(w.peerfd, buf, sizeof buf, MSG_DONTWAIT));
						if (n > 0) { std::lock_guard<std::mutex> g(gm); got.append(buf, n); } else usleep(200);
					}
				});
				std::atomic<int> go(0);
				const bool pipe_mode(w.flags.count("pmodel") && w.flags["pmodel"] == "pipeline");
				std::vector<std::thread> th;
				for (unsigned ti(0); ti < nt; ++ti)
					th.emplace_back([&, ti]() {
						++go;
						while (go < static_cast<int>(nt)) ;    // start together
						for (unsigned k(0); k < per; )
						{
							if (bs > 1 && !(mix && ti % 2 == 1))
							{
								std::vector<Message *> v;
								for (unsigned j(0); j < bs && k < per; ++j, ++k)
									v.push_back(new_order("m" + std::to_string((ti + 1) * 1000 + k + 1)));
								w.ses->send_batch(v, true);
							}
							else
							{
								// the three ways an application can hand over one message: by pointer (session deletes it),
								// by pointer keeping ownership, by reference (not permitted when pipelining)
								Message *m(new_order("m" + std::to_string((ti + 1) * 1000 + k + 1)));
								const unsigned how((ti + k) % 3);
								if (how == 1 && !pipe_mode) { w.ses->send(*m); delete m; }
								else if (how == 2) { w.ses->send(m, false); if (!pipe_mode) delete m; }
								else w.ses->send(m);
								++k;
							}
						}
					});
				for (auto& x : th) x.join();
				const size_t want(static_cast<size_t>(nt) * per);
				for (int spin(0); spin < 4000; ++spin)   // pipelined writer: wait until everything is on the wire (max 4 s)
				{
					size_t cnt(0);
					{
						std::lock_guard<std::mutex> g(gm);
						for (std::string::size_type p(0); (p = got.find("\00135=D\001", p)) != std::string::npos; ++p) ++cnt;
					}
					if (cnt >= want) break;
					usleep(1000);
				}
				usleep(2000);
				stop_reader = true;
				rd.join();
				{
					// pipelined model: the writer thread stores and advances the counter after the socket write; wait until the
					// counter has passed the last MsgSeqNum seen on the wire (max 3 s) so that the state logged below is settled
					unsigned long lastseq(0);
					for (std::string::size_type p(0); (p = got.find("\00134=", p)) != std::string::npos; ++p)
					{
						const unsigned long v(strtoul(got.c_str() + p + 4, 0, 10));
						if (v > lastseq) lastseq = v;
					}
					for (int spin(0); spin < 3000 && lastseq && w.ses->ns() <= lastseq; ++spin)
						usleep(1000);
				}
				g_prefetched = got;
				emit(w, "SendPar", pre, "\"threads\":" + std::to_string(nt) + ",\"per\":" + std::to_string(per) + ",\"batch\":" + std::to_string(bs), true);
			}
			else if (c == "sendadmin")   // sendadmin testreq <id> | heartbeat | logout | resend <b> <e> | seqreset <n> <gf>
			{
				const std::string pre(state_json(w));
				Message *m(nullptr);
				if (t[1] == "testreq") m = w.ses->g_testreq(t.size() > 2 ? t[2] : "T");
				else if (t[1] == "heartbeat") m = w.ses->g_heartbeat("");
				else if (t[1] == "logout") m = w.ses->g_logout("bye");
				else if (t[1] == "resend") m = w.ses->g_resend(strtoul(t[2].c_str(), 0, 10), strtoul(t[3].c_str(), 0, 10));
				const bool r(m && w.ses->send(m));
				emit(w, "Send", pre, "\"kind\":\"" + t[1] + "\"", r);
			}
			else if (c == "recv")   // recv <hex>
			{
				const std::string pre(state_json(w));
				const std::string raw(pj::unhex(t[1]));
				w.ses->update_received();
				bool r(false);
				std::string exc;
				try { r = w.ses->process(raw); }
				catch (f8Exception& e) { exc = std::string("f8:") + e.what(); }
				catch (std::exception& e) { exc = std::string("std:") + e.what(); }
				std::string in(msgs_json(raw));
				emit(w, "Recv", pre, "\"in\":" + in + ",\"inlen\":" + std::to_string(raw.size()), r, exc);
			}
			else if (c == "tick")   // tick <sec> [ms] : set the clock, run one supervision tick
			{
				vclock::set(strtoll(t[1].c_str(), 0, 10), t.size() > 2 ? strtoll(t[2].c_str(), 0, 10) : 0);
				const std::string pre(state_json(w));
				const bool r(w.ses->tick());
				emit(w, "Tick", pre, "", r);
			}
			else if (c == "restart")   // destroy session, connection and persister objects; keep files; rebuild
			{
				const std::string pre(state_json(w));
				teardown(w, true);
				build_session(w, false);
				emit(w, "Restart", pre, "", true);
			}
			else if (c == "feed")     // feed <hex>: the counterparty writes these bytes; wait until the reader has taken them
			{
				const std::string data(pj::unhex(t[1]));
				size_t off(0);
				while (off < data.size())
				{
					const ssize_t n(::send(w.peerfd, data.data() + off, data.size() - off, MSG_NOSIGNAL));
					if (n <= 0) break;
					off += n;
				}
				for (int spin(0); spin < 2000; ++spin)   // until the session's socket has no unread bytes (max 2 s)
				{
					int pending(0);
					if (ioctl(w.sock->impl()->sockfd(), FIONREAD, &pending) || pending == 0) break;
					if (w.ses->st() == States::st_session_terminated) break;
					usleep(1000);
				}
				usleep(300);
			}
			else if (c == "frames")   // what the reader thread delivered so far
			{
				// frames <want> <expect_stop>: first wait (max 3 s) until the reader has handed over <want> messages and,
				// for a corrupt stream, has stopped; then until nothing more arrives for 8 ms
				const size_t want(t.size() > 1 ? strtoul(t[1].c_str(), 0, 10) : 0);
				const bool expstop(t.size() > 2 && t[2] == "1");
				for (int spin(0); spin < 3000; ++spin)
				{
					if (w.ses->nframes() >= want && (!expstop || w.ses->st() == States::st_session_terminated)) break;
					usleep(1000);
				}
				size_t last(w.ses->nframes());
				for (int quiet(0), spin(0); quiet < 8 && spin < 1000; ++spin)   // stable for 8 ms
				{
					usleep(1000);
					const size_t nowc(w.ses->nframes());
					if (nowc == last) ++quiet; else { quiet = 0; last = nowc; }
				}
				std::string fr("[");
				{
					std::lock_guard<std::mutex> g(w.ses->_rm);
					for (size_t i(0); i < w.ses->_frames.size(); ++i)
						fr += std::string(i ? "," : "") + "{\"len\":" + std::to_string(w.ses->_frames[i].size()) + ",\"h\":" + std::to_string(fnv31(w.ses->_frames[i])) + "}";
				}
				fr += "]";
				int pending(0);
				ioctl(w.sock->impl()->sockfd(), FIONREAD, &pending);
				pj::Ev("Frames").raw("delivered", fr).i("st", w.ses->st()).b("shutdown", w.ses->shut()).i("unread", pending).emit();
			}
			else if (c == "outhex") { g_outhex = t[1] == "on"; }
			else if (c == "peerclose")   // the counterparty's end goes away: the session's next socket write fails
			{
				if (w.peerfd >= 0) { drain(w); close(w.peerfd); w.peerfd = -1; }
			}
			else if (c == "reconnect")   // same session object, new connection (what ReliableClientSession does)
			{
				const std::string pre(state_json(w));
				try { w.ses->stop(); } catch (...) {}
				delete w.ses->conn();
				if (w.sock) { delete w.sock; w.sock = nullptr; }
				if (w.peerfd >= 0) { close(w.peerfd); w.peerfd = -1; }
				const unsigned a(t.size() > 1 ? strtoul(t[1].c_str(), 0, 10) : 0), b(t.size() > 2 ? strtoul(t[2].c_str(), 0, 10) : 0);
				const int r(connect_session(w, a, b));
				emit(w, "Start", pre, "\"cfg_send\":" + std::to_string(a) + ",\"cfg_recv\":" + std::to_string(b) + ",\"reconnect\":true", r == 0);
			}
			else if (c == "drop")      // connection lost: stop the session's connection, keep the session object
			{
				const std::string pre(state_json(w));
				try { w.ses->stop(); } catch (...) {}
				emit(w, "Drop", pre, "", true);
			}
			else if (c == "sidcmp")    // sidcmp s1 t1 s2 t2
			{
				SessionID a(UTEST::ctx()._beginStr, t[1], t[2]), b(UTEST::ctx()._beginStr, t[3], t[4]);
				pj::Ev("SidCmp").s("s1", t[1]).s("t1", t[2]).s("s2", t[3]).s("t2", t[4]).b("eq", a == b).b("ne", a != b)
					.b("eq_self", a == a).b("ne_self", a != a).emit();
			}
			else if (c == "quit") break;
			else pj::Ev("Error").s("what", "unknown command " + c).emit();
		}
		catch (f8Exception& e) { pj::Ev("Error").s("what", std::string("f8Exception ") + e.what()).s("cmd", c).emit(); }
		catch (Poco::Exception& e) { pj::Ev("Error").s("what", std::string("Poco ") + e.displayText()).s("cmd", c).emit(); }
		catch (std::exception& e) { pj::Ev("Error").s("what", std::string("std ") + e.what()).s("cmd", c).emit(); }
	}
	fflush(stdout);
	_exit(0);
}
