// probe_decode: feeds raw bytes to the real Message::factory (strict / permissive, with / without
// checksum verification) and builds messages through the metadata API for Message::encode; prints
// what the library did: result class, the retained field tree (tags, rendered text, group elements,
// the pass-through strings of header / body / trailer) and the re-encoded bytes.  No oracle here.
//
// One command per line (pj.hpp tokenising, byte strings in hex, "-" = empty):
//   reset <json>                                  -> {"e":"Reset","cfg":<json>}
//   dec <id> <u|f> <s|p> <nochk 0|1> <hex>        decode, print tree, re-encode
//   enc <id> <u|f> <msgtype> <item>...            build + encode (+ "D" item: decode the result strictly, re-encode)
//        items: H B T (section)  F<tag>=<hex> (field)  G<tag> (open group)  E (new element)  e  g   D
//               R<tag>=<hex>: after D, decode the bytes once more, replace that (top-level) field of the decoded
//               message by a new value, encode and decode again -> {"e":"Decode2",...}
// Every dec/enc prints {"e":"Begin","id":..} first and {"e":"End","id":..} last, so that the driver
// knows which input was in flight when the process died (sanitizer report: exit 97; watchdog: the
// SIGPROF/SIGALRM handler prints {"e":"Timeout"} and exits 98) and restarts the probe behind it.
//   limit <ms>      watchdog bound per command in CPU time (default 10000); "us" fields are CPU time too
//   fork on|off     alternatively run each dec/enc in a forked child (slow under ASan; off by default):
//                   {"e":"Abort","id":..,"how":"exit|signal|timeout","rc":..,"report":"<head of stderr>"}
#include <precomp.hpp>
#include <fix8/f8includes.hpp>
#include <fix8/f8types.hpp>
#include "pj.hpp"
#include <sys/wait.h>
#include <sys/mman.h>
#include <fcntl.h>
#include <signal.h>
#include <sys/time.h>
#include <time.h>
#include <typeinfo>
#include <cxxabi.h>

using namespace FIX8;

namespace FIX8 {
namespace UTEST { const F8MetaCntx& ctx(); }
namespace FIX44 { const F8MetaCntx& ctx(); }
}

static const F8MetaCntx& pick(const std::string& s) { return s == "f" ? FIX44::ctx() : UTEST::ctx(); }

static long long now_us()
{
	timespec ts;
	clock_gettime(CLOCK_MONOTONIC, &ts);
	return ts.tv_sec * 1000000LL + ts.tv_nsec / 1000;
}

// CPU time of this process: what the "us" fields report, so that a loaded machine does not look like a slow codec
static long long cpu_us()
{
	timespec ts;
	clock_gettime(CLOCK_PROCESS_CPUTIME_ID, &ts);
	return ts.tv_sec * 1000000LL + ts.tv_nsec / 1000;
}

static std::string demangle(const char *n)
{
	int st = 0;
	char *d = abi::__cxa_demangle(n, nullptr, nullptr, &st);
	std::string r(st == 0 && d ? d : n);
	free(d);
	return r;
}

// ---- the retained field tree ----------------------------------------------------------------
static std::string text_of(const BaseField *bf)
{
	std::ostringstream os;
	bf->print(os);
	return os.str();
}

static void tree_json(const MessageBase *mb, std::string& out, int depth = 0)
{
	out += "[";
	bool first = true;
	if (mb && depth < 12)
		for (const auto& pp : mb->get_positions())
		{
			const BaseField *bf = pp.second;
			if (!bf) continue;
			if (!first) out += ",";
			first = false;
			out += "[" + std::to_string(bf->get_tag()) + ",\"" + pj::hex(text_of(bf)) + "\",[";
			const GroupBase *gb = mb->find_group(bf->get_tag());
			if (gb)
				for (size_t i = 0; i < gb->size(); ++i)
				{
					if (i) out += ",";
					tree_json(gb->get_element(static_cast<unsigned>(i)), out, depth + 1);
				}
			out += "]]";
		}
	out += "]";
}

static void describe(pj::Ev& ev, Message *m, const char *prefix)
{
	std::string h, b, t;
	tree_json(m->Header(), h);
	tree_json(m, b);
	tree_json(m->Trailer(), t);
	const std::string p(prefix);
	ev.raw((p + "h").c_str(), h).raw((p + "b").c_str(), b).raw((p + "t").c_str(), t);
	ev.s((p + "uh").c_str(), pj::hex(m->Header() ? m->Header()->get_unknown() : f8String()));
	ev.s((p + "ub").c_str(), pj::hex(m->get_unknown()));
	ev.s((p + "ut").c_str(), pj::hex(m->Trailer() ? m->Trailer()->get_unknown() : f8String()));
}

template<typename F>
static bool guarded(pj::Ev& ev, const char *pfx, F&& f)
{
	const std::string p(pfx);
	const long long t0 = cpu_us();
	bool ok = false;
	try
	{
		f();
		ok = true;
		ev.s((p + "res").c_str(), "ok");
	}
	catch (f8Exception& e)
	{
		ev.s((p + "res").c_str(), "f8exc").s((p + "cls").c_str(), demangle(typeid(e).name())).s((p + "what").c_str(), std::string(e.what()).substr(0, 160));
	}
	catch (std::exception& e)
	{
		ev.s((p + "res").c_str(), "stdexc").s((p + "cls").c_str(), demangle(typeid(e).name())).s((p + "what").c_str(), std::string(e.what()).substr(0, 160));
	}
	catch (...)
	{
		ev.s((p + "res").c_str(), "otherexc");
	}
	ev.i((p + "us").c_str(), cpu_us() - t0);
	return ok;
}

// decode `bytes`, describe the message, re-encode it
static void do_decode(pj::Ev& ev, const F8MetaCntx& ctx, const std::string& bytes, bool nochk, bool perm)
{
	Message *m = nullptr;
	if (guarded(ev, "", [&]() { m = Message::factory(ctx, bytes, nochk, perm); }) && m)
	{
		ev.s("mt", m->get_msgtype());
		describe(ev, m, "");
		f8String out;
		if (guarded(ev, "re_", [&]() { m->encode(out); }))
			ev.s("re_hex", pj::hex(out));
	}
	delete m;
}

static void do_dec(const std::vector<std::string>& t)
{
	pj::Ev ev("Decode");
	ev.s("id", t[1]).s("mode", t[3]).i("nochk", t[4] == "1");
	const std::string bytes = pj::unhex(t[5]);
	ev.i("len", bytes.size());
	do_decode(ev, pick(t[2]), bytes, t[4] == "1", t[3] == "p");
	ev.emit();
}

static void do_enc(const std::vector<std::string>& t)
{
	const F8MetaCntx& ctx = pick(t[2]);
	pj::Ev ev("Encode");
	ev.s("id", t[1]).s("mt", t[3]);
	Message *m = nullptr;
	f8String out;
	bool want_dec = false;
	std::vector<std::pair<unsigned short, std::string>> repl;
	const bool built = guarded(ev, "b_", [&]() {
		m = ctx.create_msg(t[3].c_str(), true);
		if (!m)
			throw std::runtime_error("create_msg: unknown message type");
		MessageBase *top = m;
		std::vector<MessageBase *> cont;      // container stack (message section / group elements)
		std::vector<GroupBase *> grp;         // open groups
		std::vector<int> grp_depth;           // size of cont when the group was opened
		cont.push_back(top);
		for (size_t i = 4; i < t.size(); ++i)
		{
			const std::string& it = t[i];
			if (it == "H" || it == "B" || it == "T")
			{
				top = it == "H" ? m->Header() : it == "T" ? m->Trailer() : static_cast<MessageBase *>(m);
				cont.clear(); grp.clear(); grp_depth.clear();
				cont.push_back(top);
			}
			else if (it[0] == 'F')
			{
				const size_t eq = it.find('=');
				const unsigned short fnum = static_cast<unsigned short>(strtoul(it.c_str() + 1, 0, 10));
				const std::string val = pj::unhex(it.substr(eq + 1));
				BaseField *bf = ctx.create_field(fnum, val.c_str());
				if (!bf)
					throw std::runtime_error("create_field: unknown field " + std::to_string(fnum));
				cont.back()->add_field(bf);
			}
			else if (it[0] == 'G')
			{
				const unsigned short fnum = static_cast<unsigned short>(strtoul(it.c_str() + 1, 0, 10));
				GroupBase *parent = grp.empty() ? nullptr : grp.back();
				GroupBase *gb = cont.back()->find_add_group(fnum, parent);
				if (!gb)
					throw std::runtime_error("find_add_group failed " + std::to_string(fnum));
				grp.push_back(gb);
				grp_depth.push_back(static_cast<int>(cont.size()));
			}
			else if (it == "E")
			{
				MessageBase *el = grp.back()->create_group(true);
				cont.push_back(el);
			}
			else if (it == "e")
			{
				MessageBase *el = cont.back();
				cont.pop_back();
				grp.back()->add(el);
			}
			else if (it == "g")
			{
				grp.pop_back();
				grp_depth.pop_back();
			}
			else if (it == "D")
				want_dec = true;
			else if (it[0] == 'R')
			{
				const size_t eq = it.find('=');
				repl.push_back({static_cast<unsigned short>(strtoul(it.c_str() + 1, 0, 10)), pj::unhex(it.substr(eq + 1))});
			}
		}
	});
	bool encoded = false;
	if (built)
	{
		encoded = guarded(ev, "", [&]() { m->encode(out); });
		if (encoded)
			ev.s("hex", pj::hex(out));
	}
	ev.emit();
	delete m;
	if (encoded && want_dec)
	{
		pj::Ev dv("Decode");
		dv.s("id", t[1]).s("mode", "s").i("nochk", 0).i("len", out.size());
		do_decode(dv, ctx, out, false, false);
		dv.emit();
	}
	if (encoded && want_dec && !repl.empty())
	{
		// the message as an application gets it from the factory, one field value replaced, sent on
		pj::Ev rv("Replace");
		rv.s("id", t[1]);
		f8String out2;
		const bool ok = guarded(rv, "", [&]() {
			std::unique_ptr<Message> d(Message::factory(ctx, out));
			if (!d)
				throw std::runtime_error("factory returned nothing");
			for (const auto& r : repl)
			{
				MessageBase *part = d->Header()->have(r.first) ? d->Header() : d->Trailer()->have(r.first) ? d->Trailer() : static_cast<MessageBase *>(d.get());
				BaseField *bf = ctx.create_field(r.first, r.second.c_str());
				if (!bf)
					throw std::runtime_error("create_field: unknown field " + std::to_string(r.first));
				BaseField *old = part->replace(r.first, bf);
				if (!old)
					throw std::runtime_error("replace: field not present " + std::to_string(r.first));
				delete old;
			}
			d->encode(out2);
		});
		if (ok)
			rv.s("hex", pj::hex(out2));
		rv.emit();
		if (ok)
		{
			pj::Ev dv("Decode2");
			dv.s("id", t[1]).s("mode", "s").i("nochk", 0).i("len", out2.size());
			do_decode(dv, ctx, out2, false, false);
			dv.emit();
		}
	}
}

// ---- child process per command -----------------------------------------------------------------
static int g_errfd = -1;

static void run_forked(const std::vector<std::string>& t, long limit_ms)
{
	fflush(stdout);
	if (g_errfd < 0)
		g_errfd = memfd_create("probe_decode_stderr", 0);
	if (ftruncate(g_errfd, 0) != 0) {}
	lseek(g_errfd, 0, SEEK_SET);
	const long long t0 = now_us();
	const pid_t pid = fork();
	if (pid == 0)
	{
		dup2(g_errfd, 2);
		if (t[0] == "dec") do_dec(t); else do_enc(t);
		fflush(stdout);
		_exit(0);
	}
	int st = 0;
	bool timed_out = false;
	for (;;)
	{
		const pid_t r = waitpid(pid, &st, WNOHANG);
		if (r == pid) break;
		if ((now_us() - t0) / 1000 > limit_ms)
		{
			timed_out = true;
			kill(pid, SIGKILL);
			waitpid(pid, &st, 0);
			break;
		}
		usleep(200);
	}
	if (timed_out || !WIFEXITED(st) || WEXITSTATUS(st) != 0)
	{
		char buf[6001];
		lseek(g_errfd, 0, SEEK_SET);
		const ssize_t n = read(g_errfd, buf, sizeof buf - 1);
		buf[n > 0 ? n : 0] = 0;
		pj::Ev("Abort").s("id", t[1]).s("cmd", t[0])
			.s("how", timed_out ? "timeout" : WIFSIGNALED(st) ? "signal" : "exit")
			.i("rc", WIFEXITED(st) ? WEXITSTATUS(st) : WIFSIGNALED(st) ? WTERMSIG(st) : -1)
			.i("us", now_us() - t0).s("report", buf).emit();
	}
}

static void on_alarm(int)
{
	static const char msg[] = "{\"e\":\"Timeout\"}\n";
	fflush(stdout);
	if (write(1, msg, sizeof msg - 1) < 0) {}
	_exit(98);
}

// watchdog: `ms` of CPU time (a decode or encode only computes), ten times that of wall time as a backstop
static void arm(long ms)
{
	itimerval it {};
	it.it_value.tv_sec = ms / 1000;
	it.it_value.tv_usec = (ms % 1000) * 1000;
	setitimer(ITIMER_PROF, &it, nullptr);
	itimerval wall {};
	wall.it_value.tv_sec = ms / 100;
	setitimer(ITIMER_REAL, &wall, nullptr);
}

int main(int argc, char **argv)
{
	pj::install_terminate();
	signal(SIGALRM, on_alarm);
	signal(SIGPROF, on_alarm);
	// touch both contexts before any fork so that their tables are built once
	(void)UTEST::ctx(); (void)FIX44::ctx();
	bool forking = false;
	long limit_ms = 10000;
	std::string line;
	while (std::getline(std::cin, line))
	{
		auto t = pj::split(line);
		if (t.empty()) continue;
		const std::string& c = t[0];
		if (c == "reset") pj::Ev("Reset").raw("cfg", line.substr(6)).emit();
		else if (c == "fork") forking = t[1] == "on";
		else if (c == "limit") limit_ms = strtol(t[1].c_str(), 0, 10);
		else if ((c == "dec" && t.size() >= 6) || (c == "enc" && t.size() >= 4))
		{
			pj::Ev("Begin").s("id", t[1]).emit();
			if (forking) run_forked(t, limit_ms);
			else
			{
				arm(limit_ms);
				if (c == "dec") do_dec(t); else do_enc(t);
				arm(0);
			}
			pj::Ev("End").s("id", t[1]).emit();
		}
		else if (c == "quit") break;
		else pj::Ev("Error").s("what", "bad command " + c).emit();
	}
	fflush(stdout);
	_exit(0);
}
