// probe_mpmc: drives the real ff::uMPMC_Ptr_Queue (include/fix8/ff/mpmc/MPMCqueues.hpp).
//
//  ctl  <nq> <seg> <np> <nc> <npush> <npop> <t,t,t,...>
//       Controlled scheduling through hook H1: every worker thread parks at each
//       FIX8_VERIF_YIELD point inside push/pop; the main thread releases exactly the thread named by
//       the next number of the schedule (a behaviour of spec/MPMC.tla chosen by TLC), waits until it
//       parks again and logs the ticket counters, sequence words and sub-queue lengths.  When the
//       schedule is used up the remaining threads are stepped round-robin until all have finished,
//       then the main thread drains the queue.
//  free <nq> <seg> <np> <nc> <npush> <spin>
//       Free-running threads (no scheduler installed): np producers push npush elements each, nc
//       consumers pop until everything pushed has been popped; per-consumer pop logs are printed.
//
// No oracle here: the probe only performs the calls and prints what it saw.
#include <fix8/ff/mpmc/MPMCqueues.hpp>
#include <fix8/ff/ubuffer.hpp>
#include "pj.hpp"
#include <atomic>
#include <chrono>
#include <condition_variable>
#include <memory>
#include <mutex>
#include <thread>
#include <sched.h>

#ifndef FIX8_VERIF
#error "probe_mpmc needs the FIX8_VERIF hooks (pending/mpmc/hook_mpmc_yield.patch)"
#endif

// friend of uMPMC_Ptr_Queue (declared in fix8/verif_hooks.hpp)
struct fix8_verif_peek
{
	static long tickP(ff::uMPMC_Ptr_Queue& q) { return static_cast<long>(atomic_long_read(&q.preadP)); }
	static long tickC(ff::uMPMC_Ptr_Queue& q) { return static_cast<long>(atomic_long_read(&q.preadC)); }
	static long seqP(ff::uMPMC_Ptr_Queue& q, size_t i) { return static_cast<long>(atomic_long_read(&q.seqP[i])); }
	static long seqC(ff::uMPMC_Ptr_Queue& q, size_t i) { return static_cast<long>(atomic_long_read(&q.seqC[i])); }
	static size_t slots(ff::uMPMC_Ptr_Queue& q) { return q.mask + 1; }
	static long len(ff::uMPMC_Ptr_Queue& q, size_t i) { return static_cast<long>(static_cast<ff::uSWSR_Ptr_Buffer *>(q.buf[i])->length()); }
};

namespace {

const long SENTINEL = 0x7ffffff0L;   // what a pop "returns" if it reports success without writing

inline void *enc(long v) { return reinterpret_cast<void *>(static_cast<uintptr_t>(v)); }
inline long dec(void *p)
{
	const uintptr_t u = reinterpret_cast<uintptr_t>(p);
	return u < 0x7fffffffUL ? static_cast<long>(u) : -2;
}

// ---- controlled scheduler -------------------------------------------------------------------
struct Worker
{
	int id = 0;
	bool prod = false;
	int quota = 0;
	const char *label = "new";     // yield point the thread is parked at
	bool finished = false;
	long cur = 0;                  // element being pushed (producers)
	bool ret = false, ok = false;  // an operation returned during the last step
	long val = 0;
	std::thread th;
};

std::mutex g_mu;
std::condition_variable g_cv;
int g_turn = 0;                    // id of the thread allowed to run; 0 = main
thread_local Worker *tl_worker = nullptr;

void park(Worker *w, const char *label)
{
	std::unique_lock<std::mutex> lk(g_mu);
	w->label = label;
	g_turn = 0;
	g_cv.notify_all();
	g_cv.wait(lk, [w] { return g_turn == w->id; });
}

// the main thread's own pops (final drain) run under a step budget: a pop that spins for ever is
// reported as Stuck instead of hanging the probe
long g_budget = 0, g_used = 0;

void yield_hook(const char *label, long)
{
	if (tl_worker)
		park(tl_worker, label);
	else if (g_budget && ++g_used > g_budget)
	{
		pj::Ev("Stuck").i("steps", g_used).raw("labels", std::string("[\"drain:") + label + "\"]").emit();
		fflush(stdout);
		_exit(95);
	}
}

void worker_main(Worker *w, ff::uMPMC_Ptr_Queue *q)
{
	tl_worker = w;
	{
		std::unique_lock<std::mutex> lk(g_mu);
		g_cv.wait(lk, [w] { return g_turn == w->id; });
	}
	for (int k = 1; k <= w->quota; ++k)
	{
		if (w->prod)
		{
			w->cur = w->id * 100 + k;
			const bool r = q->push(enc(w->cur));
			w->ret = true; w->ok = r; w->val = w->cur;
		}
		else
		{
			void *d = enc(SENTINEL);
			const bool r = q->pop(&d);
			w->ret = true; w->ok = r; w->val = r ? dec(d) : 0;
		}
	}
	std::unique_lock<std::mutex> lk(g_mu);
	w->label = "done";
	w->finished = true;
	g_turn = 0;
	g_cv.notify_all();
}

// let thread w run until it parks again (or finishes)
void release(Worker *w)
{
	std::unique_lock<std::mutex> lk(g_mu);
	g_turn = w->id;
	g_cv.notify_all();
	g_cv.wait(lk, [] { return g_turn == 0; });
}

void emit_step(ff::uMPMC_Ptr_Queue& q, Worker& w, const char *at, bool forced)
{
	const size_t n = fix8_verif_peek::slots(q);
	std::vector<long> sp, sc, ln;
	for (size_t i = 0; i < n; ++i)
	{
		sp.push_back(fix8_verif_peek::seqP(q, i));
		sc.push_back(fix8_verif_peek::seqC(q, i));
		ln.push_back(fix8_verif_peek::len(q, i));
	}
	pj::Ev ev("Step");
	ev.i("t", w.id).s("at", at).s("to", w.label).i("tickP", fix8_verif_peek::tickP(q)).i("tickC", fix8_verif_peek::tickC(q))
		.ints("seqP", sp).ints("seqC", sc).ints("len", ln).i("cur", w.prod ? w.cur : 0).b("rr", forced).b("ret", w.ret);
	if (w.ret)
		ev.s("op", w.prod ? "push" : "pop").b("ok", w.ok).i("val", w.val);
	ev.emit();
	w.ret = false;
}

int run_ctl(const std::vector<std::string>& a)
{
	if (a.size() < 8) { pj::Ev("Error").s("what", "ctl: arguments").emit(); return 0; }
	const unsigned long nq = std::stoul(a[1]), seg = std::stoul(a[2]);
	const int np = std::stoi(a[3]), nc = std::stoi(a[4]), npush = std::stoi(a[5]), npop = std::stoi(a[6]);
	std::vector<int> sched;
	{
		std::istringstream is(a[7]);
		std::string tok;
		while (std::getline(is, tok, ','))
			if (!tok.empty() && tok != "-") sched.push_back(std::stoi(tok));
	}
	auto q = std::make_unique<ff::uMPMC_Ptr_Queue>();
	q->init(nq, seg);
	pj::Ev("Reset").s("mode", "ctl").i("nq", static_cast<long>(fix8_verif_peek::slots(*q))).i("np", np).i("nc", nc)
		.i("npush", npush).i("npop", npop).emit();
	const int nt = np + nc;
	std::vector<std::unique_ptr<Worker>> ws;
	g_turn = 0;
	fix8_verif_yield_hook = yield_hook;
	for (int t = 1; t <= nt; ++t)
	{
		auto w = std::make_unique<Worker>();
		w->id = t; w->prod = t <= np; w->quota = w->prod ? npush : npop;
		w->th = std::thread(worker_main, w.get(), q.get());
		release(w.get());          // runs up to its first yield point (or finishes if its quota is 0)
		ws.push_back(std::move(w));
	}
	auto live = [&] { int n = 0; for (auto& w : ws) n += !w->finished; return n; };
	long steps = 0;
	const long cap = 100L * nt * (npush + npop + 1);   // round-robin needs far fewer; a livelock is reported as Stuck
	bool stuck = false;
	auto step = [&](Worker& w, bool forced) {
		const char *at = w.label;
		release(&w);
		emit_step(*q, w, at, forced);
		++steps;
	};
	for (int t : sched)
	{
		if (t < 1 || t > nt || ws[t - 1]->finished) { pj::Ev("Skip").i("t", t).emit(); continue; }
		step(*ws[t - 1], false);
	}
	while (live() && !stuck)
		for (auto& w : ws)
		{
			if (w->finished) continue;
			if (steps >= cap) { stuck = true; break; }
			step(*w, true);
		}
	if (stuck)
	{
		std::vector<std::string> labs;
		std::string j = "[";
		for (auto& w : ws) { if (j.size() > 1) j += ","; j += std::string("\"") + w->label + "\""; }
		pj::Ev("Stuck").i("steps", steps).raw("labels", j + "]").emit();
		fflush(stdout);
		_exit(95);                  // the spinning threads cannot be joined
	}
	for (auto& w : ws) w->th.join();
	// drain by the main thread (hook stays installed, only to bound the number of steps)
	g_used = 0;
	g_budget = cap;
	std::vector<long> vals;
	bool capped = false;
	for (;;)
	{
		void *d = enc(SENTINEL);
		if (!q->pop(&d)) break;
		vals.push_back(dec(d));
		if (vals.size() > static_cast<size_t>(np * npush + 8)) { capped = true; break; }
	}
	g_budget = 0;
	fix8_verif_yield_hook = nullptr;
	pj::Ev("Drain").ints("vals", vals).b("capped", capped).i("tickP", fix8_verif_peek::tickP(*q))
		.i("tickC", fix8_verif_peek::tickC(*q)).emit();
	return 0;
}

// ---- free-running ---------------------------------------------------------------------------
struct PopRec { int p; int k; };    // k > 0: element k of producer p; k == 0: a run of "empty" results, p = 1 if any of
                                    // them began after all producers had finished; k == -1: alien value

int run_free(const std::vector<std::string>& a)
{
	if (a.size() < 7) { pj::Ev("Error").s("what", "free: arguments").emit(); return 0; }
	const unsigned long nq = std::stoul(a[1]), seg = std::stoul(a[2]);
	const int np = std::stoi(a[3]), nc = std::stoi(a[4]), npush = std::stoi(a[5]), spin = std::stoi(a[6]);
	auto q = std::make_unique<ff::uMPMC_Ptr_Queue>();
	q->init(nq, seg);
	fix8_verif_yield_hook = nullptr;
	const long total = static_cast<long>(np) * npush;
	std::atomic<int> go{0};
	std::atomic<long> popped{0};
	std::atomic<int> prod_live{np};
	std::atomic<int> cons_live{nc};
	std::atomic<bool> giveup{false};
	std::vector<std::vector<PopRec>> logs(nc);
	std::vector<long> pushed(np, 0);
	std::vector<std::thread> th;
	for (int p = 1; p <= np; ++p)
		th.emplace_back([&, p] {
			while (!go.load()) sched_yield();
			for (int k = 1; k <= npush; ++k)
			{
				q->push(enc((static_cast<long>(p) << 20) | k));
				++pushed[p - 1];
				if (spin && (k % spin) == 0) sched_yield();
			}
			prod_live.fetch_sub(1);
		});
	for (int c = 0; c < nc; ++c)
		th.emplace_back([&, c] {
			std::vector<PopRec>& lg = logs[c];
			lg.reserve(static_cast<size_t>(total / nc + 1024));
			while (!go.load()) sched_yield();
			while (popped.load() < total && !giveup.load())
			{
				const bool quiesced = prod_live.load() == 0;   // read before the call begins
				void *d = enc(SENTINEL);
				if (q->pop(&d))
				{
					popped.fetch_add(1);
					const long v = dec(d);
					const int p = static_cast<int>(v >> 20), k = static_cast<int>(v & 0xfffff);
					if (v <= 0 || p < 1 || p > np || k < 1 || k > npush) lg.push_back({0, -1});
					else lg.push_back({p, k});
				}
				else
				{
					if (!lg.empty() && lg.back().k == 0) lg.back().p |= quiesced ? 1 : 0;
					else lg.push_back({quiesced ? 1 : 0, 0});
					if (spin) sched_yield();
				}
			}
			cons_live.fetch_sub(1);
		});
	go.store(1);
	// watchdog: give up if nothing is popped for 20 s (a lost element would otherwise hang the run)
	long last = -1;
	auto t0 = std::chrono::steady_clock::now();
	while (popped.load() < total)
	{
		std::this_thread::sleep_for(std::chrono::milliseconds(2));
		const long now = popped.load();
		if (now != last) { last = now; t0 = std::chrono::steady_clock::now(); }
		else if (std::chrono::steady_clock::now() - t0 > std::chrono::seconds(20)) { giveup.store(true); break; }
	}
	bool hung = false;
	if (giveup.load())
	{
		// threads may be spinning for ever inside push/pop: do not join them then
		std::this_thread::sleep_for(std::chrono::milliseconds(200));
		hung = prod_live.load() != 0 || cons_live.load() != 0;
	}
	if (!hung)
		for (auto& t : th) t.join();
	pj::Ev("Reset").s("mode", "free").i("nq", static_cast<long>(fix8_verif_peek::slots(*q))).i("np", np).i("nc", nc)
		.i("npush", npush).i("npop", 0).emit();
	for (int c = 0; c < nc && !hung; ++c)    // (the logs of threads that are still running are not touched)
	{
		std::string j = "[";
		for (const PopRec& r : logs[c])
		{
			if (j.size() > 1) j += ",";
			j += "[" + std::to_string(r.p) + "," + std::to_string(r.k) + "]";
		}
		pj::Ev("Pops").i("c", c + 1).raw("items", j + "]").emit();
	}
	// what is left in the queue (nothing, if every element was popped once); bounded like the ctl drain
	std::vector<long> tail;
	bool capped = false;
	if (!hung)
	{
		g_used = 0;
		g_budget = 100000;
		fix8_verif_yield_hook = yield_hook;
		for (;;)
		{
			void *d = enc(SENTINEL);
			if (!q->pop(&d)) break;
			tail.push_back(dec(d));
			if (tail.size() > 64) { capped = true; break; }
		}
		g_budget = 0;
		fix8_verif_yield_hook = nullptr;
	}
	pj::Ev("FreeEnd").ints("pushed", pushed).b("timeout", giveup.load()).b("hung", hung).ints("tail", tail).b("capped", capped)
		.i("tickP", fix8_verif_peek::tickP(*q)).i("tickC", fix8_verif_peek::tickC(*q)).emit();
	if (hung) { fflush(stdout); _exit(95); }
	return 0;
}

// ---- the sub-queue alone (spec/USpsc.tla) -----------------------------------------------------
//  uspsc  <seg> <ops>        one thread: ops is a string of U (push the next number) and O (pop) calls on a
//                            real ff::uSWSR_Ptr_Buffer with <seg> slots per ring; one event per call, then
//                            the queue is drained (Drain{items})
//  uspsc2 <seg> <n> <spin>   two free-running threads: the producer pushes 1..n, the consumer pops until it
//                            has n elements (or 150 s pass); the popped values are logged as maximal runs of
//                            consecutive numbers (run-length coding, no judgement), with the number of pops
//                            that returned false after the producer had finished
int run_uspsc(const std::vector<std::string>& a)
{
	if (a.size() < 3) { pj::Ev("Error").s("what", "uspsc: arguments").emit(); return 0; }
	const unsigned long seg = std::stoul(a[1]);
	ff::uSWSR_Ptr_Buffer q(seg);
	q.init();
	pj::Ev("Reset").s("mode", "uspsc").i("seg", static_cast<long>(seg)).i("np", 1).i("nc", 1).i("npush", 0).emit();
	long next = 1;
	for (const char c : a[2])
	{
		if (c == 'U')
		{
			const bool ok = q.push(enc(next));
			pj::Ev("SPush").i("v", next).b("ok", ok).emit();
			++next;
		}
		else
		{
			void *d = enc(SENTINEL);
			const bool ok = q.pop(&d);
			pj::Ev("SPop").b("ok", ok).i("v", dec(d)).emit();
		}
	}
	std::vector<long> tail;
	void *d = enc(SENTINEL);
	while (tail.size() < 4096 && q.pop(&d)) { tail.push_back(dec(d)); d = enc(SENTINEL); }
	pj::Ev("SDrain").ints("items", tail).emit();
	return 0;
}

int run_uspsc2(const std::vector<std::string>& a)
{
	if (a.size() < 4) { pj::Ev("Error").s("what", "uspsc2: arguments").emit(); return 0; }
	const unsigned long seg = std::stoul(a[1]);
	const long n = std::stol(a[2]);
	const int spin = std::stoi(a[3]);
	ff::uSWSR_Ptr_Buffer q(seg);
	q.init();
	pj::Ev("Reset").s("mode", "uspsc2").i("seg", static_cast<long>(seg)).i("np", 1).i("nc", 1).i("npush", n).emit();
	std::atomic<int> go{0};
	std::atomic<bool> pdone{false};
	std::vector<long> runs;       // from, to, from, to, ...
	long got = 0, false_after_done = 0;
	bool timeout = false;
	std::thread prod([&] {
		while (!go.load()) sched_yield();
		for (long k = 1; k <= n; ++k)
		{
			q.push(enc(k));
			if (spin && (k % spin) == 0) sched_yield();
		}
		pdone.store(true);
	});
	std::thread cons([&] {
		while (!go.load()) sched_yield();
		const auto t0 = std::chrono::steady_clock::now();
		unsigned long it = 0;
		while (got < n)
		{
			const bool quiesced = pdone.load();     // read before the call begins
			void *d = enc(SENTINEL);
			if (q.pop(&d))
			{
				const long v = dec(d);
				++got;
				if (!runs.empty() && runs.back() + 1 == v) runs.back() = v;
				else { runs.push_back(v); runs.push_back(v); }
				if (runs.size() > 2000) break;
			}
			else
			{
				if (quiesced) { if (++false_after_done > 3) break; }
				if (spin && (it % (spin + 1)) == 0) sched_yield();
			}
			if ((++it & 0xffff) == 0 && std::chrono::steady_clock::now() - t0 > std::chrono::seconds(150)) { timeout = true; break; }
		}
	});
	go.store(1);
	prod.join();
	cons.join();
	pj::Ev("SRuns").ints("runs", runs).i("got", got).i("false_after_done", false_after_done).b("timeout", timeout).emit();
	return 0;
}

}

int main()
{
	pj::install_terminate();
	std::string line;
	while (std::getline(std::cin, line))
	{
		const std::vector<std::string> a = pj::split(line);
		if (a.empty()) continue;
		if (a[0] == "quit") break;
		else if (a[0] == "ctl") run_ctl(a);
		else if (a[0] == "free") run_free(a);
		else if (a[0] == "uspsc") run_uspsc(a);
		else if (a[0] == "uspsc2") run_uspsc2(a);
		else pj::Ev("Error").s("what", "unknown command " + a[0]).emit();
	}
	return 0;
}
