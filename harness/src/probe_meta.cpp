// probe_meta: metadata dump of an f8c-generated schema (C13, C14) + everything probe_codec does.
//
//   probe_meta meta <NS>     print what the generated code of schema <NS> says about itself, one ndjson
//                            event per table entry / container, then exit
//   probe_meta               (no arguments) behave exactly as probe_codec: the command loop of
//                            probe_codec.cpp is compiled into this binary unchanged (its main is renamed), so one
//                            link per generated schema serves the metadata dump and the C01 round trips
//
// No oracle here: the dump walks the generated tables through the public metadata API only
// (F8MetaCntx::_be / _bme, BaseEntry, RealmBase::print, Message::get_fp().get_presence(), is_admin(),
// MessageBase::find_group, GroupBase::create_group) and prints what it finds.
//
//   {"e":"MCtx","ns":..,"version":..,"begin":..}
//   {"e":"MField","num":n,"name":..,"found":bool,"rtype":"set|range|","rft":"<FieldType of the realm>","vals":[[text,desc]..]}
//   {"e":"MMsg","mt":"<msgtype|header|trailer>","name":..,"admin":bool,"made":bool,"tr":[[num,"<FieldType>",pos,mand,group,comp]..]}
//   {"e":"MGroup","mt":..,"path":[count field,...],"made":bool,"tr":[...]}       one per group reachable from a message
//   {"e":"MEnd","fields":n,"msgs":n,"groups":n}
// tr lists the traits in table order (ascending field number).
#define main probe_codec_main
#include "probe_codec.cpp"
#undef main

namespace {

const char *ft_name(FieldTrait::FieldType t)
{
	switch (t)
	{
#define FT(x) case FieldTrait::ft_##x: return #x;
	FT(untyped) FT(int) FT(Length) FT(TagNum) FT(SeqNum) FT(NumInGroup) FT(DayOfMonth) FT(char) FT(Boolean) FT(float)
	FT(Qty) FT(Price) FT(PriceOffset) FT(Amt) FT(Percentage) FT(string) FT(MultipleCharValue) FT(MultipleStringValue)
	FT(Country) FT(Currency) FT(Exchange) FT(MonthYear) FT(UTCTimestamp) FT(UTCTimeOnly) FT(UTCDateOnly) FT(LocalMktDate)
	FT(TZTimeOnly) FT(TZTimestamp) FT(data) FT(XMLData) FT(pattern) FT(Tenor) FT(Reserved100Plus) FT(Reserved1000Plus)
	FT(Reserved4000Plus) FT(Language)
#undef FT
	}
	return "?";
}

std::string traits_of(const MessageBase *mb)
{
	std::string s("[");
	bool first(true);
	for (const auto& ft : mb->get_fp().get_presence())
	{
		if (!first) s += ",";
		first = false;
		s += "[" + std::to_string(ft._fnum) + ",\"" + ft_name(ft._ftype) + "\"," + std::to_string(ft._pos) + "," +
			(ft._field_traits.has(FieldTrait::mandatory) ? "1" : "0") + "," +
			(ft._field_traits.has(FieldTrait::group) ? "1" : "0") + "," + std::to_string(ft._component) + "]";
	}
	return s + "]";
}

unsigned g_groups = 0;

// every repeating group the container declares, recursively; an element is made the way the decoder makes it
void dump_groups(const std::string& mt, MessageBase *mb, GroupBase *owner, std::vector<int> path, unsigned depth)
{
	if (depth > 8)
		return;
	std::vector<unsigned short> gs;
	for (const auto& ft : mb->get_fp().get_presence())
		if (ft._field_traits.has(FieldTrait::group))
			gs.push_back(ft._fnum);
	for (unsigned short g : gs)
	{
		std::vector<int> p(path);
		p.push_back(g);
		pj::Ev ev("MGroup");
		ev.s("mt", mt).ints("path", p);
		// the deep constructor has made the group object; otherwise ask the way find_add_group does
		std::unique_ptr<GroupBase> made;
		GroupBase *gb(mb->find_group(g));
		if (!gb)
		{
			made.reset(owner ? owner->create_nested_group(g) : mb->create_nested_group(g));
			gb = made.get();
		}
		std::unique_ptr<MessageBase> el(gb ? gb->create_group(true) : nullptr);
		++g_groups;
		if (!el)
		{
			ev.b("made", false).raw("tr", "[]").emit();
			continue;
		}
		ev.b("made", true).s("gname", el->get_msgtype()).raw("tr", traits_of(el.get())).emit();
		dump_groups(mt, el.get(), gb, p, depth + 1);
	}
}

int dump_meta(const char *ns)
{
	using fn = const F8MetaCntx& (*)();
	fn f(reinterpret_cast<fn>(dlsym(RTLD_DEFAULT, (std::string(ns) + "_ctx").c_str())));
	if (!f)
	{
		pj::Ev("Error").s("what", std::string("no metadata context ") + ns).emit();
		return 3;
	}
	const F8MetaCntx& ctx(f());
	pj::Ev("MCtx").s("ns", ns).i("version", ctx.version()).s("begin", ctx.get_beginStr()).emit();

	unsigned nf(0), nm(0);
	for (const auto& pp : ctx._be)
	{
		const BaseEntry& be(pp.second());
		pj::Ev ev("MField");
		ev.i("num", pp.first()).i("fnum", be._fnum).s("name", be._name ? be._name : "");
		std::string vals("[");
		if (be._rlm)
		{
			ev.s("rtype", be._rlm->_dtype == RealmBase::dt_set ? "set" : "range").s("rft", ft_name(be._rlm->_ftype));
			for (int i(0); i < be._rlm->_sz; ++i)
			{
				std::ostringstream os;
				be._rlm->print(os, i);
				if (i) vals += ",";
				vals += "[\"" + pj::esc(os.str()) + "\",\"" +
					pj::esc(be._rlm->_descriptions && be._rlm->_descriptions[i] ? be._rlm->_descriptions[i] : "") + "\"]";
			}
		}
		else
			ev.s("rtype", "").s("rft", "");
		// find_be is what the decoder uses to get from a tag to this entry
		ev.b("found", ctx.find_be(static_cast<unsigned short>(pp.first())) == &be);
		ev.raw("vals", vals + "]").emit();
		++nf;
	}

	for (const auto& pp : ctx._bme)
	{
		const std::string mt(pp.first());
		const BaseMsgEntry& bme(pp.second());
		pj::Ev ev("MMsg");
		ev.s("mt", mt).s("name", bme._name ? bme._name : "");
		if (mt == "header" || mt == "trailer")
		{
			// the table entry of a section yields a MessageBase (reinterpret_cast to Message * by the generated code)
			std::unique_ptr<MessageBase> mb(reinterpret_cast<MessageBase *>(bme._create._do(true)));
			ev.b("admin", false).b("made", mb != nullptr).raw("tr", mb ? traits_of(mb.get()) : "[]").emit();
			if (mb)
				dump_groups(mt, mb.get(), nullptr, {}, 0);
		}
		else
		{
			std::unique_ptr<Message> m(bme._create._do(true));
			ev.b("admin", m && m->is_admin()).b("made", m != nullptr);
			if (m)
				ev.s("own", m->get_msgtype());
			ev.raw("tr", m ? traits_of(m.get()) : "[]").emit();
			if (m)
				dump_groups(mt, m.get(), nullptr, {}, 0);
		}
		++nm;
	}
	pj::Ev("MEnd").i("fields", nf).i("msgs", nm).i("groups", g_groups).emit();
	return 0;
}

}

int main(int argc, char **argv)
{
	if (argc > 2 && std::string(argv[1]) == "meta")
	{
		pj::install_terminate();
		try
		{
			return dump_meta(argv[2]);
		}
		catch (std::exception& e)
		{
			pj::Ev("Error").s("what", std::string("exception: ") + e.what()).emit();
			return 3;
		}
	}
	return probe_codec_main(argc, argv);
}
