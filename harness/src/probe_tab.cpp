// probe_tab: realm (enumerated-value) lookups and metadata lookup tables of the real fix8 code (C10, C12).
// One command per stdin line, one ndjson event per call.  No oracle: every event is what the library
// returned (plus pure data motion: which table pair an entry pointer belongs to, the offset of a returned
// iterator inside the set's current array).  What is *expected* comes from lib/schema.py / the TLA+ specs.
//
//   reset <json>                         -> Reset{cfg}
//   realm <sch> <fnum> <i|c|s|f>         select the realm of a schema field            -> RealmSel
//   synth <i|c|s|f> <set|range> <v>...   build a RealmBase over the given values       -> RealmSel
//   rp <v> [nofield]                     probe the selected realm with one value       -> Realm
//                                        (nofield: skip the field built from the value's FIX text)
//   scan <sch> <flu|be> <lo> <hi>        find_be / _be.find_ptr for every key lo..hi   -> Scan
//   lookbe <sch> <hi16> <lo16>           _be.find_ptr(hi16*65536+lo16)                 -> Lookup
//   lookbme <sch> <hexkey>               find_bme / _bme.find_ptr                      -> Lookup
//   rbme <sch> <hexname>                 reverse_find_bme                              -> Lookup
//   rbe <sch> <hexname>                  reverse_find_be / reverse_find_fnum           -> Lookup
//   traits <sch> <hexmsgtype|header|trailer> [groupfnum...]   FieldTraits over 0..65535 -> Traits
//   set <gen|ft> <reserve> [k:p ...]     new sorted set (static-array ctor when keys are given) -> SetNew
//   ins <k> <p> | find <k> | clear       on the current set                            -> Ins / Find / Clear
// values: ints decimal, chars/strings hex ("-" = empty), floats decimal text.
#include <precomp.hpp>
#include <fix8/f8includes.hpp>
#include <fix8/f8types.hpp>
#include "utest_types.hpp"
#include "utest_router.hpp"
#include "utest_classes.hpp"
#include "fix44_types.hpp"
#include "fix44_router.hpp"
#include "fix44_classes.hpp"
#include "pj.hpp"
#include <set>
#include <memory>

using namespace FIX8;

// ---- live array accounting (informational: arrays the sorted set allocated and has not released) ----
static bool g_track = false;
static std::set<void *> *g_live = nullptr;
static void *tab_alloc(size_t n)
{
	void *p(malloc(n ? n : 1));
	if (!p) throw std::bad_alloc();
	if (g_track && g_live) { g_track = false; g_live->insert(p); g_track = true; }
	return p;
}
static void tab_free(void *p)
{
	if (p && g_live && !g_live->empty()) { const bool t(g_track); g_track = false; g_live->erase(p); g_track = t; }
	free(p);
}
void *operator new[](size_t n) { return tab_alloc(n); }
void operator delete[](void *p) noexcept { tab_free(p); }
void operator delete[](void *p, size_t) noexcept { tab_free(p); }

// ---------------------------------------------------------------------------------------------
static const F8MetaCntx& cx(const std::string& s) { return s == "fix44" ? FIX44::ctx() : UTEST::ctx(); }

/// element of the general presorted_set under test: key + payload (memcpy-able, constructible from a key)
struct Elem
{
	unsigned short _k;
	int _p;
	Elem(unsigned short k = 0, int p = -1) : _k(k), _p(p) {}
	struct Compare { bool operator()(const Elem& a, const Elem& b) const { return a._k < b._k; } };
};
using GenSet = presorted_set<unsigned short, Elem, Elem::Compare>;
using FtSet = presorted_set<unsigned short, FieldTrait, FieldTrait::Compare>;

template<typename T> struct Acc;
template<> struct Acc<Elem>
{
	static Elem make(unsigned short k, int p) { return Elem(k, p); }
	static int key(const Elem& e) { return e._k; }
	static int pay(const Elem& e) { return e._p; }
};
template<> struct Acc<FieldTrait>
{
	static FieldTrait make(unsigned short k, int p) { return FieldTrait(k, FieldTrait::ft_int, static_cast<unsigned short>(p)); }
	static int key(const FieldTrait& e) { return e._fnum; }
	static int pay(const FieldTrait& e) { return e._pos; }
};

struct SetBase
{
	virtual ~SetBase() {}
	virtual void ins(unsigned short k, int p) = 0;
	virtual void find(unsigned short k) = 0;
	virtual void clear() = 0;
};

template<typename S, typename T>
struct SetOf : SetBase
{
	std::unique_ptr<S> _s;
	SetOf(size_t reserve, const std::vector<T>& init)
	{
		if (init.empty())
			_s.reset(new S(static_cast<size_t>(0), reserve));
		else
			_s.reset(new S(init.data(), init.size(), reserve));
	}
	std::string contents() const
	{
		std::string s("[");
		const S& cs(*_s);
		for (size_t i(0); i < cs.size(); ++i)
		{
			if (i) s += ",";
			s += "[" + std::to_string(Acc<T>::key(*cs.at(i))) + "," + std::to_string(Acc<T>::pay(*cs.at(i))) + "]";
		}
		return s + "]";
	}
	/// offset of an iterator inside the current array; -1 if it does not point into [begin, end]
	long off(const T *it) const
	{
		const T *b(_s->begin()), *e(_s->end());
		if (!b)
			return it == b ? 0 : -1;
		const uintptr_t ib(reinterpret_cast<uintptr_t>(b)), ie(reinterpret_cast<uintptr_t>(e)), ii(reinterpret_cast<uintptr_t>(it));
		return ii >= ib && ii <= ie && (ii - ib) % sizeof(T) == 0 ? static_cast<long>((ii - ib) / sizeof(T)) : -1;
	}
	void tail(pj::Ev& ev, size_t sz0, size_t cap0, const void *b0)
	{
		ev.i("sz0", sz0).i("cap0", cap0).i("sz", _s->size()).i("cap", _s->rsize()).b("moved", b0 != _s->begin())
			.raw("contents", contents()).i("live", g_live ? g_live->size() : 0).emit();
	}
	void ins(unsigned short k, int p) override
	{
		const size_t sz0(_s->size()), cap0(_s->rsize());
		const void *b0(_s->begin());
		const T what(Acc<T>::make(k, p));
		typename S::result r(_s->insert(&what));
		pj::Ev ev("Ins");
		ev.i("k", k).i("p", p).b("ok", r.second).i("pos", off(r.first)).b("isend", r.first == _s->end());
		tail(ev, sz0, cap0, b0);
	}
	void find(unsigned short k) override
	{
		const size_t sz0(_s->size()), cap0(_s->rsize());
		const void *b0(_s->begin());
		bool answer(false);
		T *w(_s->find(k, answer));                    // element or the location where it would be inserted
		const T *c(static_cast<const S&>(*_s).find(k));   // element or end()
		T *m(_s->find(k));
		pj::Ev ev("Find");
		ev.i("k", k).b("found", answer).i("pos", off(w)).i("cpos", off(c)).i("mpos", off(m));
		tail(ev, sz0, cap0, b0);
	}
	void clear() override
	{
		const size_t sz0(_s->size()), cap0(_s->rsize());
		const void *b0(_s->begin());
		_s->clear();
		pj::Ev ev("Clear");
		tail(ev, sz0, cap0, b0);
	}
};

// ---- realms -----------------------------------------------------------------------------------
struct RealmSel
{
	const RealmBase *rlm = nullptr;
	char t = 'i';
	unsigned short fnum = 0;             // field used for the printer path
	const F8MetaCntx *ctx = nullptr;
	bool synth = false;
	// storage of a synthetic realm
	std::vector<int> iv; std::vector<char> cv; std::vector<fp_type> fv; std::vector<f8String> sv;
	std::vector<std::string> dstore; std::vector<const char *> dptr;
	std::unique_ptr<RealmBase> own;
	std::unique_ptr<Message> msg;        // the message the probed field is put into (created on first use)
	// every other probe re-uses the field object of the previous probe and only changes its value (as the decoder
	// and applications do with set_from_raw / operator=): a lookup must describe the value the field holds *now*
	std::unique_ptr<BaseField> kept;
	unsigned nprobe = 0;
};

static bool reuse_field(BaseField *bf, char t, const std::string& text)
{
	if (text.empty())
		return false;
	const FieldTrait::FieldType ut(bf->get_underlying_type());
	switch (t)      // fix8's own punning between same-layout Field<T, tag> instantiations; only where the layout really is that one
	{
	case 'i': if (ut != FieldTrait::ft_int) return false; static_cast<Field<int, 0> *>(bf)->set_from_raw(text); return true;
	case 'c': return false;    // Boolean fields share the char realm type but hold a bool: no re-use for chars
	case 'f': if (ut != FieldTrait::ft_float) return false; static_cast<Field<fp_type, 0> *>(bf)->set_from_raw(text); return true;
	default:
		if (ut != FieldTrait::ft_string && ut != FieldTrait::ft_data)   // Field<f8String> reports ft_data
			return false;
		static_cast<Field<f8String, 0> *>(bf)->set_from_raw(text);
		return true;
	}
}

static std::string fmt_double(double d)
{
	char b[64];
	snprintf(b, sizeof b, "%.17g", d);
	return b;
}

/// value of the realm entry at idx, rendered like a probe value (ints decimal, chars/strings hex, floats %.17g)
static std::string realm_val(const RealmSel& r, int idx)
{
	switch (r.t)
	{
	case 'i': return std::to_string(r.rlm->get_rlm_val<int>(idx));
	case 'c': return pj::hex(std::string(1, r.rlm->get_rlm_val<char>(idx)));
	case 'f': return fmt_double(r.rlm->get_rlm_val<fp_type>(idx));
	default: return pj::hex(r.rlm->get_rlm_val<f8String>(idx));
	}
}

/// what follows "): " in the printer's line: either the value alone or "<description> (<value>)"
static void split_printed(const std::string& line, const std::string& vtext, pj::Ev& ev, const char *khas, const char *kdesc, const char *kshape)
{
	const size_t at(line.find("): "));
	const std::string rest(at == std::string::npos ? line : line.substr(at + 3));
	const std::string sfx(" (" + vtext + ")");
	if (rest == vtext)
		ev.b(khas, false).s(kdesc, "").b(kshape, true);
	else if (rest.size() >= sfx.size() && rest.compare(rest.size() - sfx.size(), sfx.size(), sfx) == 0)
		ev.b(khas, true).s(kdesc, rest.substr(0, rest.size() - sfx.size())).b(kshape, true);
	else
		ev.b(khas, false).s(kdesc, rest).b(kshape, false);
}

static void realm_probe(RealmSel& r, const std::string& arg, bool withfield)
{
	pj::Ev ev("Realm");
	ev.s("v", arg);
	int idx(-1);
	bool valid(false);
	std::string text;              // FIX text of the value, for the field constructed "from the wire"
	switch (r.t)
	{
	case 'i': { const int v(atoi(arg.c_str())); idx = r.rlm->get_rlm_idx<int>(v); valid = r.rlm->is_valid<int>(v); text = arg; break; }
	case 'c': { const std::string s(pj::unhex(arg)); const char v(s.empty() ? 0 : s[0]); idx = r.rlm->get_rlm_idx<char>(v);
		valid = r.rlm->is_valid<char>(v); text = s; break; }
	case 'f': { const fp_type v(strtod(arg.c_str(), nullptr)); idx = r.rlm->get_rlm_idx<fp_type>(v); valid = r.rlm->is_valid<fp_type>(v); text = arg; break; }
	default: { const f8String v(pj::unhex(arg)); idx = r.rlm->get_rlm_idx<f8String>(v); valid = r.rlm->is_valid<f8String>(v); text = v; break; }
	}
	const bool inside(idx >= 0 && idx < r.rlm->_sz);
	ev.i("idx", idx).b("valid", valid).i("sz", r.rlm->_sz).b("inside", inside)
		.s("rv", inside ? realm_val(r, idx) : "").s("desc", inside ? std::string(r.rlm->_descriptions[idx]) : "");

	// the printer path: a field holding the value, inside a message, printed by MessageBase::print_field / print
	BaseField *bf(nullptr);
	if (!withfield)
		;
	else if (r.kept && (++r.nprobe & 1) && reuse_field(r.kept.get(), r.t, text))
		bf = r.kept.release();
	else if (r.synth)
	{
		switch (r.t)
		{
		case 'i': bf = new UTEST::EncryptMethod(atoi(arg.c_str()), r.rlm); break;
		case 'c': { const std::string s(pj::unhex(arg)); bf = new UTEST::Side(s.empty() ? char(0) : s[0], r.rlm); break; }
		case 'f': bf = new UTEST::Price(strtod(arg.c_str(), nullptr), r.rlm); break;
		default: bf = new UTEST::Text(pj::unhex(arg), r.rlm); break;
		}
	}
	else
	{
		const BaseEntry *be(r.ctx->find_be(r.fnum));
		bf = be ? be->_create._do(text.c_str(), be->_rlm, -1) : nullptr;
	}
	if (!bf)
	{
		ev.b("field", false).emit();
		return;
	}
	std::ostringstream vs;
	vs << *bf;
	const std::string vtext(vs.str());
	ev.b("field", true).i("fidx", bf->get_rlm_idx()).s("pv", r.t == 'i' || r.t == 'f' ? vtext : pj::hex(vtext));
	if (!r.msg)
		r.msg.reset(r.ctx->create_msg("0"));
	Message *msg(r.msg.get());
	msg->add_field_decoder(r.fnum, 1, bf);
	std::ostringstream o1, o2;
	msg->print_field(r.fnum, o1);
	msg->MessageBase::print(o2, 0);
	split_printed(o1.str(), vtext, ev, "phas", "pdesc", "pshape");
	// print(): first line is the message name, second the field
	std::string l2(o2.str());
	const size_t nl(l2.find('\n'));
	l2 = nl == std::string::npos ? std::string() : l2.substr(nl + 1);
	if (!l2.empty() && l2.back() == '\n')      // the endl that ends the field's line
		l2.pop_back();
	split_printed(l2, vtext, ev, "qhas", "qdesc", "qshape");
	r.kept.reset(msg->remove(r.fnum));
	ev.emit();
}

// ---- tables -----------------------------------------------------------------------------------
static std::string be_json(unsigned key, const BaseEntry *be)
{
	std::string s("[");
	s += std::to_string(key) + "," + std::to_string(be->_fnum) + ",\"" + pj::esc(be->_name ? be->_name : "") + "\","
		+ std::to_string(be->_rlm ? be->_rlm->_sz : 0) + "]";
	return s;
}

/// The three accessors of GeneratedTable (find_ptr, find_pair_ptr, find_ref) looked up with the same key.
/// Returns find_ptr's answer if all three agree, otherwise a pointer to a poison entry so that the
/// disagreement shows up as a hit with an impossible field number.
alignas(16) static char g_poison_store[256];
#define g_poison_be (*reinterpret_cast<const BaseEntry *>(g_poison_store))
template<typename Tab, typename Key, typename Val>
static const Val *agree(const Tab& tb, const Key& key, const Val *poison)
{
	const Val *a(tb.find_ptr(key));
	auto pr(tb.find_pair_ptr(key));
	const Val *b(pr ? &pr->_value : nullptr);
	const Val *r(nullptr);
	try { r = &tb.find_ref(key); } catch (f8Exception&) { r = nullptr; }
	return (a == b && a == r) ? a : poison;
}

static void scan(const F8MetaCntx& c, const std::string& tab, unsigned lo, unsigned hi)
{
	std::string hits("[");
	unsigned n(0);
	for (unsigned k(lo); k <= hi; ++k)
	{
		const BaseEntry *be(tab == "flu" ? c.find_be(static_cast<unsigned short>(k)) : agree(c._be, k, &g_poison_be));
		if (be)
		{
			if (n++) hits += ",";
			hits += be == &g_poison_be ? "[" + std::to_string(k) + ",65535,\"ACCESSORS_DISAGREE\",0]" : be_json(k, be);
		}
	}
	hits += "]";
	pj::Ev("Scan").s("tab", tab).i("lo", lo).i("hi", hi).i("n", n).raw("hits", hits).emit();
}

/// key of the message-table pair an entry pointer belongs to ("" if it is not inside the table)
static std::string bme_key_of(const F8MetaCntx& c, const BaseMsgEntry *e, bool& inside)
{
	inside = false;
	for (MsgTable::const_iterator p(c._bme.begin()); p != c._bme.end(); ++p)
		if (&p->_value == e) { inside = true; return p->_key; }
	return std::string();
}

static void traits(const F8MetaCntx& c, const std::vector<std::string>& t)
{
	const std::string which(t[2] == "header" || t[2] == "trailer" ? t[2] : pj::unhex(t[2]));
	std::unique_ptr<Message> msg;
	std::unique_ptr<MessageBase> part;
	const MessageBase *mb(nullptr);
	if (which == "header") { part.reset(c._mk_hdr(true)); mb = part.get(); }
	else if (which == "trailer") { part.reset(c._mk_trl(true)); mb = part.get(); }
	else { msg.reset(c.create_msg(which.c_str())); mb = msg.get(); }
	if (!mb)
	{
		pj::Ev("Traits").s("msg", which).b("made", false).emit();
		return;
	}
	GroupBase *parent(nullptr);
	MessageBase *cur(const_cast<MessageBase *>(mb));
	for (size_t i(3); i < t.size(); ++i)
	{
		const unsigned short g(static_cast<unsigned short>(strtoul(t[i].c_str(), 0, 10)));
		GroupBase *gb(cur->find_add_group(g, parent));
		if (!gb)
		{
			pj::Ev("Traits").s("msg", which).b("made", false).i("nogroup", g).emit();
			return;
		}
		MessageBase *el(gb->create_group(true));
		gb->add(el);
		parent = gb;
		cur = el;
	}
	const FieldTraits& fp(cur->get_fp());
	std::string hits("[");
	unsigned n(0);
	for (unsigned k(0); k <= 65535; ++k)
	{
		const unsigned short f(static_cast<unsigned short>(k));
		const bool has(fp.has(f)), mand(fp.get(f, FieldTrait::mandatory)), grp(fp.is_group(f)), posbit(fp.get(f, FieldTrait::position));
		const unsigned pos(fp.getPos(f));
		Presence::const_iterator itr(fp.get_presence().end());
		const bool has2(fp.has(f, itr));
		if (has || mand || grp || posbit || pos || has2)
		{
			if (n++) hits += ",";
			hits += "[" + std::to_string(k) + "," + std::to_string(has && has2 ? 1 : has || has2 ? 2 : 0) + "," + std::to_string(mand) + ","
				+ std::to_string(pos) + "," + std::to_string(grp) + "]";
		}
	}
	hits += "]";
	pj::Ev("Traits").s("msg", which).b("made", true).i("size", fp.size()).i("n", n).raw("hits", hits).emit();
}

// ---------------------------------------------------------------------------------------------
int main(int, char **)
{
	pj::install_terminate();
	g_live = new std::set<void *>;
	RealmSel rs;
	std::unique_ptr<SetBase> set;
	std::string line;
	while (std::getline(std::cin, line))
	{
		auto t(pj::split(line));
		if (t.empty()) continue;
		const std::string& c(t[0]);
		try
		{
			if (c == "reset")
			{
				set.reset();
				g_track = false;
				g_live->clear();
				pj::Ev("Reset").raw("cfg", line.size() > 6 ? line.substr(6) : "{}").emit();
			}
			else if (c == "realm")
			{
				rs = RealmSel();
				rs.ctx = &cx(t[1]);
				rs.fnum = static_cast<unsigned short>(strtoul(t[2].c_str(), 0, 10));
				rs.t = t[3][0];
				const BaseEntry *be(rs.ctx->find_be(rs.fnum));
				rs.rlm = be ? be->_rlm : nullptr;
				pj::Ev("RealmSel").i("fnum", rs.fnum).b("field", be != nullptr).b("has", rs.rlm != nullptr)
					.i("sz", rs.rlm ? rs.rlm->_sz : 0).b("isset", rs.rlm && rs.rlm->_dtype == RealmBase::dt_set).emit();
			}
			else if (c == "synth")
			{
				rs = RealmSel();
				rs.ctx = &UTEST::ctx();
				rs.synth = true;
				rs.t = t[1][0];
				const bool isset(t[2] == "set");
				const void *rng(nullptr);
				FieldTrait::FieldType ft(FieldTrait::ft_int);
				for (size_t i(3); i < t.size(); ++i)
				{
					switch (rs.t)
					{
					case 'i': rs.iv.push_back(atoi(t[i].c_str())); break;
					case 'c': rs.cv.push_back(pj::unhex(t[i])[0]); break;
					case 'f': rs.fv.push_back(strtod(t[i].c_str(), nullptr)); break;
					default: rs.sv.push_back(pj::unhex(t[i])); break;
					}
					rs.dstore.push_back("D" + std::to_string(i - 3));
				}
				for (const auto& d : rs.dstore)
					rs.dptr.push_back(d.c_str());
				switch (rs.t)
				{
				case 'i': rng = rs.iv.data(); ft = FieldTrait::ft_int; rs.fnum = 98; break;
				case 'c': rng = rs.cv.data(); ft = FieldTrait::ft_char; rs.fnum = 54; break;
				case 'f': rng = rs.fv.data(); ft = FieldTrait::ft_Price; rs.fnum = 44; break;
				default: rng = rs.sv.data(); ft = FieldTrait::ft_string; rs.fnum = 58; break;
				}
				rs.own.reset(new RealmBase(rng, isset ? RealmBase::dt_set : RealmBase::dt_range, ft, static_cast<int>(t.size() - 3), rs.dptr.data()));
				rs.rlm = rs.own.get();
				pj::Ev("RealmSel").i("fnum", rs.fnum).b("field", true).b("has", true).i("sz", rs.rlm->_sz).b("isset", isset).emit();
			}
			else if (c == "rp")
			{
				if (!rs.rlm) { pj::Ev("Error").s("what", "no realm selected").emit(); continue; }
				realm_probe(rs, t.size() > 1 ? t[1] : "-", !(t.size() > 2 && t[2] == "nofield"));
			}
			else if (c == "scan")
				scan(cx(t[1]), t[2], strtoul(t[3].c_str(), 0, 10), strtoul(t[4].c_str(), 0, 10));
			else if (c == "lookbe")
			{
				const unsigned hi(strtoul(t[2].c_str(), 0, 10)), lo(strtoul(t[3].c_str(), 0, 10)), key(hi * 65536u + lo);
				const BaseEntry *be(agree(cx(t[1])._be, key, &g_poison_be));
				pj::Ev("Lookup").s("tab", "be").i("hi", hi).i("lo", lo).b("hit", be != nullptr).i("fnum", be == &g_poison_be ? 65535 : be ? be->_fnum : 0)
					.s("ent", be == &g_poison_be ? "ACCESSORS_DISAGREE" : be && be->_name ? be->_name : "").emit();
			}
			else if (c == "lookbme")
			{
				const F8MetaCntx& m(cx(t[1]));
				const std::string key(pj::unhex(t[2]));
				const BaseMsgEntry *a(m.find_bme(key.c_str())), *b(m._bme.find_ptr(key.c_str()));
				{
					// find_pair_ptr / find_ref must agree with find_ptr; a disagreement is reported as "not the same entry"
					auto pr(m._bme.find_pair_ptr(key.c_str()));
					const BaseMsgEntry *c2(pr ? &pr->_value : nullptr), *c3(nullptr);
					try { c3 = &m._bme.find_ref(key.c_str()); } catch (f8Exception&) { c3 = nullptr; }
					if (c2 != b || c3 != b) b = reinterpret_cast<const BaseMsgEntry *>(&g_poison_be);
				}
				bool inside(false);
				const std::string pk(a ? bme_key_of(m, a, inside) : std::string());
				pj::Ev("Lookup").s("tab", "bme").s("key", key).b("hit", a != nullptr).b("same", a == b).s("ent", a && a->_name ? a->_name : "")
					.s("pk", pk).b("inside", inside).emit();
			}
			else if (c == "rbme")
			{
				const F8MetaCntx& m(cx(t[1]));
				const std::string key(pj::unhex(t[2]));
				const BaseMsgEntry *a(m.reverse_find_bme(key.c_str()));
				bool inside(false);
				const std::string pk(a ? bme_key_of(m, a, inside) : std::string());
				pj::Ev("Lookup").s("tab", "rbme").s("key", key).b("hit", a != nullptr).b("same", true).s("ent", a && a->_name ? a->_name : "")
					.s("pk", pk).b("inside", inside).emit();
			}
			else if (c == "rbe")
			{
				const F8MetaCntx& m(cx(t[1]));
				const std::string key(pj::unhex(t[2]));
				const BaseEntry *a(m.reverse_find_be(key.c_str()));
				const unsigned fn(m.reverse_find_fnum(key.c_str()));
				pj::Ev("Lookup").s("tab", "rbe").s("key", key).b("hit", a != nullptr).i("fnum", a ? a->_fnum : 0).i("fnum2", fn)
					.s("ent", a && a->_name ? a->_name : "").b("same", a == (a ? m.find_be(a->_fnum) : nullptr)).emit();
			}
			else if (c == "traits")
				traits(cx(t[1]), t);
			else if (c == "set")
			{
				set.reset();
				g_live->clear();
				g_track = true;
				const size_t reserve(strtoul(t[2].c_str(), 0, 10));
				std::vector<std::pair<unsigned short, int>> init;
				for (size_t i(3); i < t.size(); ++i)
				{
					const size_t colon(t[i].find(':'));
					init.push_back({static_cast<unsigned short>(strtoul(t[i].substr(0, colon).c_str(), 0, 10)), atoi(t[i].substr(colon + 1).c_str())});
				}
				if (t[1] == "ft")
				{
					std::vector<FieldTrait> v;
					for (auto& kp : init) v.push_back(Acc<FieldTrait>::make(kp.first, kp.second));
					set.reset(new SetOf<FtSet, FieldTrait>(reserve, v));
				}
				else
				{
					std::vector<Elem> v;
					for (auto& kp : init) v.push_back(Elem(kp.first, kp.second));
					set.reset(new SetOf<GenSet, Elem>(reserve, v));
				}
				pj::Ev("SetNew").s("variant", t[1]).i("reserve", reserve).i("n", init.size()).emit();
			}
			else if (c == "ins" && set) set->ins(static_cast<unsigned short>(strtoul(t[1].c_str(), 0, 10)), atoi(t[2].c_str()));
			else if (c == "find" && set) set->find(static_cast<unsigned short>(strtoul(t[1].c_str(), 0, 10)));
			else if (c == "clear" && set) set->clear();
			else if (c == "quit") break;
			else pj::Ev("Error").s("what", "unknown command " + c).emit();
		}
		catch (const std::exception& e)
		{
			pj::Ev("Exception").s("cmd", c).s("what", e.what()).emit();
		}
	}
	g_track = false;
	set.reset();
	fflush(stdout);
	_exit(0);
}
