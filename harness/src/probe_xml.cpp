// probe_xml: parses byte strings with the real XmlElement::Factory (runtime/xml.cpp) and prints the tree
// it built, and runs XmlElement::find on it.  Extensions (${ENV}, !{cmd}, /* */ in attribute lists) are
// switched off through the library's own XmlElement::noextensions flag.  No oracle here.
//
// commands
//   reset <json>                  -> Reset{cfg}
//   parse <hex>                   -> Parse{len, out:"tree"|"exc"|"null", xe (exception is an XMLError), what, kind, n, tree}
//                                    tree = {tag:[codes], attrs:[[name codes, value codes]..] (map order),
//                                            ht:bool, text:[codes], hd:bool, decl:[codes], kids:[tree..] (file order)}
//   parseq <hex>                  -> the same without the tree (arbitrary-byte runs): n = number of elements
//   find <at> <hexpath> [<hexattr> <hexval>]
//                                 -> Find{at, path, hits:[preorder ids], first, ret}
//                                    on the element with preorder id <at> of the last parsed tree:
//                                    find(path, set[, attr, val]) (all matches), find(path[, attr, val]) (first match)
//   quit
// A parse that does not return within 20 s prints {"e":"Timeout"} and exits 95.
#include <precomp.hpp>
#include <fix8/f8includes.hpp>
#include "pj.hpp"
#include <signal.h>

using namespace FIX8;

static std::string codes(const std::string& s)
{
	std::string o("[");
	bool first(true);
	for (unsigned char c : s) { if (!first) o += ","; first = false; o += std::to_string(static_cast<int>(c)); }
	return o + "]";
}

static int g_count;
static std::vector<const XmlElement *> g_pre;     // preorder id -> element

static std::string tree_json(const XmlElement *e, bool emit)
{
	++g_count;
	g_pre.push_back(e);
	std::string o;
	if (emit)
	{
		o = "{\"tag\":" + codes(e->GetTag()) + ",\"attrs\":[";
		bool first(true);
		for (XmlElement::XmlAttrs::const_iterator it(e->abegin()); it != e->aend(); ++it)
		{
			if (!first) o += ",";
			first = false;
			o += "[" + codes(it->first) + "," + codes(it->second) + "]";
		}
		o += "],\"ht\":";
		o += e->GetVal() ? "true" : "false";
		o += ",\"text\":" + codes(e->GetVal() ? *e->GetVal() : std::string());
		o += ",\"hd\":";
		o += e->GetDecl() ? "true" : "false";
		o += ",\"decl\":" + codes(e->GetDecl() ? *e->GetDecl() : std::string());
		o += ",\"kids\":[";
	}
	bool first(true);
	for (XmlElement::XmlSet::const_iterator it(e->begin()); it != e->end(); ++it)
	{
		const std::string k = tree_json(*it, emit);
		if (emit)
		{
			if (!first) o += ",";
			first = false;
			o += k;
		}
	}
	if (emit)
		o += "]}";
	return o;
}

static std::string kind_of(const std::string& what)
{
	if (what.find("unmatched tag") != std::string::npos) return "unmatched_tag";
	if (what.find("illegal character") != std::string::npos) return "illegal_char";
	if (what.find("already defined") != std::string::npos) return "attr_redefined";
	if (what.find("maximum depth") != std::string::npos) return "max_depth";
	if (what.find("include") != std::string::npos) return "include";
	return "other";
}

static void on_alarm(int)
{
	static const char msg[] = "{\"e\":\"Timeout\"}\n";
	ssize_t r = write(1, msg, sizeof msg - 1);
	(void)r;
	_exit(95);
}

int main(int argc, char **argv)
{
	pj::install_terminate();
	signal(SIGALRM, on_alarm);
	XmlElement::XmlFlags fl;
	fl.set(XmlElement::noextensions);
	XmlElement::set_flags(fl);
	XmlElement *root = nullptr;
	std::string line;
	while (std::getline(std::cin, line))
	{
		auto t = pj::split(line);
		if (t.empty()) continue;
		const std::string& c = t[0];
		if (c == "reset")
			pj::Ev("Reset").raw("cfg", line.substr(6)).emit();
		else if ((c == "parse" || c == "parseq") && t.size() == 2)
		{
			delete root; root = nullptr;
			g_pre.clear();
			const std::string in = pj::unhex(t[1]);
			const bool emit = c == "parse";
			std::string out, what, kind;
			bool xe = false;
			alarm(20);
			try
			{
				std::istringstream is(in);
				root = XmlElement::Factory(is);
				out = root ? "tree" : "null";
			}
			catch (XMLError& e) { out = "exc"; xe = true; what = e.what(); kind = kind_of(what); }
			catch (f8Exception& e) { out = "exc"; what = e.what(); kind = "f8:other"; }
			catch (std::exception& e) { out = "exc"; what = e.what(); kind = "std"; }
			alarm(0);
			g_count = 0;
			const std::string tj = root ? tree_json(root, emit) : std::string("{}");
			pj::Ev ev("Parse");
			ev.i("len", in.size()).s("out", out).b("xe", xe).s("kind", kind).s("what", what.substr(0, 120)).i("n", g_count);
			if (emit)
				ev.raw("tree", tj);
			ev.emit();
		}
		else if (c == "find" && (t.size() == 3 || t.size() == 5))
		{
			const size_t at = strtoul(t[1].c_str(), 0, 10);
			const std::string path = pj::unhex(t[2]);
			if (!root || at >= g_pre.size())     // the parsed tree has no such element (it is not the expected tree)
			{
				pj::Ev("Find").i("at", at).raw("path", codes(path)).b("filt", t.size() == 5).raw("an", "[]").raw("av", "[]")
					.raw("hits", "[]").i("first", -1).i("ret", -1).b("noel", true).emit();
				continue;
			}
			std::string an, av;
			const bool filt = t.size() == 5;
			if (filt) { an = pj::unhex(t[3]); av = pj::unhex(t[4]); }
			XmlElement::XmlSet eset;
			const int ret = g_pre[at]->find(path, eset, filt ? &an : nullptr, filt ? &av : nullptr);
			const XmlElement *f = g_pre[at]->find(path, filt ? &an : nullptr, filt ? &av : nullptr);
			auto id_of = [&](const XmlElement *p) -> long {
				for (size_t i = 0; i < g_pre.size(); ++i) if (g_pre[i] == p) return static_cast<long>(i);
				return -2;
			};
			std::vector<long> hits;
			for (const XmlElement *p : eset) hits.push_back(id_of(p));
			pj::Ev("Find").i("at", at).raw("path", codes(path)).b("filt", filt).raw("an", codes(an)).raw("av", codes(av))
				.ints("hits", hits).i("first", f ? id_of(f) : -1).i("ret", ret).b("noel", false).emit();
		}
		else if (c == "quit") break;
		else pj::Ev("Error").s("what", "bad command " + line.substr(0, 60)).emit();
	}
	fflush(stdout);
	_exit(0);
}
