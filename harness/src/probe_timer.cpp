// probe_timer: runs the real FIX8::Timer<T> (include/fix8/timer.hpp, its own thread) against a
// virtual clock.  This executable defines clock_gettime itself: CLOCK_REALTIME (what Tickval reads
// through std::chrono) returns a harness-controlled instant, every other clock id is forwarded to
// libc, so due times follow the virtual clock while hypersleep (CLOCK_MONOTONIC) stays real.
// clock_nanosleep is wrapped only to count the timer thread's sleeps: the timer thread sleeps only
// when nothing is due, so "two sleeps begun after an advance" means everything due has run.
// The timer thread is recognised by interposing pthread_create around Timer::start() (other threads
// of the process - fix8's global logger polls every 200 us - sleep too and must not be counted).
//
// Commands:  new <granularity ms> [exact] | sched <id> <delay ms> <repeat 0/1> <q> [slow ms] | adv <ms> <wait 0/1>
//            | clear | end | quit          (q: the callback returns true q-1 times, then false;
//            slow: the callback "takes" that long - it moves the virtual clock on before it returns;
//            exact: the driver promises to move the clock only while the timer thread is settled, so the
//            clock read inside a callback (now2) is the instant the callback began)
// Events:    Reset  SchedCall{id,now,delay,rep} SchedRet{id,ret}  Fire{id,now,now2,ret,n}
//            Advance{now}  ClearCall{now} ClearRet{n}  Settle{ok}  End
// `now` of Fire is the instant the timer thread last read from the clock (the value its decision was
// based on); now2 is the clock re-read inside the callback.  All instants in ms since the base.
// No oracle here.
#include <precomp.hpp>
#include <fix8/f8includes.hpp>
#include "pj.hpp"
#include <atomic>
#include <dlfcn.h>
#include <mutex>
#include <pthread.h>
#include <time.h>

using namespace FIX8;

extern "C" int __clock_gettime(clockid_t, struct timespec *);

namespace {
const int64_t BASE_NS = 1700000000LL * 1000000000LL;
std::atomic<int64_t> g_now_ns{BASE_NS};
std::atomic<bool> g_virtual{false};
std::atomic<long> g_sleeps{0};
pthread_t g_main;
thread_local int64_t tl_last_ns = BASE_NS;   // last CLOCK_REALTIME value handed to this thread
thread_local bool tl_is_timer = false;       // this thread is the Timer<T> thread of the current execution
std::atomic<bool> g_capture{false};          // the next thread created is the timer thread
std::mutex g_out;

long ms_of(int64_t ns) { return static_cast<long>((ns - BASE_NS) / 1000000); }
void emit(pj::Ev& e) { std::lock_guard<std::mutex> g(g_out); e.emit(); }
}

extern "C" int clock_gettime(clockid_t id, struct timespec *ts)
{
	if (id == CLOCK_REALTIME && g_virtual.load())
	{
		const int64_t ns = g_now_ns.load();
		tl_last_ns = ns;
		ts->tv_sec = ns / 1000000000LL;
		ts->tv_nsec = ns % 1000000000LL;
		return 0;
	}
	return __clock_gettime(id, ts);
}

extern "C" int clock_nanosleep(clockid_t id, int flags, const struct timespec *req, struct timespec *rem)
{
	using fn = int (*)(clockid_t, int, const struct timespec *, struct timespec *);
	static fn real = reinterpret_cast<fn>(dlsym(RTLD_NEXT, "clock_nanosleep"));
	if (g_virtual.load() && tl_is_timer)
		g_sleeps.fetch_add(1);
	return real(id, flags, req, rem);
}

namespace {
struct Tramp { void *(*fn)(void *); void *arg; };
void *tramp(void *p)
{
	Tramp t = *static_cast<Tramp *>(p);
	delete static_cast<Tramp *>(p);
	tl_is_timer = true;
	return t.fn(t.arg);
}
}

extern "C" int pthread_create(pthread_t *t, const pthread_attr_t *a, void *(*fn)(void *), void *arg)
{
	using cfn = int (*)(pthread_t *, const pthread_attr_t *, void *(*)(void *), void *);
	static cfn real = reinterpret_cast<cfn>(dlsym(RTLD_NEXT, "pthread_create"));
	if (g_capture.exchange(false))
		return real(t, a, tramp, new Tramp{fn, arg});
	return real(t, a, fn, arg);
}

namespace {

const int MAXID = 8;

struct Mon
{
	int quota[MAXID + 1] = {};
	int runs[MAXID + 1] = {};
	int slow[MAXID + 1] = {};

	template<int I> bool cb()
	{
		const int n = ++runs[I];
		const bool ret = n < quota[I];
		pj::Ev e("Fire");
		e.i("id", I).i("now", ms_of(tl_last_ns)).i("now2", ms_of(g_now_ns.load())).b("ret", ret).i("n", n);
		emit(e);
		if (slow[I] > 0)
			g_now_ns.fetch_add(static_cast<int64_t>(slow[I]) * 1000000LL);
		return ret;
	}
};

typedef bool (Mon::*cbfn)();
const cbfn CB[MAXID + 1] = { &Mon::cb<0>, &Mon::cb<1>, &Mon::cb<2>, &Mon::cb<3>, &Mon::cb<4>, &Mon::cb<5>, &Mon::cb<6>, &Mon::cb<7>, &Mon::cb<8> };

bool settle()
{
	const long s0 = g_sleeps.load();
	for (int i = 0; i < 20000; ++i)
	{
		if (g_sleeps.load() >= s0 + 2)
			return true;
		struct timespec ts = {0, 100000};
		nanosleep(&ts, nullptr);
	}
	return false;
}

}

int main()
{
	pj::install_terminate();
	g_main = pthread_self();
	// The timer thread reports its termination through fix8's global logger (glout_info).  Logging is
	// switched off here: it is not the subject of C31, and an element allocated by a short-lived thread
	// and released by the logger thread trips a thread-exit use-after-free in the bundled FastFlow
	// allocator (ff/allocator.hpp FFAkeyDestructorHandler vs ~ff_allocator) about once in a few thousand
	// timer shutdowns, which would only add noise to this check.
	GlobalLogger::set_levels(Logger::Levels());
	g_virtual.store(true);
	std::unique_ptr<Mon> mon;
	std::unique_ptr<Timer<Mon>> timer;
	std::string line;
	auto finish = [&] {
		if (timer)
		{
			timer->stop();
			timer->join();
			timer.reset();
			mon.reset();
		}
	};
	while (std::getline(std::cin, line))
	{
		const std::vector<std::string> a = pj::split(line);
		if (a.empty()) continue;
		if (a[0] == "quit") break;
		else if (a[0] == "new" && a.size() >= 2)
		{
			finish();
			mon.reset(new Mon);
			timer.reset(new Timer<Mon>(*mon, std::stoi(a[1])));
			pj::Ev e("Reset");
			e.i("gran", std::stoi(a[1])).i("now", ms_of(g_now_ns.load())).b("exact", a.size() >= 3 && a[2] == "exact");
			emit(e);
			g_capture.store(true);
			timer->start();
			if (g_capture.exchange(false))   // the thread was not created through pthread_create: settle() would never see a sleep
			{
				pj::Ev e2("Error");
				e2.s("what", "timer thread not captured");
				emit(e2);
			}
		}
		else if (a[0] == "sched" && a.size() >= 5 && timer)
		{
			const int id = std::stoi(a[1]), delay = std::stoi(a[2]), rep = std::stoi(a[3]), q = std::stoi(a[4]);
			if (id < 1 || id > MAXID) { pj::Ev e("Error"); e.s("what", "id"); emit(e); continue; }
			mon->quota[id] = q;
			mon->slow[id] = a.size() >= 6 ? std::stoi(a[5]) : 0;
			{
				pj::Ev e("SchedCall");
				e.i("id", id).i("now", ms_of(g_now_ns.load())).i("delay", delay).b("rep", rep != 0).i("slow", mon->slow[id]);
				emit(e);
			}
			TimerEvent<Mon> ev(CB[id], rep != 0);
			const bool r = timer->schedule(ev, static_cast<unsigned>(delay));
			pj::Ev e("SchedRet");
			e.i("id", id).b("ret", r).i("read", ms_of(tl_last_ns));
			emit(e);
		}
		else if (a[0] == "adv" && a.size() >= 3 && timer)
		{
			g_now_ns.fetch_add(static_cast<int64_t>(std::stol(a[1])) * 1000000LL);
			{
				pj::Ev e("Advance");
				e.i("now", ms_of(g_now_ns.load()));
				emit(e);
			}
			if (a[2] != "0")
			{
				const bool ok = settle();
				pj::Ev e("Settle");
				e.b("ok", ok);
				emit(e);
			}
		}
		else if (a[0] == "clear" && timer)
		{
			{
				pj::Ev e("ClearCall");
				e.i("now", ms_of(g_now_ns.load()));
				emit(e);
			}
			const size_t n = timer->clear();
			pj::Ev e("ClearRet");
			e.i("n", static_cast<long>(n));
			emit(e);
		}
		else if (a[0] == "end" && timer)
		{
			const bool ok = settle();
			finish();
			pj::Ev e("End");
			e.b("settled", ok);
			emit(e);
		}
		else
		{
			pj::Ev e("Error");
			e.s("what", "bad command " + line);
			emit(e);
		}
	}
	finish();
	return 0;
}
