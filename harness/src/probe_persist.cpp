// probe_persist: executes store operations on the real MemoryPersister / FilePersister and prints
// what they returned.  The write/lseek definitions below are the "syscall seam" of DESIGN.md: the
// file persister is compiled from /repo into this executable, so its raw descriptor calls resolve
// here; after every completed write to one of the store's two files both files are snapshotted,
// so snapshot k *is* the disk after a crash at system call k.
#include <precomp.hpp>
#include <fix8/f8includes.hpp>
#include <fix8/f8types.hpp>
#include "utest_types.hpp"
#include "utest_router.hpp"
#include "utest_classes.hpp"
#include "pj.hpp"
#include <dlfcn.h>
#include <sys/stat.h>
#include <fcntl.h>
#include <fstream>

using namespace FIX8;

// ---------------------------------------------------------------------------------------------
static std::string g_dir, g_snapdir, g_curdir;
static bool g_snap = false;
static long g_k = 0;          // completed system calls on the store's files since "new"
static std::vector<std::string> g_syslog;   // json fragments
static std::string g_idx, g_dat;

static std::string slurp(const std::string& p)
{
	std::ifstream f(p, std::ios::binary);
	std::ostringstream o;
	o << f.rdbuf();
	return o.str();
}
static void spit(const std::string& p, const std::string& s)
{
	std::ofstream f(p, std::ios::binary | std::ios::trunc);
	f.write(s.data(), s.size());
}

static int which_fd(int fd)
{
	char lnk[64], buf[512];
	snprintf(lnk, sizeof lnk, "/proc/self/fd/%d", fd);
	ssize_t n = readlink(lnk, buf, sizeof buf - 1);
	if (n <= 0) return 0;
	buf[n] = 0;
	if (g_idx == buf) return 1;
	if (g_dat == buf) return 2;
	return 0;
}

static std::vector<std::pair<std::string, std::string>> g_snaps;  // per completed syscall: (idx, dat)

static void after_call(const char *call, int which, long long arg, long long ret)
{
	++g_k;
	std::ostringstream o;
	o << "{\"k\":" << g_k << ",\"call\":\"" << call << "\",\"f\":\"" << (which == 1 ? "idx" : "dat")
	  << "\",\"arg\":" << arg << ",\"ret\":" << ret << "}";
	g_syslog.push_back(o.str());
	if (g_snap)
		g_snaps.push_back({slurp(g_idx), slurp(g_dat)});
}

extern "C" ssize_t write(int fd, const void *buf, size_t n)
{
	using fn = ssize_t (*)(int, const void *, size_t);
	static fn real = reinterpret_cast<fn>(dlsym(RTLD_NEXT, "write"));
	const ssize_t r = real(fd, buf, n);
	if (!g_idx.empty() && fd > 2)
	{
		const int w = which_fd(fd);
		if (w) after_call("write", w, static_cast<long long>(n), r);
	}
	return r;
}

extern "C" off_t lseek(int fd, off_t off, int whence)
{
	using fn = off_t (*)(int, off_t, int);
	static fn real = reinterpret_cast<fn>(dlsym(RTLD_NEXT, "lseek"));
	const off_t r = real(fd, off, whence);
	if (!g_idx.empty() && fd > 2)
	{
		const int w = which_fd(fd);
		if (w) after_call(whence == SEEK_END ? "seek_end" : "seek_set", w, off, r);
	}
	return r;
}

// ---------------------------------------------------------------------------------------------
class probe_session : public Session
{
	Poco::Net::SocketAddress _addr;
public:
	probe_session(const F8MetaCntx& ctx) : Session(ctx)
	{
		_connection = new Connection(0, _addr, *this, Connection::cn_initiator, pm_thread, 10, false);
	}
	~probe_session() { _timer.clear(); _timer.stop(); _timer.join(); }
	bool retrans_callback(const SequencePair& with, RetransmissionContext& rctx) override
	{
		_calls.push_back({with.first, with.second});
		_nomore.push_back(rctx._no_more_records);
		return true;
	}
	bool handle_application(const unsigned seqnum, const Message *&msg) override { return true; }
	std::vector<std::pair<unsigned, std::string>> _calls;
	std::vector<bool> _nomore;
};

static std::string syslog_json(size_t from)
{
	std::string s("[");
	for (size_t i = from; i < g_syslog.size(); ++i) { if (i > from) s += ","; s += g_syslog[i]; }
	return s + "]";
}

int main(int argc, char **argv)
{
	pj::install_terminate();
	probe_session *ses = new probe_session(UTEST::ctx());
	Persister *per = nullptr;
	bool isfile = false;
	int gen = 0;
	std::string line;
	while (std::getline(std::cin, line))
	{
		auto t = pj::split(line);
		if (t.empty()) continue;
		const std::string& c = t[0];
		const size_t s0 = g_syslog.size();
		const long k0 = g_k;
		if (c == "reset")
		{
			pj::Ev("Reset").raw("cfg", line.substr(6)).emit();
		}
		else if (c == "new")       // new mem | new file <dir>
		{
			delete per; per = nullptr;
			g_idx.clear(); g_dat.clear(); g_k = 0; g_syslog.clear(); g_snaps.clear();
			isfile = t[1] == "file";
			bool ok = true;
			if (isfile)
			{
				g_dir = t[2];
				mkdir(g_dir.c_str(), 0700);
				char rp[4096];
				std::string full = std::string(realpath(g_dir.c_str(), rp));
				g_dat = full + "/store"; g_idx = g_dat + ".idx";
				FilePersister *fp = new FilePersister;
				ok = fp->initialise(g_dir, "store", true);
				per = fp;
				if (g_snap) g_snaps.push_back({slurp(g_idx), slurp(g_dat)});  // snapshot 0: freshly created
			}
			else
			{
				MemoryPersister *mp = new MemoryPersister;
				ok = true;
				per = mp;
			}
			pj::Ev("New").s("kind", t[1]).b("ret", ok).emit();
		}
		else if (c == "snap") { g_snap = t[1] == "on"; }
		else if (c == "put")
		{
			const unsigned seq = strtoul(t[1].c_str(), 0, 10);
			const std::string data = pj::unhex(t[2]);
			const bool r = per->put(seq, data);
			pj::Ev("Put").i("seq", seq).s("hex", t[2]).b("ret", r).i("k0", k0).i("k1", g_k).raw("sys", syslog_json(s0)).emit();
		}
		else if (c == "get")
		{
			const unsigned seq = strtoul(t[1].c_str(), 0, 10);
			f8String to;
			const bool r = per->get(seq, to);
			pj::Ev("Get").i("seq", seq).b("ret", r).s("hex", r ? pj::hex(to) : "").emit();
		}
		else if (c == "putc")
		{
			const unsigned s = strtoul(t[1].c_str(), 0, 10), r = strtoul(t[2].c_str(), 0, 10);
			const bool ret = per->put(s, r);
			pj::Ev("PutCtrl").i("s", s).i("r", r).b("ret", ret).i("k0", k0).i("k1", g_k).raw("sys", syslog_json(s0)).emit();
		}
		else if (c == "getc")
		{
			unsigned s = 0, r = 0;
			const bool ret = per->get(s, r);
			// values are split so that 32-bit TLC integers never wrap
			pj::Ev("GetCtrl").b("ret", ret).i("s", ret ? s & 0x7fffffff : 0).i("r", ret ? r & 0x7fffffff : 0)
				.i("shi", ret ? s >> 31 : 0).i("rhi", ret ? r >> 31 : 0).emit();
		}
		else if (c == "last")
		{
			unsigned to = 0;
			const unsigned r = per->get_last_seqnum(to);
			pj::Ev("Last").i("ret", r).i("out", to).emit();
		}
		else if (c == "nearest")
		{
			const unsigned req = strtoul(t[1].c_str(), 0, 10), last = strtoul(t[2].c_str(), 0, 10);
			pj::Ev("Nearest").i("req", req).i("last", last).i("ret", per->find_nearest_highest_seqnum(req, last)).emit();
		}
		else if (c == "range")
		{
			const unsigned from = strtoul(t[1].c_str(), 0, 10), to = strtoul(t[2].c_str(), 0, 10);
			ses->_calls.clear(); ses->_nomore.clear();
			const unsigned r = per->get(from, to, *ses, &Session::retrans_callback);
			std::string calls("[");
			for (size_t i = 0; i < ses->_calls.size(); ++i)
			{
				if (i) calls += ",";
				calls += "{\"seq\":" + std::to_string(ses->_calls[i].first) + ",\"hex\":\"" + pj::hex(ses->_calls[i].second)
					+ "\",\"nomore\":" + (ses->_nomore[i] ? "true" : "false") + "}";
			}
			calls += "]";
			pj::Ev("Range").i("from", from).i("to", to).i("ret", r).raw("calls", calls).emit();
		}
		else if (c == "reopen")    // reopen <k>|live : fresh FilePersister on the disk image after syscall k
		{
			delete per; per = nullptr;
			if (t[1] == "again")   // clean restart: a fresh FilePersister on the files the previous one left (after a reopen <k>)
			{
				if (g_curdir.empty()) { pj::Ev("Error").s("what", "reopen again without a reopened store").emit(); continue; }
				FilePersister *fp = new FilePersister;
				const bool ok = fp->initialise(g_curdir, "store", false);
				per = fp;
				pj::Ev("Reopen2").b("ret", ok).emit();
				continue;
			}
			long k = -1;
			std::string idxs, dats;
			if (t[1] == "live") { idxs = slurp(g_idx); dats = slurp(g_dat); k = g_k; }
			else
			{
				k = strtol(t[1].c_str(), 0, 10);
				if (k < 0 || static_cast<size_t>(k) >= g_snaps.size()) { pj::Ev("Error").s("what", "no such snapshot").emit(); continue; }
				idxs = g_snaps[k].first; dats = g_snaps[k].second;
			}
			const bool keep = g_snap;
			g_snap = false;
			g_idx.clear(); g_dat.clear();
			std::string d = g_dir + "_r" + std::to_string(++gen);
			g_curdir = d;
			mkdir(d.c_str(), 0700);
			spit(d + "/store", dats); spit(d + "/store.idx", idxs);
			FilePersister *fp = new FilePersister;
			const bool ok = fp->initialise(d, "store", false);
			per = fp;
			pj::Ev("Reopen").i("k", k).b("ret", ok).i("idxlen", idxs.size()).i("datlen", dats.size()).emit();
			(void)keep;
		}
		else if (c == "nsnaps") { pj::Ev("Snaps").i("n", g_snaps.size()).i("k", g_k).emit(); }
		else if (c == "quit") break;
		else pj::Ev("Error").s("what", "unknown command " + c).emit();
	}
	delete per;
	fflush(stdout);
	_exit(0);   // skip the session's one-second settle sleep; nothing is pending
}
