// probe_logger: drives the real FIX8::FileLogger (runtime/logger.cpp, include/fix8/logger.hpp) and prints
// what happened: every submit with its return value, the stop() call, and the log file afterwards.
// No oracle here.
//
// Two modes, one command per stdin line:
//   free  <id> <np> <nl> <stopafter> <seed> <jitter>   np producer threads submit nl lines each as fast as
//                                                       they can; stop() is called as soon as <stopafter>
//                                                       submits have returned (np*nl = right after the last)
//   sched <id> <np> <step>...                           a schedule exported by TLC (spec/MC_Logger.tla, seam
//                                                       grain): S<p>e|S<p>d  producer p submits its next line
//                                                       at an enabled / disabled level; X  a thread calls
//                                                       stop() and runs up to its join; C  the consumer
//                                                       thread runs from its park position to the next;
//                                                       J  stop() joins and returns;  R<p>e  producer p begins
//                                                       the submit of its next line and is parked inside the
//                                                       queue's push between taking its ticket and publishing
//                                                       the element (FIX8_VERIF yield point "push.publish",
//                                                       hook H1);  P<p>  that producer is released and its
//                                                       submit returns
// Apart from R/P the schedule is enforced without any hook inside fix8: this executable defines clock_nanosleep, write,
// pthread_join and pthread_create; the logger's consumer thread calls the first two (the sleep when the
// queue is empty, the write of a formatted line), Logger::stop() calls the third.  In sched mode those
// calls park the calling thread until the controller releases it.  If a thread does not reach a park
// position in time the controller just goes on (the run degrades to a free-running one; the monitor
// judges only what was submitted and what the file holds).
#include <precomp.hpp>
#include <fix8/f8includes.hpp>
#include "pj.hpp"
#include <dlfcn.h>
#include <sys/stat.h>
#include <sys/resource.h>
#include <fcntl.h>
#include <fstream>
#include <thread>
#include <mutex>
#include <condition_variable>
#include <atomic>
#include <chrono>
#include <algorithm>
#include <functional>

using namespace FIX8;

// ---------------------------------------------------------------------------------------------
enum Role { r_other, r_consumer, r_stopper };
static thread_local int tl_role = r_other;

struct Ctl
{
	bool ppark[9] = {}, pparked[9] = {}, prelease[9] = {};   // producer p: asked to park in push / is parked / released
	std::mutex m;
	std::condition_variable cv;
	bool active = false;        // sched mode: park positions are in force
	bool capture = false;       // the next thread created is the logger's consumer
	bool cparked = false, crelease = false, cexited = false;
	const char *cwhere = "";
	bool xparked = false, xrelease = false, xdone = false;
};
static Ctl g;

static void park_consumer(const char *where)
{
	std::unique_lock<std::mutex> lk(g.m);
	if (!g.active)
		return;
	g.cwhere = where;
	g.cparked = true;
	g.cv.notify_all();
	g.cv.wait(lk, [] { return g.crelease || !g.active; });
	g.crelease = false;
	g.cparked = false;
}

static int g_sched_no = 0;               // number of the schedule being run (selects the park position inside push)
static thread_local int tl_prod = 0;     // producer number of this thread while it runs an R step
#ifdef FIX8_VERIF
static void yield_hook(const char *label, long)
{
	const int p = tl_prod;
	// a producer is parked inside its push either after the ticket CAS and before the sub-queue push ("push.subpush")
	// or after the sub-queue push and before the publish ("push.publish"): the same position of Logger.tla (ticket
	// taken, element not published), alternating with the schedule number and the producer
	if (!p || strcmp(label, ((g_sched_no + p) & 1) ? "push.subpush" : "push.publish"))
		return;
	std::unique_lock<std::mutex> lk(g.m);
	if (!g.active || !g.ppark[p])
		return;
	g.ppark[p] = false;
	g.pparked[p] = true;
	g.cv.notify_all();
	g.cv.wait(lk, [p] { return g.prelease[p] || !g.active; });
	g.prelease[p] = false;
	g.pparked[p] = false;
}
#endif

extern "C" int clock_nanosleep(clockid_t clk, int flags, const struct timespec *req, struct timespec *rem)
{
	using fn = int (*)(clockid_t, int, const struct timespec *, struct timespec *);
	static fn real = reinterpret_cast<fn>(dlsym(RTLD_NEXT, "clock_nanosleep"));
	if (tl_role == r_consumer)
	{
		bool act;
		{ std::lock_guard<std::mutex> lk(g.m); act = g.active; }
		if (act)
		{
			park_consumer("sleep");     // the sleep lasts until the controller says so
			return 0;
		}
	}
	return real(clk, flags, req, rem);
}

extern "C" ssize_t write(int fd, const void *buf, size_t n)
{
	using fn = ssize_t (*)(int, const void *, size_t);
	static fn real = reinterpret_cast<fn>(dlsym(RTLD_NEXT, "write"));
	if (tl_role == r_consumer && fd > 2)
		park_consumer("write");
	return real(fd, buf, n);
}

extern "C" int pthread_join(pthread_t t, void **ret)
{
	using fn = int (*)(pthread_t, void **);
	static fn real = reinterpret_cast<fn>(dlsym(RTLD_NEXT, "pthread_join"));
	if (tl_role == r_stopper)
	{
		std::unique_lock<std::mutex> lk(g.m);
		if (g.active)
		{
			g.xparked = true;
			g.cv.notify_all();
			g.cv.wait(lk, [] { return g.xrelease || !g.active; });
			g.xparked = false;
		}
	}
	return real(t, ret);
}

struct Tramp { void *(*fn)(void *); void *arg; };
static void *tramp(void *p)
{
	Tramp t = *static_cast<Tramp *>(p);
	delete static_cast<Tramp *>(p);
	tl_role = r_consumer;
	void *r = t.fn(t.arg);
	{
		std::lock_guard<std::mutex> lk(g.m);
		g.cexited = true;
		g.cv.notify_all();
	}
	return r;
}

extern "C" int pthread_create(pthread_t *t, const pthread_attr_t *a, void *(*fn)(void *), void *arg)
{
	using cfn = int (*)(pthread_t *, const pthread_attr_t *, void *(*)(void *), void *);
	static cfn real = reinterpret_cast<cfn>(dlsym(RTLD_NEXT, "pthread_create"));
	bool cap;
	{ std::lock_guard<std::mutex> lk(g.m); cap = g.capture; g.capture = false; }
	if (cap)
		return real(t, a, tramp, new Tramp{fn, arg});
	return real(t, a, fn, arg);
}

// ---------------------------------------------------------------------------------------------
static const Logger::Level lev_enabled[] = { Logger::Info, Logger::Warn, Logger::Fatal };
static const Logger::Level lev_disabled[] = { Logger::Debug, Logger::Error };

static Logger::Level level_for(int p, int k, bool en)
{
	return en ? lev_enabled[(p + k) % 3] : lev_disabled[(p + k) % 2];
}

static std::string text_for(int p, int k)
{
	return "p" + std::to_string(p) + "k" + std::to_string(k) + "_" + std::string((p * 7 + k * 3) % 40, 'x');
}

struct Sub { int p, k, lvl; bool en, ret; long t0, t1; };
static std::atomic<long> g_tick{0};
static std::atomic<long> g_done{0};

// watchdog: a stop() that has not come back after this long is reported as such (Stop.t1 = -1) and the probe
// gives up; without it a logger thread that never terminates would only show as a driver timeout
static const long stop_patience_ms = 60000;
static std::atomic<long> g_stop_since{0};     // steady-clock ms at which stop() was entered, 0 = not inside
static std::atomic<long> g_stop_t0{-1};
static std::string g_cur_path;
static long now_ms()
{
	return std::chrono::duration_cast<std::chrono::milliseconds>(std::chrono::steady_clock::now().time_since_epoch()).count();
}

static FileLogger *make_logger(const std::string& path)
{
	Logger::LogFlags flags;
	flags << Logger::sequence << Logger::thread << Logger::level;
	Logger::Levels levels;
	for (auto l : lev_enabled)
		levels << l;
	{ std::lock_guard<std::mutex> lk(g.m); g.capture = true; g.cexited = false; g.cparked = false; g.crelease = false;
	  g.xparked = false; g.xrelease = false; g.xdone = false; }
	FileLogger *lg = new FileLogger(path, flags, levels, " ", Logger::LogPositions(), 0);
	{ std::lock_guard<std::mutex> lk(g.m); g.capture = false; }
	return lg;
}

static Sub do_submit(FileLogger *lg, int p, int k, bool en)
{
	Sub s{p, k, 0, en, false, 0, 0};
	const Logger::Level lv = level_for(p, k, en);
	s.lvl = lv;
	const std::string txt = text_for(p, k);
	s.t0 = g_tick++;
	s.ret = lg->send(txt, lv);
	s.t1 = g_tick++;
	++g_done;
	return s;
}

// the log file as a json list of lines {n, p, k, lv}; lines that do not parse count as bad
static std::string read_file(const std::string& path, int& nlines, int& bad, std::string& firstbad)
{
	std::ifstream f(path);
	std::string l, out("[");
	nlines = bad = 0;
	while (std::getline(f, l))
	{
		unsigned n = 0; char th = 0; char lname[16] = {0}; int p = 0, k = 0;
		const size_t sp = l.rfind(' ');
		bool ok = false;
		if (sp != std::string::npos && sscanf(l.c_str(), "%u %c %15s", &n, &th, lname) == 3
			&& sscanf(l.c_str() + sp + 1, "p%dk%d_", &p, &k) == 2 && l.substr(sp + 1) == text_for(p, k))
		{
			int lv = -1;
			for (int i = 0; i < 5; ++i)
				if (Logger::_level_names[i].compare(0, strlen(lname), lname) == 0)
					lv = i;
			if (nlines) out += ",";
			out += "{\"n\":" + std::to_string(n) + ",\"p\":" + std::to_string(p) + ",\"k\":" + std::to_string(k)
				+ ",\"lv\":" + std::to_string(lv) + "}";
			++nlines;
			ok = true;
		}
		if (!ok)
		{
			if (!bad) firstbad = l;
			++bad;
		}
	}
	return out + "]";
}

static int count_lines(const std::string& path)
{
	std::ifstream f(path);
	std::string l;
	int n = 0;
	while (std::getline(f, l)) ++n;
	return n;
}

static void watchdog()
{
	for (;;)
	{
		std::this_thread::sleep_for(std::chrono::milliseconds(200));
		const long since = g_stop_since;
		if (since && now_ms() - since > stop_patience_ms)
		{
			int nl = 0, bad = 0;
			std::string fb;
			const std::string lines = read_file(g_cur_path, nl, bad, fb);
			pj::Ev("Stop").i("t0", g_stop_t0).i("t1", -1).emit();
			pj::Ev("File").raw("lines", lines).i("bad", bad).s("firstbad", fb).emit();
			pj::Ev("Late").i("n", 0).i("after", nl + bad).emit();
			fflush(stdout);
			_exit(3);
		}
	}
}

static void call_stop(FileLogger *lg, long& st0, long& st1)
{
	st0 = g_tick++;
	g_stop_t0 = st0;
	g_stop_since = now_ms();
	lg->stop();
	g_stop_since = 0;
	st1 = g_tick++;
}

// a thread that lives as long as the probe and runs the jobs it is handed (the producers and the thread
// that calls stop() are reused from one execution to the next; only the logger's own thread is new)
class Worker
{
	std::mutex _m;
	std::condition_variable _cv;
	std::function<void()> _job;
	bool _busy = false, _quit = false;
	std::thread _th;
public:
	explicit Worker(int role) : _th([this, role]() {
		tl_role = role;
		for (;;)
		{
			std::unique_lock<std::mutex> lk(_m);
			_cv.wait(lk, [this] { return _busy || _quit; });
			if (_quit) return;
			lk.unlock();
			_job();
			lk.lock();
			_busy = false;
			_cv.notify_all();
		}
	}) {}
	void start(std::function<void()> job)
	{
		std::lock_guard<std::mutex> lk(_m);
		_job = std::move(job);
		_busy = true;
		_cv.notify_all();
	}
	void wait()
	{
		std::unique_lock<std::mutex> lk(_m);
		_cv.wait(lk, [this] { return !_busy; });
	}
	void run(std::function<void()> job) { start(std::move(job)); wait(); }
};
static std::vector<Worker *> g_prod;     // g_prod[p], p = 1..8
static Worker *g_stopper = nullptr;

static void emit_result(std::vector<Sub>& subs, long st0, long st1, const std::string& lines, int nl, int bad,
	const std::string& fb, int later)
{
	std::sort(subs.begin(), subs.end(), [](const Sub& a, const Sub& b) { return a.t0 < b.t0; });
	for (const auto& s : subs)
		pj::Ev("Submit").i("p", s.p).i("k", s.k).i("lvl", s.lvl).b("en", s.en).b("ret", s.ret).i("t0", s.t0).i("t1", s.t1).emit();
	pj::Ev("Stop").i("t0", st0).i("t1", st1).emit();
	pj::Ev("File").raw("lines", lines).i("bad", bad).s("firstbad", fb).emit();
	pj::Ev("Late").i("n", later - nl - bad).i("after", later).emit();
}

// ---------------------------------------------------------------------------------------------
static void run_free(const std::string& dir, const std::vector<std::string>& t)
{
	const int id = atoi(t[1].c_str()), np = atoi(t[2].c_str()), nl = atoi(t[3].c_str());
	const long stopafter = atol(t[4].c_str());
	const unsigned seed = strtoul(t[5].c_str(), 0, 10), jitter = strtoul(t[6].c_str(), 0, 10);
	const std::string path = dir + "/f" + std::to_string(id) + ".log";
	unlink(path.c_str());
	pj::Ev("Reset").s("mode", "free").i("id", id).i("np", np).i("nl", nl).i("stopafter", stopafter).raw("sched", "[]").emit();
	{ std::lock_guard<std::mutex> lk(g.m); g.active = false; }
	g_tick = 0; g_done = 0;
	g_cur_path = path;
	FileLogger *lg = make_logger(path);
	std::vector<std::vector<Sub>> per(np);
	std::atomic<int> ready{0};
	std::atomic<bool> go{false};
	for (int p = 1; p <= np; ++p)
		g_prod[p]->start([&, p]() {
			unsigned x = seed * 2654435761u + p * 40503u + 12345u;
			++ready;
			while (!go) ;
			for (int k = 1; k <= nl; ++k)
			{
				x = x * 1664525u + 1013904223u;
				const bool en = (x >> 16) % 5 != 0;
				per[p - 1].push_back(do_submit(lg, p, k, en));
				if (jitter)
				{
					x = x * 1664525u + 1013904223u;
					const auto until = std::chrono::steady_clock::now() + std::chrono::microseconds((x >> 16) % (jitter + 1));
					while (std::chrono::steady_clock::now() < until) ;
				}
			}
		});
	while (ready < np) ;
	go = true;
	while (g_done < stopafter)
		;
	long st0 = -1, st1 = -1;
	call_stop(lg, st0, st1);
	// the file is looked at now, while late producers may still be submitting to the stopped logger
	int nlines = 0, bad = 0;
	std::string fb;
	const std::string lines = read_file(path, nlines, bad, fb);
	std::this_thread::sleep_for(std::chrono::microseconds(1500));
	const int later = count_lines(path);      // anything written after stop() returned?
	for (int p = 1; p <= np; ++p) g_prod[p]->wait();
	std::vector<Sub> subs;
	for (auto& v : per) subs.insert(subs.end(), v.begin(), v.end());
	emit_result(subs, st0, st1, lines, nlines, bad, fb, later);
	unlink(path.c_str());
	// the logger is deliberately not deleted: ~Logger calls stop() a second time, which joins an already
	// joined thread (pthread_join on a dead id); that is outside C28
}

// ---------------------------------------------------------------------------------------------
template<typename Pred> static bool wait_for(std::unique_lock<std::mutex>& lk, int ms, Pred pr)
{
	return g.cv.wait_for(lk, std::chrono::milliseconds(ms), pr);
}

static void run_sched(const std::string& dir, const std::vector<std::string>& t)
{
	const int id = atoi(t[1].c_str()), np = atoi(t[2].c_str());
	const std::string path = dir + "/s" + std::to_string(id) + ".log";
	unlink(path.c_str());
	std::string sj("[");
	for (size_t i = 3; i < t.size(); ++i)
	{
		if (i > 3) sj += ",";
		const std::string& s = t[i];
		if (s[0] == 'S' || s[0] == 'R')
			sj += std::string("{\"a\":\"") + s[0] + "\",\"p\":" + std::to_string(atoi(s.c_str() + 1)) + ",\"en\":" + (s.back() == 'e' ? "1" : "0") + "}";
		else if (s[0] == 'P')
			sj += "{\"a\":\"P\",\"p\":" + std::to_string(atoi(s.c_str() + 1)) + ",\"en\":0}";
		else
			sj += std::string("{\"a\":\"") + s[0] + "\",\"p\":0,\"en\":0}";
	}
	sj += "]";
	pj::Ev("Reset").s("mode", "sched").i("id", id).i("np", np).i("nl", 0).i("stopafter", 0).raw("sched", sj).emit();
	g_tick = 0; g_done = 0;
	++g_sched_no;
	{ std::lock_guard<std::mutex> lk(g.m); g.active = true;
	  for (int p = 0; p < 9; ++p) g.ppark[p] = g.pparked[p] = g.prelease[p] = false; }
	g_cur_path = path;
	FileLogger *lg = make_logger(path);
	std::vector<std::string> parks;
	{
		std::unique_lock<std::mutex> lk(g.m);
		// a freshly created thread can take seconds to get going on a busy machine; a logger whose thread has no
		// park position at all (two executions in a row) is not waited for any more
		static int unsteerable = 0;
		const bool ok = wait_for(lk, unsteerable >= 2 ? 50 : 10000, [] { return g.cparked || g.cexited; });
		unsteerable = ok ? 0 : unsteerable + 1;
		parks.push_back(!ok ? "timeout" : g.cexited ? "done" : g.cwhere);
	}
	std::vector<int> nextk(np + 1, 0);
	std::vector<Sub> subs;
	std::mutex subs_m;
	std::vector<bool> inpush(np + 1, false);
	auto publish = [&](int p) {
		if (!inpush[p])
			return;
		{ std::lock_guard<std::mutex> lk(g.m); g.prelease[p] = true; g.ppark[p] = false; g.cv.notify_all(); }
		g_prod[p]->wait();
		{ std::lock_guard<std::mutex> lk(g.m); g.prelease[p] = false; }
		inpush[p] = false;
	};
	long st0 = -1, st1 = -1;
	bool started = false, joined = false;
	auto start_stop = [&]() {
		started = true;
		g_stopper->start([&]() {
			call_stop(lg, st0, st1);
			std::lock_guard<std::mutex> lk(g.m);
			g.xdone = true;
			g.cv.notify_all();
		});
		std::unique_lock<std::mutex> lk(g.m);
		wait_for(lk, 3000, [] { return g.xparked || g.xdone; });
	};
	auto finish_stop = [&]() {
		{
			std::lock_guard<std::mutex> lk(g.m);
			g.active = false;          // every park position is lifted: nothing can be left waiting
			g.xrelease = true;
			g.crelease = true;
			g.cv.notify_all();
		}
		g_stopper->wait();
		joined = true;
	};
	for (size_t i = 3; i < t.size() && !joined; ++i)
	{
		const std::string& s = t[i];
		if (s[0] == 'S')
		{
			const int p = atoi(s.c_str() + 1);
			const bool en = s.back() == 'e';
			const int k = ++nextk[p];
			publish(p);
			g_prod[p]->run([&, p, k, en]() { Sub x = do_submit(lg, p, k, en); std::lock_guard<std::mutex> lk(subs_m); subs.push_back(x); });
		}
		else if (s[0] == 'R')
		{
			const int p = atoi(s.c_str() + 1);
			publish(p);
			const int k = ++nextk[p];
			{ std::lock_guard<std::mutex> lk(g.m); g.ppark[p] = true; }
			inpush[p] = true;
			g_prod[p]->start([&, p, k]() { tl_prod = p; Sub x = do_submit(lg, p, k, true); tl_prod = 0;
				std::lock_guard<std::mutex> lk(subs_m); subs.push_back(x); });
			std::unique_lock<std::mutex> lk(g.m);
			wait_for(lk, 3000, [p] { return g.pparked[p]; });
		}
		else if (s[0] == 'P')
			publish(atoi(s.c_str() + 1));
		else if (s[0] == 'X')
		{
			if (!started)
				start_stop();
		}
		else if (s[0] == 'C')
		{
			std::unique_lock<std::mutex> lk(g.m);
			if (g.cexited) { parks.push_back("done"); continue; }
			if (!g.cparked) { parks.push_back("running"); continue; }
			g.crelease = true;
			g.cparked = false;
			g.cv.notify_all();
			const bool ok = wait_for(lk, 3000, [] { return g.cparked || g.cexited; });
			parks.push_back(!ok ? "timeout" : g.cexited ? "done" : g.cwhere);
		}
		else if (s[0] == 'J')
		{
			if (started)
				finish_stop();
		}
	}
	if (!started)
	{
		for (int p = 1; p <= np; ++p) publish(p);
		// schedules that end before stop(): finish with a stop() whose run is not steered
		{ std::lock_guard<std::mutex> lk(g.m); g.active = false; g.crelease = true; g.cv.notify_all(); }
		start_stop();
	}
	if (!joined)
		finish_stop();
	for (int p = 1; p <= np; ++p) publish(p);
	std::string pjs("[");
	for (size_t i = 1; i < parks.size(); ++i) { if (i > 1) pjs += ","; pjs += "\"" + parks[i] + "\""; }
	pjs += "]";
	pj::Ev("Parks").s("init", parks[0]).raw("seq", pjs).emit();
	int nl = 0, bad = 0;
	std::string fb;
	const std::string lines = read_file(path, nl, bad, fb);       // the file as stop() left it
	std::this_thread::sleep_for(std::chrono::microseconds(1500));
	const int later = count_lines(path);                             // anything written after stop() returned?
	emit_result(subs, st0, st1, lines, nl, bad, fb, later);
	unlink(path.c_str());
}

int main(int argc, char **argv)
{
	pj::install_terminate();
	struct rlimit rl;
	if (getrlimit(RLIMIT_NOFILE, &rl) == 0) { rl.rlim_cur = rl.rlim_max; setrlimit(RLIMIT_NOFILE, &rl); }
	g_prod.push_back(nullptr);
	for (int p = 1; p <= 8; ++p)
		g_prod.push_back(new Worker(r_other));
	g_stopper = new Worker(r_stopper);
#ifdef FIX8_VERIF
	fix8_verif_yield_hook = yield_hook;
#endif
	std::thread(watchdog).detach();
	std::string dir(".");
	std::string line;
	while (std::getline(std::cin, line))
	{
		auto t = pj::split(line);
		if (t.empty()) continue;
		if (t[0] == "dir") { dir = t[1]; mkdir(dir.c_str(), 0700); }
		else if (t[0] == "free" && t.size() >= 7 && atoi(t[2].c_str()) >= 1 && atoi(t[2].c_str()) <= 8) run_free(dir, t);
		else if (t[0] == "sched" && t.size() >= 3 && atoi(t[2].c_str()) >= 1 && atoi(t[2].c_str()) <= 8) run_sched(dir, t);
		else if (t[0] == "quit") break;
		else pj::Ev("Error").s("what", "bad command " + line).emit();
	}
	fflush(stdout);
	_exit(0);
}
