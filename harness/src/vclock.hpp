// Virtual clock seam (DESIGN.md section 3): include in exactly one translation unit of a probe.
// fix8's Tickval reads std::chrono::system/high_resolution_clock -> libstdc++ -> clock_gettime.
// The probe executable defines clock_gettime: CLOCK_REALTIME returns a harness-controlled instant,
// every other clock forwards to libc, so hypersleep (CLOCK_MONOTONIC) keeps sleeping for real while
// FIX timestamps, heartbeat supervision and schedules run on virtual time.  clock_nanosleep is
// interposed only to cap the fixed "settle" sleeps (250 ms in Session::stop, 1 s in ~Session).
#ifndef VERIF_VCLOCK_HPP
#define VERIF_VCLOCK_HPP
#include <time.h>
#include <atomic>
#include <dlfcn.h>

extern "C" int __clock_gettime(clockid_t, struct timespec *);

namespace vclock {
static std::atomic<long long> g_ns{1700000000LL * 1000000000LL};   // virtual CLOCK_REALTIME in ns
static std::atomic<bool> g_on{true};
static std::atomic<long> g_sleep_cap_ns{1 * 1000000L};             // cap for long absolute sleeps
inline void set(long long sec, long long ms) { g_ns = sec * 1000000000LL + ms * 1000000LL; }
inline void advance_ms(long long ms) { g_ns += ms * 1000000LL; }
inline long long now_ns() { return g_ns; }
}

extern "C" int clock_gettime(clockid_t id, struct timespec *ts)
{
	if (id == CLOCK_REALTIME && vclock::g_on)
	{
		const long long v(vclock::g_ns);
		ts->tv_sec = v / 1000000000LL;
		ts->tv_nsec = v % 1000000000LL;
		return 0;
	}
	return __clock_gettime(id, ts);
}

extern "C" int clock_nanosleep(clockid_t id, int flags, const struct timespec *req, struct timespec *rem)
{
	using fn = int (*)(clockid_t, int, const struct timespec *, struct timespec *);
	static fn real = reinterpret_cast<fn>(dlsym(RTLD_NEXT, "clock_nanosleep"));
	if (flags == TIMER_ABSTIME && id == CLOCK_MONOTONIC)
	{
		struct timespec now;
		__clock_gettime(CLOCK_MONOTONIC, &now);
		const long long delta((req->tv_sec - now.tv_sec) * 1000000000LL + (req->tv_nsec - now.tv_nsec));
		if (delta > 100 * 1000000LL)   // a settle sleep (>= 250 ms): nothing in any property depends on it
		{
			struct timespec capped(now);
			capped.tv_nsec += vclock::g_sleep_cap_ns;
			if (capped.tv_nsec >= 1000000000L) { ++capped.tv_sec; capped.tv_nsec -= 1000000000L; }
			return real(id, flags, &capped, rem);
		}
	}
	return real(id, flags, req, rem);
}
#endif
