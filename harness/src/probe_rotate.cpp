// probe_rotate: performs real rotations (FileLogger constructor / FileLogger::rotate, FilePersister::initialise
// with purge) in a scratch directory holding a given set of pre-existing files, and prints the directory
// (name -> content) before and after.  No oracle here.  Built with -D_GLIBCXX_ASSERTIONS and ASan so that an
// index beyond the rotation bookkeeping aborts the process; the driver sees which scenario was running from
// the Begin event.
//
// One command per stdin line:
//   dir <path>                                            scratch root
//   log   <id> <rotnum> <append 0|1> <calls> <file>...    calls: a string over  c (construct; the constructor
//                                                         rotates unforced)  r (rotate())  f (rotate(true))
//   store <id> <rotnum> <purge 0|1> <file>...             FilePersister(rotnum).initialise(dir, "store", purge)
//   <file> is name=content (content: decimal id)
#include <precomp.hpp>
#include <fix8/f8includes.hpp>
#include "pj.hpp"
#include <sys/stat.h>
#include <dirent.h>
#include <fstream>
#include <algorithm>

using namespace FIX8;

static std::string slurp(const std::string& p)
{
	std::ifstream f(p, std::ios::binary);
	std::ostringstream o;
	o << f.rdbuf();
	return o.str();
}

// [{"name":..., "c":...}] sorted by name; c = the decimal id the file holds, 0 for an empty file, -1 otherwise
static std::string listing(const std::string& d)
{
	std::vector<std::string> names;
	if (DIR *dp = opendir(d.c_str()))
	{
		while (dirent *e = readdir(dp))
			if (strcmp(e->d_name, ".") && strcmp(e->d_name, ".."))
				names.push_back(e->d_name);
		closedir(dp);
	}
	std::sort(names.begin(), names.end());
	std::string out("[");
	for (size_t i = 0; i < names.size(); ++i)
	{
		const std::string c = slurp(d + "/" + names[i]);
		long id = -1;
		if (c.empty())
			id = 0;
		else if (c.size() < 12 && c.find_first_not_of("0123456789") == std::string::npos)
			id = atol(c.c_str());
		if (i) out += ",";
		out += "{\"name\":\"" + pj::esc(names[i]) + "\",\"c\":" + std::to_string(id) + "}";
	}
	return out + "]";
}

static void rmtree(const std::string& d)
{
	if (DIR *dp = opendir(d.c_str()))
	{
		while (dirent *e = readdir(dp))
			if (strcmp(e->d_name, ".") && strcmp(e->d_name, ".."))
				unlink((d + "/" + e->d_name).c_str());
		closedir(dp);
	}
	rmdir(d.c_str());
}

static std::string setup(const std::string& root, const std::string& id, const std::vector<std::string>& t, size_t from)
{
	const std::string d = root + "/s" + id;
	rmtree(d);
	mkdir(d.c_str(), 0700);
	for (size_t i = from; i < t.size(); ++i)
	{
		const size_t eq = t[i].find('=');
		std::ofstream f(d + "/" + t[i].substr(0, eq), std::ios::binary | std::ios::trunc);
		f << t[i].substr(eq + 1);
	}
	return d;
}

int main(int argc, char **argv)
{
	pj::install_terminate();
	std::string root(".");
	std::string line;
	while (std::getline(std::cin, line))
	{
		auto t = pj::split(line);
		if (t.empty()) continue;
		if (t[0] == "dir") { root = t[1]; mkdir(root.c_str(), 0700); }
		else if (t[0] == "log" && t.size() >= 5)
		{
			const unsigned rotnum = strtoul(t[2].c_str(), 0, 10);
			const bool append = t[3] == "1";
			const std::string d = setup(root, t[1], t, 5);
			pj::Ev("Reset").s("kind", "log").s("id", t[1]).emit();
			Logger::LogFlags flags;
			flags << Logger::sequence << Logger::thread;
			if (append)
				flags << Logger::append;
			FileLogger *lg = nullptr;
			for (char c : t[4])
			{
				const std::string before = listing(d);
				pj::Ev("Begin").s("kind", "log").s("id", t[1]).i("rotnum", rotnum).b("append", append).b("force", c == 'f')
					.s("call", std::string(1, c)).raw("before", before).emit();
				bool ret = true;
				std::string exc;
				try
				{
					if (c == 'c')
						lg = new FileLogger(d + "/name", flags, Logger::Levels(Logger::All), " ", Logger::LogPositions(), rotnum);
					else if (lg)
						ret = lg->rotate(c == 'f');
				}
				catch (const std::exception& e) { exc = e.what(); ret = false; }
				pj::Ev("Rotate").s("kind", "log").i("rotnum", rotnum).b("append", append).b("force", c == 'f').b("purge", false)
					.s("call", std::string(1, c)).b("ret", ret).s("exc", exc).raw("before", before).raw("after", listing(d)).emit();
			}
			delete lg;      // stops the logger thread (one stop() only)
			rmtree(d);
		}
		else if (t[0] == "store" && t.size() >= 4)
		{
			const unsigned rotnum = strtoul(t[2].c_str(), 0, 10);
			const bool purge = t[3] == "1";
			const std::string d = setup(root, t[1], t, 4);
			pj::Ev("Reset").s("kind", "store").s("id", t[1]).emit();
			const std::string before = listing(d);
			pj::Ev("Begin").s("kind", "store").s("id", t[1]).i("rotnum", rotnum).b("append", false).b("force", false)
				.s("call", "i").raw("before", before).emit();
			bool ret = false;
			{
				FilePersister fp(rotnum);
				ret = fp.initialise(d, "store", purge);
			}
			pj::Ev("Rotate").s("kind", "store").i("rotnum", rotnum).b("append", false).b("force", false).b("purge", purge)
				.s("call", "i").b("ret", ret).s("exc", "").raw("before", before).raw("after", listing(d)).emit();
			rmtree(d);
		}
		else if (t[0] == "quit") break;
		else pj::Ev("Error").s("what", "bad command " + line).emit();
	}
	fflush(stdout);
	_exit(0);
}
