// Tiny helpers shared by the probes: command tokenising (one command per stdin line, blank-separated,
// byte strings in hex) and ndjson event output.  Probes contain no oracle: they perform the command
// on the real fix8 objects and print what they observed.
#ifndef VERIF_PJ_HPP
#define VERIF_PJ_HPP
#include <string>
#include <vector>
#include <sstream>
#include <iostream>
#include <cstdio>
#include <cstdlib>
#include <cstdint>
#include <exception>
#include <unistd.h>

namespace pj {

inline std::vector<std::string> split(const std::string& line)
{
	std::vector<std::string> out;
	std::istringstream is(line);
	std::string t;
	while (is >> t)
		out.push_back(t);
	return out;
}

inline std::string unhex(const std::string& h)
{
	std::string out;
	if (h == "-")
		return out;
	auto v = [](char c) -> int { return c <= '9' ? c - '0' : (c | 0x20) - 'a' + 10; };
	for (size_t i = 0; i + 1 < h.size(); i += 2)
		out.push_back(static_cast<char>(v(h[i]) << 4 | v(h[i + 1])));
	return out;
}

inline std::string hex(const std::string& s)
{
	static const char *d = "0123456789abcdef";
	std::string out;
	for (unsigned char c : s) { out.push_back(d[c >> 4]); out.push_back(d[c & 15]); }
	return out;
}

inline std::string esc(const std::string& s)
{
	std::string out;
	char b[8];
	for (unsigned char c : s)
	{
		if (c == '"' || c == '\\') { out.push_back('\\'); out.push_back(c); }
		else if (c < 0x20 || c >= 0x7f) { snprintf(b, sizeof b, "\\u%04x", c); out += b; }
		else out.push_back(c);
	}
	return out;
}

/// One ndjson event under construction:  Ev("Put").i("seq", 3).b("ret", true).s("x", "..").emit();
class Ev
{
	std::string _s;
	void key(const char *k) { _s += ",\""; _s += k; _s += "\":"; }
public:
	explicit Ev(const char *e) { _s = "{\"e\":\""; _s += e; _s += "\""; }
	Ev& i(const char *k, long long v) { key(k); _s += std::to_string(v); return *this; }
	Ev& b(const char *k, bool v) { key(k); _s += v ? "true" : "false"; return *this; }
	Ev& s(const char *k, const std::string& v) { key(k); _s += "\"" + esc(v) + "\""; return *this; }
	Ev& raw(const char *k, const std::string& json) { key(k); _s += json; return *this; }
	template<typename C> Ev& ints(const char *k, const C& c)
	{
		key(k); _s += "[";
		bool first(true);
		for (auto v : c) { if (!first) _s += ","; first = false; _s += std::to_string(static_cast<long long>(v)); }
		_s += "]";
		return *this;
	}
	void emit() { _s += "}\n"; fputs(_s.c_str(), stdout); fflush(stdout); }
	std::string str() const { return _s + "}"; }
};

inline void install_terminate()
{
	std::set_terminate([]() {
		fputs("{\"e\":\"Terminate\"}\n", stdout);
		fflush(stdout);
		_exit(96);
	});
}

}
#endif
