// probe_sched: drives the real FIX8::Schedule::test (include/fix8/session.hpp) on a virtual clock and the
// real decode_dow (runtime/f8utils.cpp).  The schedule object is produced by the real
// Configuration::create_session_schedule from an XML configuration (so create_schedule's defaults and
// weekday decoding are on the path).  No oracle here: the probe performs the calls and prints results.
//
// Virtual clock (DESIGN.md section 3): this executable defines clock_gettime.  CLOCK_REALTIME returns the
// harness-controlled instant, every other clock forwards to libc, so Tickval(true) inside fix8 follows
// the harness while sleeps (CLOCK_MONOTONIC) stay real.
//
// commands
//   reset <json>                                  -> Reset{cfg}
//   sched <start HH:MM:SS> <end HH:MM:SS> <utc_offset_mins> <start_day|-> <end_day|->
//                                                 -> Cfg{ok, start, end, off, sd, ed}   (what the library decoded)
//   run <epoch_day> <sec_of_day> <step_s> <n> <prev0> <ms>
//        n calls of Schedule::test chained as Session::activation_service does (prev = last result),
//        the clock advanced by step_s between calls.  Output is run-length encoded:
//                                                 -> Seg{day, sec, step, n, prev, ret}  one per run of equal results
//   dow <hex>                                     -> Dow{cs:[codes], ret}
//   now                                           -> Now{day, sec}   (Tickval(true) as seen inside fix8: clock seam self-test)
#include <precomp.hpp>
#include <fix8/f8includes.hpp>
#include "pj.hpp"
#include <time.h>
#include <sys/syscall.h>

using namespace FIX8;

static long long g_now_s = 0;   // virtual CLOCK_REALTIME, seconds since the epoch
static long g_now_ns = 0;
static bool g_virtual = false;

extern "C" int __clock_gettime(clockid_t, struct timespec *);

extern "C" int clock_gettime(clockid_t id, struct timespec *ts)
{
	if (id == CLOCK_REALTIME && g_virtual)
	{
		ts->tv_sec = g_now_s;
		ts->tv_nsec = g_now_ns;
		return 0;
	}
	return __clock_gettime(id, ts);
}

static std::string cfg_xml(const std::vector<std::string>& t)
{
	std::ostringstream o;
	o << "<?xml version='1.0' encoding='ISO-8859-1'?>\n<fix8>\n"
	  << "<session name='S1' role='acceptor' fix_version='4200' active='true' ip='127.0.0.1' port='11001' "
	     "sender_comp_id='A' target_comp_id='B' schedule='sch0' />\n"
	  << "<schedule name='sch0' start_time='" << t[1] << "' end_time='" << t[2] << "' utc_offset_mins='" << t[3] << "'";
	if (t[4] != "-")
		o << " start_day='" << t[4] << "'";
	if (t[5] != "-")
		o << " end_day='" << t[5] << "'";
	o << " />\n</fix8>\n";
	return o.str();
}

static void set_clock(long long day, long long sec, long ms)
{
	g_now_s = day * 86400LL + sec;
	g_now_ns = ms * 1000000L;
	g_virtual = true;
}

int main(int argc, char **argv)
{
	pj::install_terminate();
	XmlElement::XmlFlags fl;
	fl.set(XmlElement::noextensions);
	XmlElement::set_flags(fl);
	Session_Schedule *ss = nullptr;
	Configuration *conf = nullptr;
	std::string line;
	while (std::getline(std::cin, line))
	{
		auto t = pj::split(line);
		if (t.empty()) continue;
		const std::string& c = t[0];
		try
		{
			if (c == "reset")
				pj::Ev("Reset").raw("cfg", line.substr(6)).emit();
			else if (c == "sched" && t.size() == 6)
			{
				delete ss; ss = nullptr;
				delete conf; conf = nullptr;
				std::istringstream is(cfg_xml(t));
				conf = new Configuration(is, true);
				const XmlElement *ses = conf->get_session(0);
				ss = ses ? conf->create_session_schedule(ses) : nullptr;
				if (!ss)
					pj::Ev("Cfg").b("ok", false).emit();
				else
				{
					const Schedule& s = ss->_sch;
					pj::Ev("Cfg").b("ok", s.is_valid())
						.i("start", s._start.get_ticks() / Tickval::billion).i("end", s._end.is_errorval() ? -1 : s._end.get_ticks() / Tickval::billion)
						.i("off", s._utc_offset).i("sd", s._start_day).i("ed", s._end_day).emit();
				}
			}
			else if (c == "run" && t.size() == 7)
			{
				if (!ss) { pj::Ev("Error").s("what", "no schedule").emit(); continue; }
				const long long day = atoll(t[1].c_str()), sec0 = atoll(t[2].c_str()), step = atoll(t[3].c_str()), n = atoll(t[4].c_str());
				bool prev = t[5] == "1";
				const long ms = atol(t[6].c_str());
				// run-length encoding of (result) over consecutive checks
				long long seg_from = 0, seg_n = 0;
				bool seg_prev = prev, seg_ret = false;
				auto flush = [&]() {
					if (seg_n)
					{
						const long long a = sec0 + seg_from * step;
						pj::Ev("Seg").i("day", day + a / 86400).i("sec", a % 86400).i("step", step).i("n", seg_n)
							.b("prev", seg_prev).b("ret", seg_ret).emit();
					}
				};
				for (long long i = 0; i < n; ++i)
				{
					set_clock(day, sec0 + i * step, ms);
					const bool r = ss->_sch.test(prev);
					if (seg_n && r == seg_ret)
						++seg_n;
					else
					{
						flush();
						seg_from = i; seg_n = 1; seg_prev = prev; seg_ret = r;
					}
					prev = r;
				}
				flush();
				g_virtual = false;
			}
			else if (c == "dow" && t.size() == 2)
			{
				const std::string s = pj::unhex(t[1]);
				std::vector<int> cs;
				for (unsigned char ch : s) cs.push_back(ch);
				pj::Ev("Dow").ints("cs", cs).i("ret", decode_dow(s)).emit();
			}
			else if (c == "now" && t.size() == 4)
			{
				set_clock(atoll(t[1].c_str()), atoll(t[2].c_str()), atol(t[3].c_str()));
				Tickval tv(true);
				g_virtual = false;
				Tickval real(true);
				pj::Ev("Now").i("day", tv.secs() / 86400).i("sec", tv.secs() % 86400).i("ms", tv.msecs())
					.i("realday", real.secs() / 86400).emit();
			}
			else if (c == "quit") break;
			else pj::Ev("Error").s("what", "bad command " + line).emit();
		}
		catch (std::exception& e)
		{
			g_virtual = false;
			pj::Ev("Exc").s("cmd", c).s("what", e.what()).emit();
		}
	}
	fflush(stdout);
	_exit(0);
}
