#!/bin/sh
# Offline setup: build every probe from /repo's working tree into /verif/.build (object cache).
set -e
cd "$(dirname "$0")"
for t in tlc tla-sany java g++ python3; do command -v $t >/dev/null || { echo "missing $t"; exit 1; }; done
python3 lib/prebuild.py
