import sys
m, p = sys.argv[1], sys.argv[2]
s = open(p).read()
i0 = s.index('class uMPMC_Ptr_Queue {'); i1 = s.index('class MSqueue {')
b = s[i0:i1]
def rep(old, new):
    global b
    assert b.count(old) == 1, (old, b.count(old))
    b = b.replace(old, new)
if m == 'M1':   # publish before the sub-queue push (swapped order)
    a = '#ifdef FIX8_VERIF\n        FIX8_VERIF_YIELD("push.subpush");\n#endif\n        ((uSWSR_Ptr_Buffer*)(buf[idx]))->push(data); // cannot fail\n'
    c = '#ifdef FIX8_VERIF\n        FIX8_VERIF_YIELD("push.publish");\n#endif\n        atomic_long_set(&seqP[idx],(pw+mask+1));\n'
    rep(a + c, c + a)
elif m == 'M2': # off-by-one in the "published?" test of pop
    rep('if (atomic_long_read(&seqP[idx]) <= (unsigned long)seq) return false;', 'if (atomic_long_read(&seqP[idx]) < (unsigned long)seq) return false;')
elif m == 'M3': # off-by-one in the consumer's release
    rep('atomic_long_set(&seqC[idx],(pr+mask+1));', 'atomic_long_set(&seqC[idx],(pr+mask));')
elif m == 'M4': # dropped check: producer does not wait for its slot's turn
    rep('            if (pw == seq) {\n#ifdef FIX8_VERIF\n                FIX8_VERIF_YIELD("push.cas");', '            if (true) {\n#ifdef FIX8_VERIF\n                FIX8_VERIF_YIELD("push.cas");')
open(p, 'w').write(s[:i0] + b + s[i1:])
