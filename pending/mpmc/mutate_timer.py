import sys
m, p = sys.argv[1], sys.argv[2]
s = open(p).read()
def rep(old, new):
    global s
    assert s.count(old) == 1, (old, s.count(old))
    s = s.replace(old, new)
if m == 'T1':   # fires one polling interval early
    rep('if (op._t <= now)  // has elapsed', 'if (op._t.get_ticks() <= now.get_ticks() + _granularity * Tickval::million)  // has elapsed')
elif m == 'T2': # queue ordered the wrong way round
    rep('{ return _t > right._t; };', '{ return _t < right._t; };')
elif m == 'T3': # repeat interval counted from the due time instead of from the run
    rep('op._t = now.get_ticks() + op._intervalMS * Tickval::million;', 'op._t = op._t.get_ticks() + op._intervalMS * Tickval::million;')
elif m == 'T4': # clear leaves one event behind
    rep('\twhile (_event_queue.size())\n\t{\n\t\t++result;', '\twhile (_event_queue.size() > 1)\n\t{\n\t\t++result;')
open(p, 'w').write(s)
