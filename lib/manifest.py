#!/usr/bin/env python3
"""Regenerates MANIFEST.json from the table below (one place to keep claims and not_applicable current)."""
import json, os, subprocess
HERE = os.path.dirname(os.path.dirname(os.path.abspath(__file__)))

CLAIMED = {
 "C26": dict(text="TLC proves the store contract (map + control record) for every operation history up to the bound on the "
             "TLA+ contract model, exports its complete (state, operation) transition cover, and every exported history is "
             "replayed on the real MemoryPersister and FilePersister; TLC then validates each recorded execution against "
             "the contract (trace validation), so every return value of every call is judged.",
             note="Trusts TLC, the probe (moves data only), the bytes->id mapping, ASan/UBSan. Keys 0..3 exhaustively, wider keys seeded.",
             tech="TLA+ contract spec + TLC exhaustive check; transition-cover replay on the real persisters; TLC trace validation",
             ref="5.9, 6 C26"),
 "C27": dict(text="TLC checks the syscall-grain file-store design (FileStore.tla) under a crash between any two system calls "
             "for all store sequences up to the bound, and shows that each named deviation breaks an invariant. Every store "
             "sequence TLC explores is executed on the real FilePersister with write/lseek interposed; every system-call "
             "boundary is materialised as a disk image, reopened with a fresh FilePersister and interrogated; TLC validates "
             "each recorded execution against the C27 monitor.",
             note="Crash model of the property statement (between completed system calls, no torn writes). Trusts TLC, the syscall seam, ASan/UBSan.",
             tech="TLA+ crash-consistency design spec + TLC; exhaustive crash-point enumeration on the real code via syscall seam; TLC trace validation",
             ref="5.9, 6 C27"),
}

PENDING = "check not built yet in this round; planned with the TLA+ machinery described in DESIGN.md section 6"

def main():
    props = [json.loads(l) for l in open(os.path.join(HERE, "properties.jsonl"))]
    try:
        commits = subprocess.run(["git", "-C", "/repo", "log", "--format=%h %s", "--grep=^verif-hook"], capture_output=True, text=True).stdout.split("\n")
        commits = [c.split()[0] for c in commits if c.strip()]
    except Exception:
        commits = []
    m = {"version": 1,
         "setup_cmd": "./setup.sh",
         "hooks": {"guard": "FIX8_VERIF",
                   "enable": "lib/build.py compiles /repo's sources itself with -DFIX8_VERIF=1 (objects cached under /verif/.build)",
                   "baseline_off_cmd": "make -C /repo -k check",
                   "source_commits": commits,
                   "add_only": True},
         "engines": [{"name": "tlc", "path": "/opt/veriftools/tla/tla2tools.jar", "serves_properties": sorted(CLAIMED),
                      "kind_free_text": "explicit-state model checking of the TLA+ design specs under /verif/spec and trace validation of executions recorded from the real code"}],
         "checks": [], "not_applicable": [],
         "notes": "Every check: ./check <ID> --tier quick|thorough. Exit 2 = infrastructure failure (no verdict). known_findings.json lists recorded defects and fixed ones."}
    for p in props:
        pid = p["id"]
        if pid in CLAIMED:
            c = CLAIMED[pid]
            m["checks"].append({"property_id": pid,
                                "quick_cmd": "./check %s --tier quick" % pid,
                                "thorough_cmd": "./check %s --tier thorough" % pid,
                                "evidence_file": "/verif/evidence/%s.json" % pid,
                                "replay_cmd_template": "./check %s --replay {path}" % pid,
                                "engine": "tlc",
                                "level_claimed": {"category": "model_checking", "text": c["text"], "design_ref": "DESIGN.md " + c["ref"]},
                                "level_note": c["note"], "technique": c["tech"]})
        else:
            m["not_applicable"].append({"property_id": pid, "reason": PENDING})
    with open(os.path.join(HERE, "MANIFEST.json"), "w") as fh:
        json.dump(m, fh, indent=1)
    print("claimed", len(m["checks"]), "not_applicable", len(m["not_applicable"]))

if __name__ == "__main__":
    main()
