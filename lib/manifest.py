#!/usr/bin/env python3
"""Regenerates MANIFEST.json from the table below (one place to keep claims and not_applicable current)."""
import json, os, re, subprocess
HERE = os.path.dirname(os.path.dirname(os.path.abspath(__file__)))

import importlib, sys
sys.path.insert(0, os.path.join(HERE, "lib"))


def claimed():
    """Every lib/props/cNN.py that defines MANIFEST = dict(text, note, tech, ref) is a claimed check."""
    out = {}
    ready = set(open(os.path.join(HERE, "ready.txt")).read().split())   # checks reviewed and passing on the unchanged tree
    for f in sorted(os.listdir(os.path.join(HERE, "lib", "props"))):
        m = re.fullmatch(r"(c\d+)\.py", f)
        if not m:
            continue
        mod = importlib.import_module("props." + m.group(1))
        if getattr(mod, "MANIFEST", None) and m.group(1).upper() in ready:
            out[m.group(1).upper()] = mod.MANIFEST
    return out


PENDING = "check not built yet in this round; planned with the TLA+ machinery described in DESIGN.md section 6"

def main():
    CLAIMED = claimed()
    na = json.load(open(os.path.join(HERE, "not_applicable.json")))
    props = [json.loads(l) for l in open(os.path.join(HERE, "properties.jsonl"))]
    try:
        commits = subprocess.run(["git", "-C", "/repo", "log", "--format=%h %s", "--grep=^verif-hook"], capture_output=True, text=True).stdout.split("\n")
        commits = [c.split()[0] for c in commits if c.strip()]
    except Exception:
        commits = []
    m = {"version": 1,
         "setup_cmd": "./setup.sh",
         "hooks": {"guard": "FIX8_VERIF",
                   "enable": "lib/build.py compiles /repo's sources itself with -DFIX8_VERIF=1 (objects cached under /verif/.build)",
                   "baseline_off_cmd": "make -C /repo -k check",
                   "source_commits": commits,
                   "add_only": True},
         "engines": [{"name": "tlc", "path": "/opt/veriftools/tla/tla2tools.jar", "serves_properties": sorted(CLAIMED),
                      "kind_free_text": "explicit-state model checking of the TLA+ design specs under /verif/spec and trace validation of executions recorded from the real code"}],
         "checks": [], "not_applicable": [],
         "notes": "Every check: ./check <ID> --tier quick|thorough. Exit 2 = infrastructure failure (no verdict). known_findings.json lists recorded defects and fixed ones."}
    for p in props:
        pid = p["id"]
        if pid in CLAIMED:
            c = CLAIMED[pid]
            m["checks"].append({"property_id": pid,
                                "quick_cmd": "./check %s --tier quick" % pid,
                                "thorough_cmd": "./check %s --tier thorough" % pid,
                                "evidence_file": "/verif/evidence/%s.json" % pid,
                                "replay_cmd_template": "./check %s --replay {path}" % pid,
                                "engine": "tlc",
                                "level_claimed": {"category": "model_checking", "text": c["text"], "design_ref": "DESIGN.md " + c["ref"]},
                                "level_note": c["note"], "technique": c["tech"]})
        else:
            m["not_applicable"].append({"property_id": pid, "reason": na.get(pid, PENDING)})
    with open(os.path.join(HERE, "MANIFEST.json"), "w") as fh:
        json.dump(m, fh, indent=1)
    print("claimed", len(m["checks"]), "not_applicable", len(m["not_applicable"]))

if __name__ == "__main__":
    main()
