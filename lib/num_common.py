"""Shared driver pieces for C07/C08/C09 (probe_num): run command lists on the real code in parallel
probe processes, survive sanitizer aborts command by command, and a few exact conversions between
Python values and the small-integer representations the TLA+ monitors read."""
import os
import re
from concurrent.futures import ThreadPoolExecutor
from fractions import Fraction

import build
import core
import tlc

PROBE = ("probe_num", "asan", ["f8utils.cpp", "modp_numtoa.c"], [])
# the word-at-a-time checksum loads uint32 from unaligned addresses by design; alignment is not part of
# any property here and lib/build.py's asan variant already carries -fno-sanitize=alignment, so the probe
# needs no extra flags (and is the same binary lib/prebuild.py builds from PROBES)
DEFINES = []


def probe_binary():
    return build.probe(PROBE[0], PROBE[1], runtime=PROBE[2], schemas=PROBE[3], defines=DEFINES)


_SAN = [("heap-buffer-overflow", "heap-buffer-overflow"), ("use-after-poison", "read of poisoned byte"),
        ("stack-buffer-overflow", "stack-buffer-overflow"), ("global-buffer-overflow", "global-buffer-overflow"),
        ("signed integer overflow", "signed integer overflow"), ("left shift of negative", "left shift of negative value"),
        ("left shift of", "shift overflow"), ("outside the range of representable", "float cast overflow"),
        ("SEGV", "segv"), ("runtime error", "undefined behaviour")]


def san_tag(err):
    for key, tag in _SAN:
        if key in err:
            m = re.search(r"(\S+\.(?:hpp|cpp|c|h)):(\d+)", err[err.find(key) - 300 if err.find(key) > 300 else 0:])
            return tag + (" at %s:%s" % (os.path.basename(m.group(1)), m.group(2)) if m else "")
    return "abnormal exit"


def run_commands(ctx, cmds, nproc=8, env_extra=None, timeout=900):
    """cmds: list of command strings (one event each).  Returns a list aligned with cmds of event dicts;
    a command on which the real code was stopped by a sanitizer (twice in a row: the probe retries it
    alone before believing it) yields {"abort": True, "san": tag, "stderr": head of the report}."""
    binary = probe_binary()
    env = build.run_env()
    env["TZ"] = "UTC"
    # no symbolizer: a sanitizer report costs milliseconds instead of a second (UBSan still names file:line)
    env["ASAN_OPTIONS"] += ":symbolize=0"
    env["UBSAN_OPTIONS"] = "print_stacktrace=0:halt_on_error=1:exitcode=97:symbolize=0"
    if env_extra:
        env.update(env_extra)
    n = len(cmds)
    nproc = max(1, min(nproc, (n + 199) // 200))
    bounds = [(i * n // nproc, (i + 1) * n // nproc) for i in range(nproc)]

    def one(i):
        lo, hi = bounds[i]
        evs, rc, err = core.run_probe(binary, "\n".join(cmds[lo:hi]) + "\n", env, timeout=timeout)
        if rc != 0:
            raise core.Infra("probe_num exit %d: %s" % (rc, err[-800:]))
        reports = {}
        if "@@" in err:
            prev = 0
            for m in re.finditer(r"\n@@(FIRST|ABORT|TRANSIENT) idx=(\d+)[^\n]*\n", err):
                if m.group(1) == "ABORT":
                    reports[int(m.group(2))] = err[prev:m.start()]
                if m.group(1) == "TRANSIENT":
                    ctx.extra["transient_probe_aborts"] = ctx.extra.get("transient_probe_aborts", 0) + 1
                prev = m.end()
        out = []
        for e in evs:
            if e["e"] in ("Error", "Terminate"):
                raise core.Infra("probe_num: %s" % e)
            if e["e"] == "Abort":
                if e["idx"] != len(out):
                    raise core.Infra("probe_num lost step with its commands at %d/%d" % (e["idx"], len(out)))
                rep = reports.get(e["idx"], "")
                out.append({"abort": True, "san": san_tag(rep), "rc": e["rc"], "aux": e.get("aux"), "stderr": core.san_report(rep, 1500)})
            elif e["e"] == "Truncated":
                if e["idx"] != len(out):
                    raise core.Infra("probe_num lost step with its commands at %d/%d" % (e["idx"], len(out)))
                ctx.extra["not_judged_after_abort_cap"] = ctx.extra.get("not_judged_after_abort_cap", 0) + (hi - lo - len(out))
                out += [{"skipped": True}] * (hi - lo - len(out))
            else:
                out.append(e)
        if len(out) != hi - lo:
            raise core.Infra("probe_num answered %d of %d commands" % (len(out), hi - lo))
        return out
    with ThreadPoolExecutor(max_workers=nproc) as ex:
        parts = list(ex.map(one, range(nproc)))
    return [e for p in parts for e in p]


def guard_truncation(ctx):
    """Call at the end of run(): a run that was cut short by the abort cap must not be reported clean."""
    k = ctx.extra.get("not_judged_after_abort_cap", 0)
    if k and all(ctx._match(f) is not None for f in ctx.failures):
        raise core.Infra("%d calls were not executed because the probe kept aborting on listed findings" % k)


def judge(ctx, module, execs, name, chunks=8, heap="3g", batch=600):
    """Hand executions (lists of monitor events, first a Reset) to a TLA+ monitor; returns its rejections.
    Large runs are validated `batch` executions at a time (`chunks` TLC processes each) so that no single
    TLC process has to hold more than a few thousand recorded lines."""
    fails = []
    for lo in range(0, len(execs), batch):
        part = execs[lo:lo + batch]
        fs, labels, info = tlc.validate_execs(module + ".tla", module + ".cfg", part, ctx.workdir, name,
                                              chunks=chunks, heap=heap)
        ctx.add_validation(info, len(part))
        for f in fs:
            f["exec"] += lo
        fails += fs
        for lab, n in labels.items():
            ctx.extra.setdefault("design_labels", {})
            ctx.extra["design_labels"][lab] = ctx.extra["design_labels"].get(lab, 0) + n
    return fails


def model_runs(ctx, runs, workers_each=2, parallel=4):
    """runs: list of (module, cfg, expect) with expect None (must hold) or the name of the invariant that
    must be violated (vacuity guard / deviation witness).  Executed `parallel` at a time."""
    def one(r):
        module, cfg, expect = r[:3]
        return tlc.check(module, cfg, workers=workers_each, timeout=3000, heap="6g")
    with ThreadPoolExecutor(max_workers=parallel) as ex:
        results = list(ex.map(one, runs))
    for (module, cfg, expect, props), res in zip(runs, results):
        if expect is None:
            if not res["ok"]:
                raise core.Infra("design spec %s/%s violates %s: the model is wrong\n%s" % (module, cfg, res["violated"], res["out"][-1500:]))
            ctx.add_model(res, module, cfg, props)
        else:
            if res["ok"] or res["violated"] != expect:
                raise core.Infra("%s/%s should violate %s but gave %s: the invariant is vacuous" % (module, cfg, expect, res["violated"]))
            ctx.extra.setdefault("deviation_witnesses", {})[cfg] = res["violated"]
    return results


# ---- checksum buffers -------------------------------------------------------------------------------
def pat_byte(pat, seed, i):
    """Mirror of PatByte in spec/Chksum.tla."""
    if pat == "ff":
        return 255
    if pat == "alt":
        return 255 if i % 2 == 0 else 1
    if pat == "hi":
        return 128
    if pat == "ramp":
        return (i + seed) % 256
    if pat == "mix":
        return ((i * i * 31 + i * (seed * 17 + 5) + seed * 101) // 7) % 256
    raise KeyError(pat)


def src_bytes(src):
    if src["kind"] == "lit":
        return bytes(src["bytes"])
    return bytes(pat_byte(src["pat"], src["seed"], i) for i in range(src["sz"]))


# ---- exact view of an IEEE double for the monitors --------------------------------------------------
LIMB = 4096     # fraction limbs are base 2^12 digits (12 bits), most significant first


def double_parts(x):
    """x (finite float) -> dict(neg, w, limbs): |x| = w + sum(limbs[i] / 4096^(i+1)) exactly; w must fit
    31 bits (callers keep |x| < 2^31).  neg is the sign bit (so -0.0 is neg)."""
    import math
    neg = math.copysign(1.0, x) < 0
    fr = Fraction(abs(x))
    w = fr.numerator // fr.denominator
    f = fr - w
    limbs = []
    while f:
        f *= LIMB
        d = f.numerator // f.denominator
        limbs.append(d)
        f -= d
    return {"neg": neg, "w": w, "limbs": limbs}


def bits_of(x):
    import struct
    return "%016x" % struct.unpack("<Q", struct.pack("<d", x))[0]


def from_bits(h):
    import struct
    return struct.unpack("<d", struct.pack("<Q", int(h, 16)))[0]
