#!/bin/sh
# mkrepo.sh <dir>: a scratch git worktree of /repo (HEAD) with the two generated config headers copied
# in, usable with VERIF_REPO=<dir> ./check ...   Remove with: git -C /repo worktree remove --force <dir>
set -e
git -C /repo worktree add --detach "$1" HEAD >/dev/null
cp /repo/include/fix8/f8config.h "$1/include/fix8/f8config.h"
cp /repo/intermediate_config.h "$1/intermediate_config.h"
echo "$1"
