"""C10 Enumerated-value lookups describe only the actual value (DESIGN.md 5.3, 6 C10; spec/Realm.tla,
MC_Realm.tla, T_Realm.tla; harness/src/probe_tab.cpp)."""
import os
import random

import core
import schema
import tab_common as tc
import tlc

PROBES = [("probe_tab", "asan", None, ["utest", "fix44"])]

MANIFEST = dict(
    text='TLC checks the transcription of RealmBase::get_rlm_idx / is_valid (std::lower_bound and the test applied to its result, range domains) against set membership, position and range inclusion for every sorted domain and probe value within the bound; each named deviation must break the invariant. Every domain TLC enumerated is instantiated as a real RealmBase over ints, chars, floats and strings (set and range) and probed; every realm of the compiled FIX42UTEST and FIX44 schemas (values and descriptions read from the XML by lib/schema.py) is probed with all 256 chars / all ints in [min-3, max+3] / all strings up to length 3 over its alphabet plus a foreign character and near misses. The probe logs get_rlm_idx, the realm entry and description at that index, is_valid, and what MessageBase::print_field and print show for a field holding the value; TLC validates every recorded answer (trace validation).',
    note='Trusts TLC, probe_tab (moves data only), lib/schema.py, ASan/UBSan. The numeric index is not demanded, only that it leads to the value itself and its description. Negative integer text is not sent through field construction (C08). Realms whose XML enums are not values of the field type (two CHAR fields of FIX44 with two-character enums) are skipped. char is signed (x86-64).',
    tech='TLA+ transcription of the lookup + TLC exhaustive check; TLC-enumerated domains instantiated on the real RealmBase; TLC trace validation against the XML-derived domains',
    ref='5.3, 6 C10')


def models(ctx):
    r = tlc.check("MC_Realm.tla", "MC_Realm_ideal.cfg", workers=4)
    if not r["ok"]:
        raise core.Infra("ideal realm lookup violates %s" % r["violated"])
    ctx.add_model(r, "MC_Realm.tla", "MC_Realm_ideal.cfg", ["C10_Idx", "C10_Valid", "AlgSound"])
    doms = []
    for d in tlc.leaves(r["out"]):
        if d not in doms:
            doms.append(d)
    doms.sort(key=lambda d: (d["dt"], d["dom"]))
    if len(doms) < 50:
        raise core.Infra("domain export produced only %d domains" % len(doms))
    for cfg in ("MC_Realm_lbnoeq.cfg", "MC_Realm_range0.cfg"):
        v = tlc.check("MC_Realm.tla", cfg, workers=2)
        if v["ok"] or v["violated"] != "C10_Idx":
            raise core.Infra("deviation config %s should violate C10_Idx, got %s" % (cfg, v["violated"]))
        ctx.extra.setdefault("deviation_witnesses", {})[cfg] = v["violated"]
    return doms


def abstract(ex, tr):
    return [ex["meta"]["src"]] + [(e["v"], e["idx"], e["valid"], e["fidx"], e["phas"], e["qhas"]) for e in tr[1:]]


def nontrivial(ex, tr):
    return any(e["idx"] >= 0 for e in tr[1:])


def run(ctx):
    tc.probe_binary()
    ctx.tick("build")
    if os.environ.get("VERIF_SELFTEST") == "1" or not ctx.quick:
        selftest(ctx)
    doms = models(ctx)
    ctx.tick("model")
    rng = random.Random(ctx.seed)
    execs = []
    # 1. every domain TLC enumerated, as a real RealmBase of each value type
    for d in doms:
        for kind in "icfs":
            execs.append(tc.synth_realm_exec(kind, d["dt"], d["dom"]))
    nsynth = len(execs)
    # 2. the realms of the compiled schemas
    skipped, nreal = [], {}
    for which in ("utest", "fix44"):
        sch = schema.stock(which)
        used = tc.used_fields(sch)
        realms = sorted((f for f in sch.realms() if f.number in used), key=lambda f: f.number)
        if ctx.quick and which == "fix44":
            # quick tier: a seeded sample of FIX44 (UTEST is taken whole), all of it in the thorough tier
            strs = [f for f in realms if tc.kind_of(f.type) == "s"]
            others = [f for f in realms if tc.kind_of(f.type) != "s"]
            realms = rng.sample(strs, min(3, len(strs))) + rng.sample(others, min(30, len(others)))
        for f in realms:
            ex = tc.stock_realm_exec(which, f, rng, 700 if ctx.quick else 30000)
            if ex is None:
                skipped.append("%s:%d:%s" % (which, f.number, f.name))
            else:
                execs.append(ex)
                nreal[which] = nreal.get(which, 0) + 1
    traces, aborts = tc.run_execs(ctx, execs, "c10", nproc=6)
    ctx.tick("probe")
    tc.judge(ctx, "T_Realm", execs, traces, aborts, "c10", abstract, nontrivial, chunks=8)
    ctx.tick("validate")
    nprobe = sum(len(t) - 1 for t in traces if t)
    ctx.exhaustive = True
    ctx.extra["probe_values"] = nprobe
    ctx.extra["realms"] = {"synthetic": nsynth, **nreal}
    ctx.extra["skipped_realms_xml_enum_not_of_field_type"] = skipped
    ctx.rule = ("%d domains enumerated by TLC x 4 value types instantiated as real RealmBase objects, plus %s realms of the "
                "compiled schemas, %d probe values in all (all 256 chars; ints in [min-3, max+3]; strings up to length 3 over "
                "the realm's alphabet plus a foreign character, members and near misses); each value is looked up through "
                "RealmBase, a constructed field and both printers; distinct = distinct (realm, answers) sequences"
                % (len(doms), nreal, nprobe))
    for i in (0, nsynth, len(execs) - 1):
        if traces[i]:
            ctx.sample({"realm": execs[i]["meta"], "reset": tc._short(traces[i][0], 300), "events": traces[i][1:4]})
    ctx.trusted = ["TLC", "probe_tab (moves data only)", "lib/schema.py (XML reader)", "ASan/UBSan for memory errors",
                   "value coding in lib/tab_common.py (order-preserving ranks)"]
    ctx.assumptions = ["char is a signed type (x86-64 Linux ABI); only the labels and range checks depend on value order",
                       "the printer clauses are judged against the value the constructed field prints as its own value"]


def selftest(ctx):
    """Binding self-test: corrupt one recorded field of a good execution; the monitor must reject."""
    ex = tc.synth_realm_exec("i", "set", [1, 3])
    traces, aborts = tc.run_execs(ctx, [ex], "c10self")
    if aborts or traces[0] is None:
        raise core.Infra("self-test execution did not run")
    good = traces[0]
    member = next(i for i, e in enumerate(good) if e["e"] == "Realm" and e["valid"])
    bad = [dict(e) for e in good]
    bad[member]["desc"] = "SOMETHING_ELSE"
    fails, _, _ = tlc.validate_execs("T_Realm.tla", "T_Realm.cfg", [bad], ctx.workdir, "c10self", chunks=1)
    if not any(f["pos"] == member for f in fails):
        raise core.Infra("self-test: corrupted description not rejected by T_Realm")
    ctx.extra["selftest"] = "corrupted description rejected"
