"""C17 Sent application messages are stored exactly as transmitted (Session.tla, SessionMon.tla C17Step)."""
import random

import session_common as sc
import session_model as sm

PROBES = [("probe_session", "asan", None, ["utest"]), ("probe_session", "plain", None, ["utest"])]

MANIFEST = dict(
    text="TLC checks on the session design that the C17 monitor accepts the ideal design and rejects the deviation "
         "batch_last_stored_empty, and exports the design's transition cover. Each history is executed on the real "
         "Session with a real persister; after every call the monitor compares, for every new application message on "
         "the wire, the persister's record under its MsgSeqNum (length and hash of the bytes) with the bytes read from "
         "the socket, and checks that administrative messages leave no record (TLC trace validation).",
    note="Byte equality is judged through length + 31-bit FNV hash of the wire bytes and of the stored bytes. Trusts TLC, probe, ASan/UBSan.",
    tech="TLA+ session design spec + TLC; transition-cover replay on the real Session; TLC trace validation of store vs wire",
    ref="5.6, 6 C17")


def extras(ctx):
    rng = random.Random(ctx.seed + 17)
    out = []
    for i in range(40 if ctx.quick else 500):
        ex = sc.Exec("C17", role="ini", persist=rng.choice(["mem", "file"]))
        ex.start()
        ex.logon_exchange()
        nid = 1
        for k in range(rng.randint(2, 8)):
            r = rng.random()
            if r < 0.35:
                ex.send(nid); nid += 1
            elif r < 0.75:
                c = rng.randint(2, 6); ex.batch(list(range(nid, nid + c))); nid += c
            elif r < 0.85:
                ex.recv("1", body=[(112, "T%d" % k)])
            else:
                ex.admin("testreq", "Q%d" % k)
        if i % 3 == 0:
            # the counterparty disappears: a send fails on the socket, the session reconnects and sends again
            ex.peerclose()
            if rng.random() < 0.5:
                ex.send(nid); nid += 1
            else:
                ex.batch([nid, nid + 1]); nid += 2
            ex.reconnect()
            ex.peer_seq += 0
            ex.logon_exchange()
            ex.send(nid); nid += 1
            ex.batch([nid, nid + 1]); nid += 2
        out.append(ex)
    return out


def run(ctx):
    hists, execs, traces = sm.run_property(ctx, "C17", ["batch_last_stored_empty"], extras(ctx))
    ctx.rule = ("transition cover of the TLC-explored session design (%d histories) replayed on the real session, plus seeded "
                "single/batch send mixes (batch sizes 2-6) on memory and file persisters" % len(hists))


def replay(ctx, doc):
    sc.replay_case(ctx, doc)
