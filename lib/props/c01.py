"""C01 Message encode/decode round trip preserves every field; re-encode byte-identical
(DESIGN.md 6 C01; spec/Codec.tla, spec/CodecOps.tla, spec/T_Codec.tla, harness/src/probe_codec.cpp)."""
import random

import codec_common as cc
import core

PROBES = [cc.PROBE]

MANIFEST = dict(
    text='TLC proves RoundTrip (decode(encode(m)) = m and byte-identical re-encoding) on the codec design spec for every message shape of a small schema (field subsets x insertion orders x 0-2 group elements x 2 nesting levels) and exports every shape with a build order; the shapes are instantiated on every message type of FIX42UTEST and FIX44 that has the structure, together with mandatory-only, all-optional, random-subset and deepest-nesting messages with values per type class (negative and extreme integers, floats at the field precision, every printable byte, ms timestamps 1970-2099, both MonthYear widths); probe_codec builds each through the metadata API, encodes, decodes with Message::factory and re-encodes; TLC (T_Codec) judges every recorded execution: decoded field tree = the requested tree and bytes2 = bytes1.',
    note='Schema facts and expected trees come from the XML (lib/schema.py), never from the generated tables. Value classes that abort the sanitised library (negative integers, dates after 2038) are tried in isolated canary executions first and are used in the bulk only if they pass. Trusts TLC, the probe (moves data only), the Python tokenizer/hash, ASan/UBSan. Quick tier reuses a cached TLC result of the design model when the spec text is unchanged.',
    tech='TLA+ codec design spec + TLC exhaustive check and shape export; metadata-driven replay on the real codec; TLC trace validation',
    ref='5.1, 6 C01')

DEVS = ["neg_int_parse"]


def run(ctx):
    if ctx.replay:
        return cc.replay(ctx, "C01")
    rng = random.Random(ctx.seed)
    m = cc.model(ctx, "MC_Codec.cfg", ["PositionOrdered", "RoundTrip", "WireWellFormed", "CloneSame", "shape export"], workers=1)
    mneg = cc.model(ctx, "MC_Codec_neg.cfg", ["RoundTrip with a negative integer value", "shape export"], workers=1)
    cc.model(ctx, "MC_Codec_witness.cfg", [], expect_violation=True)
    for d in DEVS:
        cc.model(ctx, "MC_Codec_dev_%s.cfg" % d, [], expect_violation=True)
    ctx.exhaustive = True
    ctx.tick("model")
    if len(m["leaves"]) < 2000:
        raise core.Infra("shape export produced only %d shapes" % len(m["leaves"]))
    ok, ncan = cc.canaries(ctx, rng, "C01", ["neg", "big", "late"])
    q = ctx.quick
    leaves = m["leaves"] + [h for h in mneg["leaves"] if any(o["neg"] for o in h)]
    specs = cc.bulk_specs(ctx, rng, leaves, ok, n_shapes=450 if q else len(leaves),
                          per_type_random=2 if q else 30, n_deep=25 if q else 400, max_count=3 if q else 5)
    specs += cc.length_sweep_specs(rng, q)
    cc.run_and_judge(ctx, specs, "C01", "bulk")
    if not q or __import__("os").environ.get("VERIF_SELFTEST"):
        cc.selftest(ctx, "C01", specs)
    ctx.rule = ("TLC checks Codec.tla exhaustively (%d shapes) and every exported shape history is a replay input; %d "
                "executions on the real codec: %d isolated canaries, then TLC shapes instantiated on random message types "
                "of FIX42UTEST/FIX44 plus per message type mandatory-only, all-optional, random subsets and deepest "
                "nesting; distinct = distinct (message type, tree shape, build order, outcome) tuples" %
                (len(m["leaves"]), len(specs) + ncan, ncan))
    for sp in specs[:2]:
        ctx.sample({"schema": sp.sch, "msgtype": sp.mt, "kind": sp.kind, "commands": cc.commands(sp, "C01")[:40]})
    ctx.trusted = ["TLC", "probe_codec (moves data only)", "lib/schema.py (XML reader)",
                   "tokenizer and SHA-256 digest in lib/codec_common.py", "ASan/UBSan"]
    ctx.assumptions = ["field values are given as the canonical text a correct encoder renders; building goes through "
                       "F8MetaCntx::create_field(text), so a parse defect already shows in the built message",
                       "Length/data pairs carry printable data of the stated length (arbitrary bytes are C06)",
                       "messages are kept below %d bytes (longer ones are C03)" % cc.MAXBYTES,
                       "order of fields inside a container and the derived fields 8/9/35/10 are not part of 'same fields'"]
