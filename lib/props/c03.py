"""C03 Codec is memory-safe and total on arbitrary input (DESIGN.md 5.2, 6 C03; spec/Extract.tla,
spec/T_Decode.tla MonTry)."""
import random

import core
import decode_common as dc
import tlc

PROBES = [dc.PROBE]

MANIFEST = dict(
    text='Extract.tla models the tokenizer and the fixed buffers each caller passes (tag[32]/val[2048]/len[32]/mtype[32] in extract_header, tag[2048]/val[2048] in decode, output[8192+32] in encode). TLC proves WritesInBounds for the bounded design over all boundary length classes and returns the minimal overflowing input for each named deviation. Every input shape TLC explored, structured hostile inputs (truncation at every byte, missing separators, huge group counts, Length fields pointing past the end, malformed fields inside groups, oversize messages) and seeded mutations of valid messages are fed to the real Message::factory (strict and permissive) and Message::encode under ASan+UBSan with a watchdog; TLC validates every outcome: a message or a library/std exception, within the time bound, no sanitizer report.',
    note='Absence of memory errors in code the model does not describe is decided by ASan/UBSan (trusted). -fsanitize=alignment,vptr are off in the build (by-design type punning of Field<T,N>, 4-byte checksum loads).',
    tech='TLA+ buffer/tokenizer spec + TLC; spec-derived boundary inputs + seeded mutation fuzzing of the real decoder/encoder under sanitizers with watchdog; TLC trace validation',
    ref='5.2, 6 C03, 7')

BOUND_MS = 3000


def shape_bytes(shapes, outcome):
    """Input shape sequence of Extract.tla -> bytes of a FIX message with those field shapes."""
    out = b""
    truncated = False
    for i, sh in enumerate(shapes, 1):
        nominal = sh == {"tl": 2, "vl": 3, "eq": True, "soh": True}
        if i == 1:
            tag, val = (b"8", b"FIX.4.2") if nominal else (b"8" * sh["tl"], b"F" * sh["vl"])
        elif i == 2:
            tag, val = (b"9", b"100") if nominal else (b"9" * sh["tl"], b"1" * sh["vl"])
        elif i == 3:
            tag, val = (b"35", b"D") if nominal else ((b"35" + b"5" * max(0, sh["tl"] - 2))[:sh["tl"]], b"D" * sh["vl"])
        else:
            tag, val = (b"58", b"abc") if nominal else (b"5" * sh["tl"], b"v" * sh["vl"])
        out += tag
        if not sh["eq"]:
            truncated = True
            break
        out += b"=" + val
        if not sh["soh"]:
            truncated = True
            break
        out += dc.SOH
    if not truncated:
        out += b"11=a\x0121=1\x0155=X\x0154=1\x0160=20240101-00:00:00.000\x0140=1\x0110=000\x01"
    return out


def valid_messages(rng, n):
    out = []
    for w in dc.SCHEMAS:
        s = dc.stock(w)
        mts = list(s.bytype)
        for j in range(n):
            mt = mts[rng.randrange(len(mts))]
            h, b, t = dc.gen_message(s, mt, rng)
            data, _, _ = dc.compose2(s.beginstring, mt, dc.flatten_nodes(h) + dc.flatten_nodes(b) + dc.flatten_nodes(t), "Cok")
            out.append((w, data))
    return out


def structured(rng):
    """Hostile inputs by construction: (label, schema, bytes)."""
    out = []
    s = dc.stock("utest")
    base, _, _ = dc.compose2("FIX.4.2", "D", [(b"49", b"A"), (b"56", b"B"), (b"34", b"1"), (b"52", b"20240101-00:00:00.000"),
                                             (b"11", b"id"), (b"21", b"1"), (b"55", b"X"), (b"54", b"1"),
                                             (b"60", b"20240101-00:00:00.000"), (b"40", b"1"), (b"78", b"2"), (b"79", b"a1"), (b"80", b"5"),
                                             (b"79", b"a2"), (b"80", b"6"), (b"354", b"3"), (b"355", b"abc"), (b"58", b"t")], "Cok")
    for k in range(0, len(base) + 1):
        out.append(("truncate", "utest", base[:k]))
    for k in range(1, 40):
        out.append(("drop_prefix", "utest", base[k:]))
    out.append(("empty", "utest", b""))
    out.append(("digits8k", "utest", b"8" * 8192))
    out.append(("digits8k_eq", "utest", b"8=" + b"1" * 8190))
    out.append(("soh_only", "utest", dc.SOH * 100))
    out.append(("eq_only", "utest", b"=" * 100))
    out.append(("nul", "utest", b"\x00" * 64))

    def msg(mt, toks, w="utest", begin="FIX.4.2"):
        return dc.compose2(begin, mt, [(b"49", b"A"), (b"56", b"B"), (b"34", b"1"), (b"52", b"20240101-00:00:00.000")] + toks, "Cok")[0]
    nos = [(b"11", b"id"), (b"21", b"1"), (b"55", b"X"), (b"54", b"1"), (b"60", b"20240101-00:00:00.000"), (b"40", b"1")]
    for cnt in (b"0", b"1", b"3", b"999999999", b"2147483647", b"2147483648", b"4294967295", b"4294967296", b"-1", b"99999999999999999999"):
        out.append(("group_count", "utest", msg("D", nos + [(b"78", cnt), (b"79", b"a"), (b"80", b"1")])))
        out.append(("group_count_no_elems", "utest", msg("D", nos + [(b"78", cnt)])))
    for ln in (b"0", b"1", b"3", b"4", b"100", b"2046", b"2047", b"2048", b"2049", b"65535", b"4294967295", b"4294967297", b"-5"):
        out.append(("length_past_end", "utest", msg("D", nos + [(b"354", ln), (b"355", b"abc"), (b"58", b"t")])))
        out.append(("length_last", "utest", msg("D", nos + [(b"354", ln)])))
        out.append(("length_in_trailer", "utest", msg("D", nos + [(b"93", ln), (b"89", b"abc")])))
    for n in (2046, 2047, 2048, 2049, 4000):
        out.append(("big_value", "utest", msg("D", nos + [(b"58", b"v" * n)])))
        out.append(("big_data", "utest", msg("D", nos + [(b"354", str(n).encode()), (b"355", b"d" * n)])))
        out.append(("big_tag", "utest", msg("D", nos + [(b"5" * n, b"v")])))
        out.append(("big_tag_after_length", "utest", msg("D", nos + [(b"354", b"1"), (b"3" * n, b"v")])))
        out.append(("big_value_in_group", "utest", msg("D", nos + [(b"78", b"1"), (b"79", b"a" * n)])))
        out.append(("big_tag_in_group", "utest", msg("D", nos + [(b"78", b"1"), (b"79", b"a"), (b"8" * n, b"1")])))
    # malformed fields inside a repeating group
    for bad in (b"cd", b"=x", b"12", b"12x=3", b"\x00", b"80"):
        out.append(("malformed_in_group", "utest", dc.compose2("FIX.4.2", "D", [(b"49", b"A"), (b"56", b"B"), (b"34", b"1"),
                    (b"52", b"20240101-00:00:00.000")] + nos + [(b"78", b"2"), (b"79", b"a" + dc.SOH + bad), (b"80", b"1")], "Cok")[0]))
        out.append(("malformed_in_body", "utest", msg("D", nos + [(b"58", b"a" + dc.SOH + bad), (b"80", b"1")])))
    # oversize but well-formed: many medium fields (decode, then the probe re-encodes)
    for total in (8000, 8150, 8190, 8300, 12000, 40000):
        k = total // 110
        out.append(("oversize_message", "utest", msg("B", [(b"148", b"h"), (b"33", str(k).encode())] + [(b"58", b"L" * 100)] * k)))
    # deep nesting / many elements
    out.append(("many_elements", "utest", msg("D", nos + [(b"78", b"500")] + [(b"79", b"a"), (b"80", b"1")] * 500)))
    for w, data in valid_messages(rng, 3):
        out.append(("valid", w, data))
    return out


def mutations(rng, n):
    pool = valid_messages(rng, 12)
    out = []
    for i in range(n):
        w, data = pool[rng.randrange(len(pool))]
        b = bytearray(data)
        for _ in range(rng.choice([1, 1, 2, 4])):
            k = rng.randrange(8)
            p = rng.randrange(len(b)) if b else 0
            if k == 0 and b:
                b[p] = rng.randrange(256)
            elif k == 1 and b:
                b[p] = rng.choice(b"\x01=0123456789")
            elif k == 2 and b:
                del b[p:p + rng.choice([1, 2, 5, 20])]
            elif k == 3:
                b[p:p] = bytes(rng.choice([b"\x01", b"=", b"1", b"10=", b"9=", b"\x00"]))
            elif k == 4 and b:
                q = rng.randrange(len(b))
                lo, hi = min(p, q), max(p, q)
                b[hi:hi] = b[lo:hi][:300]
            elif k == 5 and b:
                b[p:p] = rng.choice([b"1", b"9", b"A"]) * rng.choice([30, 31, 32, 33, 100, 2047, 2048, 2100])
            elif k == 6 and b:
                del b[p:]
            elif k == 7 and b:
                # keep the trailer plausible after a change
                body = bytes(b[:-7])
                b = bytearray(body + b"10=%03d\x01" % (sum(body) % 256))
        out.append(("mutation", w, bytes(b)))
    return out


def facts(data):
    pieces = data.split(dc.SOH)

    def tl(p):
        n = 0
        while n < len(p) and 48 <= p[n] <= 57:
            n += 1
        return n

    def vl(p):
        i = p.find(b"=")
        return len(p) - i - 1 if i >= 0 else 0
    first = pieces[:3]
    rest = pieces[3:]
    return {"tag3": max([tl(p) for p in first] or [0]), "val23": max([vl(p) for p in first[1:3]] or [0]),
            "tagmax": max([tl(p) for p in rest] or [0]), "valmax": max([vl(p) for p in rest] + [vl(first[0]) if first else 0] or [0]),
            "enclen": len(data)}


def run(ctx):
    jobs = [("MC_Extract_bounded.cfg", None), ("MC_Extract_tag.cfg", "WritesInBounds"), ("MC_Extract_val.cfg", "WritesInBounds"),
            ("MC_Extract_enc.cfg", "WritesInBounds"), ("MC_Extract_witness.cfg", "Reach_BigValueAccepted")]
    from concurrent.futures import ThreadPoolExecutor
    with ThreadPoolExecutor(max_workers=3) as ex:
        res = list(ex.map(lambda j: tlc.check("Extract.tla", j[0], workers=2, timeout=900), jobs))
    shapes = None
    for (cfg, want), r in zip(jobs, res):
        if want is None:
            if not r["ok"]:
                raise core.Infra("bounded extraction design violates %s" % r["violated"])
            ctx.add_model(r, "Extract.tla", cfg, ["WritesInBounds"])
            shapes = sorted(tlc.leaves(r["out"]), key=lambda x: __import__("json").dumps(x, sort_keys=True))
        elif r["ok"]:
            raise core.Infra("%s violates nothing: WritesInBounds is vacuous" % cfg)
        else:
            ctx.extra.setdefault("deviation_witnesses", {})[cfg] = r["violated"]
    if not shapes or len(shapes) < 300:
        raise core.Infra("shape export produced %d inputs" % len(shapes or []))
    ctx.exhaustive = True
    ctx.tick("model")
    rng = random.Random(ctx.seed)
    inputs = []            # (label, schema, kind, payload)
    for lf in shapes:
        if lf["input"] and "enc" in lf["input"][0]:
            inputs.append(("enc_shape", "utest", "enc", lf["input"][0]["enc"]))
        elif lf["input"]:
            inputs.append(("shape", "utest", "dec", shape_bytes(lf["input"], lf["outcome"])))
    for lab, w, data in structured(rng) + mutations(rng, 700 if ctx.quick else 8000):
        inputs.append((lab, w, "dec", data))
    for n in (50, 2000, 2047, 2048, 5000, 8000, 8100, 8150, 8200, 9000, 20000):
        inputs.append(("enc_long_value", "utest", "enc1", n))
    cmds, meta = [], []
    s = dc.stock("utest")
    for n, (lab, w, kind, payload) in enumerate(inputs):
        i = "t%d" % n
        if kind == "dec":
            mode = "p" if n % 3 == 2 else "s"
            cmds.append((i, dc.dec_cmd(i, w, mode, 1 if n % 5 == 4 else 0, payload)))
            meta.append(facts(payload))
        else:
            hdr = [(49, b"A", None), (56, b"B", None), (34, b"1", None), (52, b"20240101-00:00:00.000", None)]
            fixed = len(dc.wire([(b"35", b"B")] + dc.flatten_nodes(hdr) + [(b"148", b"h"), (b"33", b"100")]))
            if kind == "enc":
                # News with k lines of text: header + body take `payload` bytes in total
                k = max(1, (payload - fixed) // 106)
                lines = [[(58, b"L" * 100, None)] for _ in range(k)]
                rest = payload - fixed - k * 106 + 100
                if rest >= 0:
                    lines[-1] = [(58, b"L" * rest, None)]
                body = [(148, b"h", None), (33, str(k).encode(), lines)]
            else:
                body = [(148, b"H" * payload, None), (33, b"1", [[(58, b"x", None)]])]
            cmds.append((i, dc.enc_cmd(i, "utest", "B", hdr, body, [], decode=False)))
            ln = len(dc.wire([(b"35", b"B")] + dc.flatten_nodes(hdr) + dc.flatten_nodes(body)))
            meta.append({"tag3": 0, "val23": 0, "tagmax": 0, "valmax": 0, "enclen": ln})
    res = dc.run_cmds(ctx, cmds, limit_ms=BOUND_MS * 2)
    ctx.tick("probe")
    execs = []
    for n, (lab, w, kind, payload) in enumerate(inputs):
        evs = res.get("t%d" % n) or []
        ab = next((e for e in evs if e["e"] == "Abort"), None)
        main = next((e for e in evs if e["e"] in ("Decode", "Encode")), None)
        san = "none"
        if ab is not None:
            rc, ms = "abort:" + ab["how"], 0
            if ab["how"] == "sanitizer":
                san = "%s:%s" % dc.san_kind(ab.get("report", ""))
        elif main is None:
            rc, ms = "lost", 0
        else:
            ok = main.get("res") == "ok" and main.get("b_res", "ok") == "ok" and main.get("re_res", "ok") in ("ok", "f8exc", "stdexc")
            exc = main.get("res") in ("f8exc", "stdexc") or main.get("b_res") in ("f8exc", "stdexc")
            rc = "ok" if ok else ("exc" if exc else "otherexc")
            ms = (main.get("us", 0) + main.get("re_us", 0) + main.get("b_us", 0)) // 1000
        execs.append([{"e": "Reset", "prop": "C03", "schema": w},
                      {"e": "Try", "kind": "dec" if kind == "dec" else "enc", "res": rc, "ms": ms, "bound": BOUND_MS, "f": meta[n], "label": lab, "san": san}])
    if ctx.extra.get("selftest"):
        return execs
    fails, labels, info = dc.validate(ctx, execs, "c03")
    ctx.add_validation(info, len(execs))
    ctx.tick("validate")
    for n, ex in enumerate(execs):
        ctx.case([inputs[n][0], inputs[n][2], ex[1]["res"], sorted(ex[1]["f"].items()) if inputs[n][0] != "mutation" else n], nontrivial=True)
    hist, seen = {}, set()
    for f in fails:
        key = f["sig"] + " <" + inputs[f["exec"]][0] + ">"
        hist[key] = hist.get(key, 0) + 1
    ctx.extra["monitor_rejections"] = hist
    for f in fails:
        n = f["exec"]
        key = (f["sig"], inputs[n][0])
        if key in seen:
            ctx.fail(f["sig"], f["why"], {"label": inputs[n][0], "see": "first execution with this signature and input class"})
            continue
        seen.add(key)
        evs = res.get("t%d" % n) or []
        ab = next((e for e in evs if e["e"] == "Abort"), {})
        payload = inputs[n][3]
        ctx.fail(f["sig"], f["why"], {"label": inputs[n][0], "schema": inputs[n][1], "facts": meta[n],
                                      "input_hex": payload.hex()[:20000] if isinstance(payload, bytes) else payload,
                                      "sanitizer_report": ab.get("report", "")[:2500],
                                      "replay": "probe_decode: " + cmds[n][1][:20000]})
    outc = {}
    for ex in execs:
        outc[ex[1]["res"]] = outc.get(ex[1]["res"], 0) + 1
    ctx.extra["outcomes"] = outc
    ctx.rule = ("%d inputs: %d field-shape sequences explored by TLC on Extract.tla (every capacity -1/0/+1, missing '='/SOH), "
                "structured hostile inputs (truncation at every byte of a message with a group and a data field, huge counts, lengths "
                "past the end, malformed fields in groups, oversize messages) and seeded mutations of valid messages of both schemas, "
                "strict and permissive; encode of messages round the output buffer size; distinct = distinct (class, lengths, outcome)"
                % (len(execs), len(shapes)))
    for n in (0, len(execs) // 2, len(execs) - 1):
        ctx.sample({"label": inputs[n][0], "facts": meta[n], "outcome": execs[n][1]["res"], "ms": execs[n][1]["ms"]})
    ctx.trusted = ["TLC", "ASan/UBSan (memory errors in code the model does not describe)", "probe_decode watchdog",
                   "lib/decode_common.py length facts"]
    ctx.assumptions = ["inputs up to 40 KB; the session reader's own length limit is C15's subject"]


def selftest(ctx):
    ctx.extra["selftest"] = True
    execs = run(ctx)[:50]
    good = next(i for i, ex in enumerate(execs) if ex[1]["res"] in ("ok", "exc"))
    execs[good][1]["res"] = "abort:sanitizer"
    after, _, _ = dc.validate(ctx, execs, "c03self1")
    return any(f["exec"] == good for f in after)
