"""C21 Two fix8 sessions deliver every application message across failures (spec/Pair.tla, SessionMon.tla C21Step)."""
import json
import os
import random
import shutil
from concurrent.futures import ThreadPoolExecutor

import core
import fixmsg as F
import session_common as sc
import tlc

PROBES = [("probe_session", "asan", None, ["utest"]), ("probe_session", "plain", None, ["utest"])]

MANIFEST = dict(
    text="TLC checks on Pair.tla (initiator || acceptor, each with the send side and the receive side of the session design, "
         "joined by two FIFO queues the environment controls: sends on both sides, message-by-message delivery in any "
         "interleaving, connection drops losing everything in flight, reconnects, process restarts with recovered numbers) "
         "that the ideal design never terminates, delivers everything at least once, first deliveries in send order, "
         "re-deliveries flagged PossDup; each code deviation breaks an invariant. Every explored history is exported and "
         "replayed on two real Sessions (initiator and acceptor, file persisters) in one process: the driver is the network "
         "and moves the bytes each session really wrote, one message per Deliver step, in the interleaving TLC chose; the "
         "TLA+ monitor judges both sides' deliveries and terminations.",
    note="Acceptor side: a new Session object per connection on the same FilePersister files (what a fix8 server does); "
         "initiator side: same object, new Connection (ReliableClientSession), or new objects after a Restart. The unchanged "
         "tree fails through the recorded findings (taint attribution as in C20).",
    tech="TLA+ two-session spec + TLC; exported interleavings replayed on two real sessions with the driver as network; TLC trace validation",
    ref="5.6, 6 C21")

NAMES = {"a": ("ini", "INI", "ACC"), "b": ("acc", "ACC", "INI")}


def indesc(wire):
    d = F.parse(wire)
    snd = F.epoch(d["52"]) if "52" in d else sc.T0
    return {"type": d.get("35", ""), "seq": int(d.get("34", 0)), "possdup": d.get("43") == "Y", "has_orig": "122" in d,
            "orig": (F.epoch(d["122"]) - sc.T0) if "122" in d else 0, "sending": snd - sc.T0, "sci": d.get("49", ""),
            "tci": d.get("56", ""), "id": sc.idnum(d.get("11", "")), "valid": True, "why": "", "hbint": int(d.get("108", 0)),
            "reset": d.get("141") == "Y", "testreqid": d.get("112", ""), "begin": int(d.get("7", 0)), "end": int(d.get("16", 0)),
            "newseq": int(d.get("36", 0)), "gapfill": d.get("123") == "Y"}


def run_script(live, script, wd, idx):
    cfg = {"prop": "C21", "role": "pair", "persist": "file", "sender": "INI", "target": "ACC", "hb": 30, "reset": False,
           "enforce": True, "always_assign": False, "cfg_send": 0, "cfg_recv": 0, "clients": []}
    evs = [{"e": "Reset", "cfg": cfg}]
    live.cmd("reset {}")
    live.cmd("outhex on")
    now = [sc.T0]
    live.cmd("clock %d 0" % now[0])
    q = {"a": [], "b": []}
    st = {"up": False, "dead": False, "fresh": {"a": True, "b": True}, "n": {"a": 0, "b": 0}}

    def other(x):
        return "b" if x == "a" else "a"

    def obs(x, ev, desc=None):
        if ev["e"] == "Abort":
            raise core.Infra("probe aborted: %s" % ev.get("stderr", "")[:2000])
        m = sc.conv_live(ev, desc)
        m["w"] = x
        evs.append(m)
        if ev.get("outhex"):
            q[other(x)] += F.split_stream(bytes.fromhex(ev["outhex"]))
        if m["post"]["shutdown"] and not m["pre"]["shutdown"] and m["e"] in ("Recv", "Start"):
            st["dead"] = True
        return m

    def new(x):
        role, me, you = NAMES[x]
        live.cmd("@%s new %s file %s/c21_%d_%s %s %s 30" % (x, role, wd, idx, x, me, you))
        st["fresh"][x] = True

    def tick():
        now[0] += 1
        live.cmd("clock %d 0" % now[0])

    def connect():
        # acceptor: a new session object per connection over the same store; initiator: same object unless restarted
        if not st["fresh"]["b"]:
            obs("b", live.cmd("@b restart"))
        obs("b", live.cmd("@b start 0 0"))
        st["fresh"]["b"] = False
        obs("a", live.cmd("@a start 0 0" if st["fresh"]["a"] else "@a reconnect 0 0"))
        st["fresh"]["a"] = False
        st["up"] = True

    def deliver(x):
        if not q[x]:
            return False
        wire = q[x].pop(0)
        obs(x, live.cmd("@%s recv %s" % (x, wire.hex())), indesc(wire))
        return True

    def settle(limit=200):
        k = 0
        while (q["a"] or q["b"]) and k < limit and not st["dead"]:
            for x in ("b", "a"):
                if deliver(x):
                    k += 1

    def drop():
        for x in ("a", "b"):
            obs(x, live.cmd("@%s drop" % x))
        q["a"].clear()
        q["b"].clear()
        st["up"] = False

    new("a")
    new("b")
    connect()
    settle()
    for inp in script:
        if st["dead"]:
            break
        tick()
        op = inp["op"]
        if op == "Send" and st["up"]:
            x = inp["x"]
            st["n"][x] += 1
            obs(x, live.cmd("@%s send m%d" % (x, st["n"][x] + (50 if x == "b" else 0))))
        elif op == "Deliver" and st["up"]:
            deliver(inp["x"])
        elif op == "Drop" and st["up"]:
            drop()
        elif op == "Reconnect" and not st["up"]:
            connect()
        elif op == "Restart" and not st["up"]:
            obs(inp["x"], live.cmd("@%s restart" % inp["x"]))
            st["fresh"][inp["x"]] = True
    # drive to quiescence
    for _ in range(3):
        if st["dead"]:
            break
        tick()
        if not st["up"]:
            connect()
        settle()
        if not (q["a"] or q["b"]):
            break
    evs.append({"e": "End", "alive": not st["dead"]})
    return evs


def run(ctx):
    r = tlc.check("Pair.tla", "MC_Pair_ideal.cfg" if ctx.quick else "MC_Pair_ideal_thorough.cfg", timeout=1800)
    if not r["ok"]:
        raise core.Infra("ideal two-session design violates %s" % r["violated"])
    ctx.add_model(r, "Pair.tla", "MC_Pair_ideal*.cfg", ["NoTermination", "AllDelivered", "FirstInOrder", "RedeliveriesFlagged", "NoSilentGap"])
    for d in ("incr_always", "logon_gap_throws", "restart_forgets"):
        x = tlc.check("Pair.tla", "MC_Pair_dev_%s.cfg" % d, workers=8, timeout=600)
        if x["ok"]:
            raise core.Infra("deviation %s violates nothing: invariants vacuous" % d)
        ctx.extra.setdefault("deviation_witnesses", {})[d] = x["violated"]
    r = tlc.check("Pair.tla", "MC_Pair_export.cfg" if ctx.quick else "MC_Pair_export_thorough.cfg", workers=1, timeout=900)
    scripts = tlc.leaves(r["out"])
    if len(scripts) < 500:
        raise core.Infra("history export produced only %d histories" % len(scripts))
    ctx.add_model(r, "Pair.tla", "MC_Pair_export*.cfg", ["history export"])
    ctx.tick("model")
    # second family: one send at most, two drops and two restarts - the histories in which one side restarts twice with a
    # connection in between (what it recovers the second time was written by a process that had itself recovered)
    r2 = tlc.check("Pair.tla", "MC_Pair_export_restarts.cfg", workers=1, timeout=900)
    rscripts = tlc.leaves(r2["out"])
    if len(rscripts) < 500:
        raise core.Infra("restart-heavy history export produced only %d histories" % len(rscripts))
    ctx.add_model(r2, "Pair.tla", "MC_Pair_export_restarts.cfg", ["history export"])
    ctx.tick("model")
    rng = random.Random(ctx.seed + 21)
    limit = 500 if ctx.quick else 8000
    if len(scripts) > limit:
        scripts = rng.sample(scripts, limit)
    rlimit = 300 if ctx.quick else 4000
    have = {json.dumps(h, sort_keys=True) for h in scripts}
    rscripts = [h for h in rscripts if json.dumps(h, sort_keys=True) not in have]
    if len(rscripts) > rlimit:
        # the ones with two restarts come first
        rscripts.sort(key=lambda h: (-sum(1 for x in h if x["op"] == "Restart"), json.dumps(h, sort_keys=True)))
        many = [h for h in rscripts if sum(1 for x in h if x["op"] == "Restart") == 2]
        rest = [h for h in rscripts if sum(1 for x in h if x["op"] == "Restart") < 2]
        take = rng.sample(many, min(len(many), rlimit * 2 // 3))
        rscripts = take + rng.sample(rest, min(len(rest), rlimit - len(take)))
    scripts = scripts + rscripts
    wd = os.path.join(ctx.workdir, "c21")
    shutil.rmtree(wd, ignore_errors=True)
    os.makedirs(wd)
    nproc = 12
    parts = [list(range(i, len(scripts), nproc)) for i in range(nproc)]

    def worker(pi):
        out = {}
        live = sc.Live("asan" if pi == 0 else "plain", cwd=wd)
        try:
            for j in parts[pi]:
                out[j] = run_script(live, scripts[j], wd, j)
        finally:
            live.close()
        return out
    traces = [None] * len(scripts)
    with ThreadPoolExecutor(max_workers=nproc) as ex:
        for res in ex.map(worker, range(nproc)):
            for j, t in res.items():
                traces[j] = t
    ctx.tick("probe")
    fails, labels, info = tlc.validate_execs("T_Session.tla", "T_Session.cfg", traces, ctx.workdir, "c21", chunks=10)
    ctx.add_validation(info, len(traces))
    sc.note_labels(ctx, labels)
    for s in scripts:
        ctx.case(s, nontrivial=len(s) > 1)
    import session_model
    seen = set()
    for f in fails:
        if (f["exec"], f["sig"]) in seen:
            continue
        seen.add((f["exec"], f["sig"]))
        ctx.fail(f["sig"], f["why"], {"script": scripts[f["exec"]], "pos": f["pos"], "event": f["event"],
                                      "trace": [session_model.slim(e) if "out" in e else e for e in traces[f["exec"]]]})
    ctx.tick("validate")
    ctx.rule = ("seeded sample (%d) of the histories of the TLC-explored two-session design (Send/Deliver/Drop/Reconnect/Restart "
                "interleavings) replayed on two real sessions; distinct = distinct scripts" % len(scripts))
    k = len(scripts) // 2
    ctx.sample({"script": scripts[k], "trace": [session_model.slim(e) if "out" in e else e for e in traces[k]][:16]})
    ctx.trusted = ["TLC", "probe_session (two sessions in one process)", "lib/fixmsg.py stream splitter/parser", "driver as network in lib/props/c21.py"]
    shutil.rmtree(wd, ignore_errors=True)


def replay(ctx, doc):
    """--replay: run the recorded schedule again on two real sessions and judge it."""
    script = doc["case"]["script"]
    wd = os.path.join(ctx.workdir, "c21_replay")
    shutil.rmtree(wd, ignore_errors=True)
    os.makedirs(wd)
    live = sc.Live("asan", cwd=wd)
    try:
        trace = run_script(live, script, wd, 0)
    finally:
        live.close()
    fails, labels, info = tlc.validate_execs("T_Session.tla", "T_Session.cfg", [trace], ctx.workdir, "c21_replay", chunks=1)
    ctx.add_validation(info, 1)
    ctx.case(script, nontrivial=True)
    import session_model
    for e in trace:
        print(json.dumps(session_model.slim(e) if "out" in e else e)[:400])
    for f in fails:
        ctx.fail(f["sig"], f["why"], {"script": script, "pos": f["pos"], "event": f["event"]})
    ctx.rule = "replay of one recorded schedule"
    shutil.rmtree(wd, ignore_errors=True)
