"""C24 Session activation follows the configured schedule; weekday decoding
(DESIGN.md 5.7 / 6 C24; spec/Schedule.tla, MC_Schedule.tla, T_Schedule.tla; harness/src/probe_sched.cpp)."""
import itertools
import os
import random
import string
from concurrent.futures import ThreadPoolExecutor

import build
import core
import tlc

PROBES = [("probe_sched", "asan", None, [])]

MANIFEST = dict(
    text='TLC proves on the TLA+ schedule model that the ideal activation toggle, checked at every time unit from every '
         'phase of the week and either initial state, equals the window predicates of the statement (daily [start,end]; '
         'weekly start-day/start-time to end-day/end-time incl. equal days) for all start/end on a grid, several utc '
         'offsets and all 49 weekday pairs, and that each named deviation of the current code breaks it. The real '
         'Schedule::test (schedule built by the real Configuration from XML) is stepped minute by minute over three '
         'weeks on a virtual clock, chained as Session::activation_service does, for all 49 weekday pairs and daily '
         'schedules from several phases and both initial states; decode_dow is called on every string of <= 3 '
         'letters/digits. TLC judges every instant against the window predicate and every string against DecodeDow.',
    note='Trusts TLC, the virtual clock seam (clock_gettime defined by the probe; self-tested on every run), the probe '
         '(moves data, run-length encodes equal consecutive results). Whole-second instants only.',
    tech='TLA+ window predicates + toggle design with named deviations, TLC exhaustive check; virtual-clock replay of '
         'the real Schedule::test; TLC trace validation of every instant',
    ref='5.7, 6 C24')

DEVS = ["weekly_equal_days_never", "weekly_needs_daily_window_to_start", "weekly_initially_active",
        "weekly_wrap_ends_day_late"]
OFFS = [-720, -300, 0, 330, 840]
TIMES = [(9 * 3600, 17 * 3600), (0, 86399), (22 * 3600, 22 * 3600 + 60), (30, 60), (8 * 3600 + 1, 8 * 3600 + 2),
         (12 * 3600, 86399), (0, 1), (6 * 3600 + 30 * 60, 20 * 3600 + 45 * 60 + 15)]
DAYNAMES = ["su", "mo", "tu", "we", "th", "fr", "sa"]
WEEK = 7 * 86400
STEP = 60
NCHECKS = 3 * 7 * 24 * 60          # three weeks, minute by minute


def hms(s):
    return "%02d:%02d:%02d" % (s // 3600, s // 60 % 60, s % 60)


def rand_time(rng):
    if rng.random() < 0.5:
        return rng.choice(TIMES)
    a = rng.randrange(0, 86399)
    b = rng.randrange(a + 1, 86400)
    return a, b


def instant(rng, local_week_sec, off):
    """UTC (epoch day, second) whose local time (utc + off minutes) is local_week_sec seconds after a Sunday 00:00."""
    sunday = 3 + 7 * rng.randrange(2610, 3540)           # 1970-01-04 was a Sunday; years 2020..2037
    u = sunday * 86400 + local_week_sec - off * 60
    return u // 86400, u % 86400


def phases(rng, c, extra):
    """Starting points (local second of the week, initial state): outside the window with the session
    initially active (as Session::atomic_init leaves it), inside the window but outside the daily
    [start,end] range initially inactive, and a random one.  Input selection only - nothing here judges."""
    if c["sd"] < 0:
        return [(rng.randrange(WEEK), True), (rng.randrange(WEEK), False)]
    s = c["sd"] * 86400 + c["start"]
    e = c["ed"] * 86400 + c["end"]
    length = (e - s) % WEEK
    outside = (e + 1 + rng.randrange(max(1, WEEK - length - 1))) % WEEK
    inside = (s + rng.randrange(length + 1)) % WEEK
    # prefer an inside point after the end time of its day
    for _ in range(20):
        cand = (s + rng.randrange(length + 1)) % WEEK
        if cand % 86400 > c["end"] or cand % 86400 < c["start"]:
            inside = cand
            break
    out = [(outside, True), (inside, False)]
    if extra:
        out.append((rng.randrange(WEEK), rng.random() < 0.5))
    return out


def day_text(rng, d):
    return rng.choice([str(d), DAYNAMES[d], DAYNAMES[d].upper()])


def make_runs(ctx, rng):
    runs = []
    pairs = [(-1, -1)] * (4 if ctx.quick else 12) + list(itertools.product(range(7), range(7))) * (1 if ctx.quick else 4)
    for sd, ed in pairs:
        st, en = rand_time(rng)
        c = {"start": st, "end": en, "off": rng.choice(OFFS), "sd": sd, "ed": ed}
        # end_day omitted => Configuration::create_schedule defaults it to start_day
        sdt = "-" if sd < 0 else day_text(rng, sd)
        edt = "-" if sd < 0 or (sd == ed and rng.random() < 0.5) else day_text(rng, ed)
        for lw, prev0 in phases(rng, c, (not ctx.quick) or rng.random() < 0.2):
            # put the minute grid on the seconds of the start or of the end time, so that the first and the last
            # instant of the window are among the instants checked (offsets are whole minutes)
            lw = (lw - lw % 60 + rng.choice([st, en, en, rng.randrange(60)]) % 60) % WEEK
            day, sec = instant(rng, lw, c["off"])
            n = NCHECKS if sd >= 0 else 3 * 24 * 60
            cmds = ["sched %s %s %d %s %s" % (hms(st), hms(en), c["off"], sdt, edt),
                    "run %d %d %d %d %d 0" % (day, sec, STEP, n, 1 if prev0 else 0)]
            runs.append({"cfg": c, "cmds": cmds, "n": n, "prev0": prev0})
    return runs


ALNUM36 = string.ascii_lowercase + string.digits
ALNUM62 = string.ascii_letters + string.digits


def dow_strings(ctx, rng):
    out = [""]
    if ctx.quick:
        for n in (1, 2, 3):
            out += ["".join(t) for t in itertools.product(ALNUM36, repeat=n)]
        seen = set(out)
        for n in (1, 2):
            out += [s for s in ("".join(t) for t in itertools.product(ALNUM62, repeat=n)) if s not in seen]
        out += ["".join(rng.choice(ALNUM62) for _ in range(3)) for _ in range(4000)]
        # every case variant of the three-letter abbreviations and their neighbours
        for nm in ("sun", "mon", "tue", "wed", "thu", "fri", "sat", "sat", "sux", "tux", "thx", "mox"):
            out += ["".join(t) for t in itertools.product(*[(ch, ch.upper()) for ch in nm])]
    else:
        for n in (1, 2, 3):
            out += ["".join(t) for t in itertools.product(ALNUM62, repeat=n)]
    return out


def run_probe_parts(ctx, binary, parts):
    env = build.run_env()

    def one(lines):
        text = "\n".join(lines) + "\nquit\n"
        evs, rc, err = core.run_probe(binary, text, env, timeout=900)
        if rc != 0:
            ctx.extra["transient_probe_aborts"] = ctx.extra.get("transient_probe_aborts", 0) + 1
            evs, rc, err = core.run_probe(binary, text, env, timeout=900)
        return evs, rc, err
    with ThreadPoolExecutor(max_workers=8) as ex:
        return list(ex.map(one, parts))


def split_execs(evs):
    out, cur = [], None
    for ev in evs:
        if ev["e"] == "Error":
            raise core.Infra("probe_sched: %s" % ev)
        if ev["e"] == "Reset":
            cur = []
            out.append(cur)
        if cur is not None:
            cur.append(ev)
    return out


def models(ctx):
    cfg = "MC_Schedule.cfg" if ctx.quick else "MC_Schedule_thorough.cfg"
    r = tlc.check("MC_Schedule.tla", cfg, workers=8, timeout=3000)
    if not r["ok"]:
        raise core.Infra("ideal schedule design violates %s" % r["violated"])
    ctx.add_model(r, "MC_Schedule.tla", cfg, ["Follows", "ShapesAgree", "DecodeDow assumptions"])
    ctx.exhaustive = True
    # vacuity guard: each named deviation, and the code's toggle as a whole, must break Follows
    cfgs = ["MC_Schedule_dev_%s.cfg" % d for d in DEVS] + ["MC_Schedule_code.cfg"]
    with ThreadPoolExecutor(max_workers=3) as ex:
        res = list(ex.map(lambda c: tlc.check("MC_Schedule.tla", c, workers=2, timeout=600), cfgs))
    for c, r in zip(cfgs, res):
        if r["ok"] or r["violated"] != "Follows":
            raise core.Infra("deviation config %s does not violate Follows (%s): invariant is vacuous" % (c, r["violated"]))
        ctx.extra.setdefault("deviation_witnesses", {})[c] = r["violated"]


def _run(ctx, corrupt=None):
    models(ctx)
    ctx.tick("model")
    rng = random.Random(ctx.seed)
    binary = build.probe("probe_sched", "asan")
    runs = make_runs(ctx, rng)
    strings = dow_strings(ctx, rng)
    # ---- probe ------------------------------------------------------------------------------------
    nproc = 8
    parts = [["now 20000 3600 0"] for _ in range(nproc)]
    owner = []
    for i, r in enumerate(runs):
        p = i % nproc
        c = r["cfg"]
        parts[p].append('reset {"kind":"sched","i":%d}' % i)
        parts[p] += r["cmds"]
    DCH = 1500
    dchunks = [strings[i:i + DCH] for i in range(0, len(strings), DCH)]
    for j, ch in enumerate(dchunks):
        p = j % nproc
        parts[p].append('reset {"kind":"dow","i":%d}' % j)
        parts[p] += ["dow %s" % (s.encode().hex() or "-") for s in ch]
    res = run_probe_parts(ctx, binary, parts)
    ctx.tick("probe")
    execs, meta = [], []
    for evs, rc, err in res:
        if rc != 0:
            ctx.fail("probe_abort:rc%d" % rc, "memory error or crash in Schedule::test / decode_dow / configuration",
                     {"stderr": core.san_report(err)})
            continue
        now = [e for e in evs if e["e"] == "Now"]
        if not now or (now[0]["day"], now[0]["sec"]) != (20000, 3600) or now[0]["realday"] == 20000:
            raise core.Infra("virtual clock seam does not work: %s" % now)
        for ex_ in split_execs(evs):
            k = ex_[0]["cfg"]
            if k["kind"] == "sched":
                r = runs[k["i"]]
                c = r["cfg"]
                cfgev = [e for e in ex_ if e["e"] == "Cfg"]
                segs = [e for e in ex_ if e["e"] == "Seg"]
                if [e for e in ex_ if e["e"] == "Exc"] or not cfgev or not cfgev[0]["ok"]:
                    raise core.Infra("schedule could not be configured: %s %s" % (r["cmds"], ex_[1:3]))
                if sum(s["n"] for s in segs) != r["n"]:
                    raise core.Infra("probe returned %d checks, expected %d" % (sum(s["n"] for s in segs), r["n"]))
                mon = [{"e": "Reset", "kind": "sched", "start": c["start"], "end": c["end"], "off": c["off"],
                        "sd": c["sd"], "ed": c["ed"]}] + segs
                execs.append(mon)
                meta.append(("sched", k["i"], cfgev[0]))
            else:
                dows = [e for e in ex_ if e["e"] == "Dow"]
                if len(dows) != len(dchunks[k["i"]]):
                    raise core.Infra("probe returned %d decode results, expected %d" % (len(dows), len(dchunks[k["i"]])))
                execs.append([{"e": "Reset", "kind": "dow"}] + dows)
                meta.append(("dow", k["i"], None))
    if corrupt:
        corrupt(execs, meta)
    # ---- judge ------------------------------------------------------------------------------------
    fails, labels, info = tlc.validate_execs("T_Schedule.tla", "T_Schedule.cfg", execs, ctx.workdir, "c24", chunks=8)
    ctx.add_validation(info, len(execs))
    ctx.tick("validate")
    nsched = ndow = 0
    for ex_, (kind, i, cfgev) in zip(execs, meta):
        if kind == "sched":
            r = runs[i]
            nsched += r["n"]
            ctx.case(("sched", sorted(r["cfg"].items()), r["prev0"], [(s["day"], s["sec"], s["n"], s["ret"]) for s in ex_[1:]]),
                     nontrivial=len(ex_) > 2, n=r["n"])
        else:
            ndow += len(ex_) - 1
            for e in ex_[1:]:
                ctx.case(("dow", e["cs"], e["ret"]), nontrivial=e["ret"] >= 0)
    seen = set()
    for f in fails:
        kind, i, cfgev = meta[f["exec"]]
        key = (f["exec"], f["sig"])
        if key in seen:
            continue
        seen.add(key)
        if kind == "sched":
            r = runs[i]
            case = {"configuration": r["cfg"], "probe_commands": r["cmds"], "library_decoded": cfgev,
                    "failing_segment": f["event"], "segments": execs[f["exec"]][1:12]}
        else:
            case = {"string": "".join(chr(x) for x in f["event"]["cs"]), "event": f["event"]}
        ctx.fail(f["sig"], f["why"], case)
    ctx.rule = ("schedule instants: every call of the real Schedule::test (%d runs = 49 weekday pairs + daily, 2-3 phases "
                "each, %d calls) is one evaluation; weekday strings: %d calls of decode_dow; distinct = distinct "
                "(configuration, phase, result sequence) runs with at least one transition and distinct strings that "
                "decode to a day" % (len(runs), nsched, ndow))
    ctx.extra["schedule_checks"] = nsched
    ctx.extra["dow_strings"] = ndow
    sr = [x for x, m in zip(execs, meta) if m[0] == "sched"]
    if sr:
        ctx.sample({"run": runs[[m for m in meta if m[0] == "sched"][0][1]]["cmds"], "trace": sr[0][:8]})
    dr = [x for x, m in zip(execs, meta) if m[0] == "dow"]
    if dr:
        ctx.sample({"trace": dr[0][:1] + [e for e in dr[0][1:] if e["ret"] >= 0][:6]})
    ctx.trusted = ["TLC", "probe_sched (moves data; run-length encodes equal consecutive results)",
                   "virtual clock seam (self-tested each run)", "ASan/UBSan"]
    ctx.assumptions = ["instants are whole seconds, checked every 60 s (the statement's 'at least once a minute')",
                       "configurations go through Configuration::create_schedule, hence start < end",
                       "a string whose deciding one/two-letter prefix is followed by characters that are not the rest of "
                       "the day's name may decode to that day or to invalid (statement leaves it open)"]


def selftest(ctx):
    """Corrupt one recorded field of a passing run and one decode result: the monitor must reject both."""
    hit = {}

    def corrupt(execs, meta):
        for ex_, m in zip(execs, meta):
            if m[0] == "sched" and ex_[0]["sd"] < 0 and len(ex_) > 3 and "s" not in hit:
                ex_[2]["n"] += 1              # a daily run: one more minute claimed with the old result
                hit["s"] = True
            if m[0] == "dow" and "d" not in hit:
                for e in ex_[1:]:
                    if e["ret"] == 1:
                        e["ret"] = 2
                        hit["d"] = True
                        break
    _run(ctx, corrupt)
    sigs = {f["sig"] for f in ctx.failures}
    ok = any(s.startswith("daily:unexplained") for s in sigs) and any(s.startswith("dow:") for s in sigs)
    ctx.failures = [f for f in ctx.failures if not (f["sig"].startswith("daily:unexplained") or f["sig"].startswith("dow:"))]
    if not ok:
        raise core.Infra("self-test: corrupted trace was not rejected (%s)" % sorted(sigs))
    ctx.extra["selftest"] = "corrupted segment length and decode result rejected"


def run(ctx):
    if os.environ.get("VERIF_SELFTEST") == "1":
        return selftest(ctx)
    return _run(ctx)
