"""C06 Length-prefixed data fields carry arbitrary bytes (DESIGN.md 6 C06; spec/Extract.tla DataOpaque,
spec/T_Decode.tla MonData)."""
import random

import core
import decode_common as dc
import tlc

PROBES = [dc.PROBE]

MANIFEST = dict(
    text='Extract.tla models the tokenizer with Length-prefixed data fields; TLC proves on it that the ideal tokenizer returns every content over {SOH, =, NUL, digit, other} unchanged together with the following fields and yields the content classes that break each named deviation. Every (Length, data) pair that the independent schema reader finds in header, body, trailer and repeating groups of FIX42UTEST and FIX44 is then exercised on the real code for every content class: the message is built through the metadata API, encoded, decoded by Message::factory, and TLC compares the decoded field tree (data bytes and all other fields) with the requested one.',
    note='Contents are handed to the library through F8MetaCntx::create_field(const char*), the only metadata-driven constructor. Lengths up to FIX8_MAX_FLD_LENGTH-1 = 2047.',
    tech='TLA+ tokenizer spec + TLC; schema-derived placements x spec-derived content classes replayed through encode/decode of the real library; TLC trace validation',
    ref='5.1, 5.2, 6 C06')

ALL256 = bytes(range(1, 256)) + b"\x00tail"


def contents(quick):
    c = [("empty", b""), ("plain", b"plain text 123"), ("soh", b"ab\x01cd"), ("eq", b"a=b=c"),
         ("lookalike", b"x\x0110=123\x01y"), ("soh_first", b"\x01x"), ("nul", b"a\x00b"), ("all256", ALL256),
         ("len1", b"Z"), ("len2046", b"q" * 2046), ("len2047", b"r" * 2047),
         # SOH / '=' at the very end or alone (a tolerant "length counts the separator" reading cuts these)
         ("soh_last", b"abc\x01"), ("soh_only", b"\x01"), ("field_lookalike_last", b"58=x\x01"), ("eq_last", b"abc="),
         ("soh_twice_last", b"a\x01\x01")]
    return c


def placements(w):
    """[(msgtype, where, path of group tags, length tag, data tag, next sibling tag or None)]"""
    s = dc.stock(w)
    out = []

    def walk(members, mt, where, path):
        for i, (a, b) in enumerate(zip(members, members[1:])):
            if a.field.type.strip() == "LENGTH" and b.field.type.strip() == "DATA":
                nxt = next((m.field.number for m in members[i + 2:] if dc._plain(m)), None)
                out.append((mt, where if not path else "group", tuple(path), a.field.number, b.field.number, nxt))
        for m in members:
            if m.group:
                walk(m.group, mt, where, path + [m.field.number])
    any_mt = "0"
    walk(s.header, any_mt, "header", [])
    walk(s.trailer, any_mt, "trailer", [])
    for mt, md in s.bytype.items():
        walk(md["members"], mt, "body", [])
    return out


def run(ctx):
    # the tokenizer design: data fields are opaque for the ideal design, each deviation loses a content class
    jobs = (("MC_Extract_data.cfg", None), ("MC_Extract_data_nolen.cfg", "DataOpaque"), ("MC_Extract_data_nul.cfg", "DataOpaque"),
            ("MC_Extract_data_plus1.cfg", "DataOpaque"))
    from concurrent.futures import ThreadPoolExecutor
    with ThreadPoolExecutor(max_workers=4) as ex:
        results = list(ex.map(lambda j: tlc.check("Extract.tla", j[0], workers=2, timeout=900), jobs))
    for (cfg, want), r in zip(jobs, results):
        if want is None:
            if not r["ok"]:
                raise core.Infra("ideal tokenizer violates %s" % r["violated"])
            ctx.add_model(r, "Extract.tla", cfg, ["DataOpaque"])
        elif r["ok"]:
            raise core.Infra("deviation config %s violates nothing: DataOpaque is vacuous" % cfg)
        else:
            ctx.extra.setdefault("deviation_witnesses", {})[cfg] = r["violated"]
    ctx.tick("model")
    rng = random.Random(ctx.seed)
    cases = []
    for w in dc.SCHEMAS:
        pl = placements(w)
        if ctx.quick:
            # one placement per (pair, kind of place, nesting depth), rotating with the seed
            byk = {}
            for p in pl:
                byk.setdefault((p[3], p[4], p[1], len(p[2])), []).append(p)
            pl = [v[ctx.seed % len(v)] for k, v in sorted(byk.items())]
        for p in pl:
            for cls, content in contents(ctx.quick):
                cases.append((w, p, cls, content))
    # the same pairs on a message an application got from the factory: decode, replace the data value by another one of
    # the same length (it contains the separator), encode, decode (top-level pairs; content classes of moderate size)
    nrep = 0
    # (pairs whose data tag is not the length tag + 1 already fail on any separator in the content: recorded finding)
    elig = [c for c in cases if len(c[1][2]) == 0 and 3 <= len(c[3]) <= 300 and b"\x00" not in c[3] and c[1][4] == c[1][3] + 1]
    rng.shuffle(elig)
    for (w, p, cls, content) in elig[:40 if ctx.quick else 600]:
        if True:
            cases.append((w, p, cls + "+replaced_after_decode", content))
            nrep += 1
    ctx.extra["replaced_after_decode_cases"] = nrep
    cmds, wants = [], []
    for n, (w, (mt, where, path, lt, dt, nxt), cls, content) in enumerate(cases):
        s = dc.stock(w)
        force = set(path) | {lt, dt} | ({nxt} if nxt else set())
        big = len(content) > 500
        kw = dict(popt=0.0, nelem=(1, 1) if big else (2, 2), force=force, values={dt: content})
        h = dc.gen_members(s, s.header, rng, skip=(8, 9, 35), **kw)
        b = dc.gen_members(s, s.bytype[mt]["members"], rng, **kw)
        t = dc.gen_members(s, s.trailer, rng, skip=(10,), **kw)
        if where != "header":
            h = [x for x in h if x[0] not in (90, 91, 212, 213)] if lt not in (90, 212) else h
        if cls.endswith("+replaced_after_decode"):
            newc = (b"r\x01=p" * (len(content) // 4 + 1))[:len(content)]
            cmds.append(("d%d" % n, dc.enc_cmd("d%d" % n, w, mt, h, b, t, replace=[(dt, newc)])))
            sub = lambda nodes: [(tg, (newc if tg == dt else v), el) for tg, v, el in nodes]
            wants.append(dc.flat_nodes(s, [(35, mt.encode(), None)] + sub(h), sub(b), sub(t)))
        else:
            cmds.append(("d%d" % n, dc.enc_cmd("d%d" % n, w, mt, h, b, t)))
            wants.append(dc.flat_nodes(s, [(35, mt.encode(), None)] + h, b, t))
    res = dc.run_cmds(ctx, cmds)
    ctx.tick("probe")
    execs = []
    for n, (w, (mt, where, path, lt, dt, nxt), cls, content) in enumerate(cases):
        s = dc.stock(w)
        evs = res.get("d%d" % n) or []
        enc = next((e for e in evs if e["e"] == "Encode"), None)
        dec = next((e for e in evs if e["e"] == ("Decode2" if cls.endswith("+replaced_after_decode") else "Decode")), None)
        if cls.endswith("+replaced_after_decode") and dec is None and not any(e["e"] == "Abort" for e in evs):
            rp = next((e for e in evs if e["e"] == "Replace"), None)
            dec = {"e": "Decode2", "res": (rp or {}).get("res", "f8exc")}       # the replace / second encode threw
        ab = next((e for e in evs if e["e"] == "Abort"), None)
        b_res = "ok" if enc and enc.get("b_res") == "ok" else ("abort" if enc is None else "exc")
        enc_res = ("ok" if enc.get("res") == "ok" else "exc") if enc and b_res == "ok" else ("abort" if ab else "none")
        dec_res = dc.result_class(dec) if dec else ("abort" if ab else "none")
        got = [x for x in dc.flat_tree(s, dec) if x["k"] not in ("8", "9", "10")] if dec_res == "ok" else []
        execs.append([{"e": "Reset", "prop": "C06", "schema": w},
                      {"e": "Data", "want": wants[n], "b_res": b_res, "enc_res": enc_res, "dec_res": dec_res, "got": got,
                       "where": where, "cls": cls, "plus1": dt == lt + 1, "pair": [lt, dt], "depth": len(path)}])
    if ctx.extra.get("selftest"):
        return execs
    fails, labels, info = dc.validate(ctx, execs, "c06")
    ctx.add_validation(info, len(execs))
    ctx.tick("validate")
    for n, ex in enumerate(execs):
        e = ex[1]
        ctx.case([cases[n][0], cases[n][1], cases[n][2], e["dec_res"]], nontrivial=True)
    hist, seen = {}, set()
    for f in fails:
        hist[f["sig"]] = hist.get(f["sig"], 0) + 1
    ctx.extra["monitor_rejections"] = hist
    for f in fails:
        n = f["exec"]
        if f["sig"] in seen:
            ctx.fail(f["sig"], f["why"], {"placement": cases[n][1], "see": "first execution with this signature"})
            continue
        seen.add(f["sig"])
        ev = execs[n][1]
        miss = [x for x in ev["want"] if x not in ev["got"]][:6]
        extra = [x for x in ev["got"] if x not in ev["want"]][:6]
        evs = res.get("d%d" % n) or []
        ctx.fail(f["sig"], f["why"], {"schema": cases[n][0], "placement": cases[n][1], "content_class": cases[n][2],
                                      "content_hex": cases[n][3].hex()[:200], "missing": miss, "unexpected": extra,
                                      "probe_events": [{k: (v if len(str(v)) < 300 else str(v)[:300]) for k, v in e.items()} for e in evs],
                                      "replay": "probe_decode: " + cmds[n][1][:3000]})
    npl = {w: len(placements(w)) for w in dc.SCHEMAS}
    ctx.rule = ("%d executions = placements of (Length, data) pairs found by lib/schema.py (%s in total; quick tier: one per pair x "
                "place x nesting depth) x %d content classes; distinct = distinct (schema, placement, class, outcome)"
                % (len(execs), npl, len(contents(ctx.quick))))
    for n in (0, len(execs) // 2, len(execs) - 1):
        ctx.sample({"placement": cases[n][1], "class": cases[n][2], "decoded": execs[n][1]["dec_res"], "got": execs[n][1]["got"][:10]})
    ctx.trusted = ["TLC", "probe_decode (moves data only)", "lib/decode_common.py value normal forms", "lib/schema.py", "ASan/UBSan"]
    ctx.assumptions = ["messages are built through F8MetaCntx::create_field(const char *)"]


def selftest(ctx):
    ctx.extra["selftest"] = True
    execs = run(ctx)[:80]
    base, _, _ = dc.validate(ctx, execs, "c06self0")
    good = next(i for i, ex in enumerate(execs) if ex[1]["dec_res"] == "ok" and i not in {f["exec"] for f in base})
    execs[good][1]["got"][-1]["v"] += "~"
    after, _, _ = dc.validate(ctx, execs, "c06self1")
    return any(f["exec"] == good for f in after)
