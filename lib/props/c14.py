"""C14 Distinct repeating-group definitions never share metadata
(DESIGN.md 5.4, 6 C14; spec/SchemaOps.tla (GroupHash, Key, Winner), spec/SchemaComp.tla, spec/MC_SchemaHash.tla,
spec/T_SchemaComp.tla, spec/T_Codec.tla, harness/src/probe_meta.cpp, lib/schemacomp_common.py)."""
import json
import os
import random

import core
import schemacomp_common as sc

PROBES = [sc.PROBE]

MANIFEST = dict(
    text='Schemas in which one repeating-group count field has two definitions. (a) SchemaComp.tla, action ReuseCountField: a second message reuses a count field with other members or another nested group (TLC enumerates the small universe exhaustively). (b) MC_SchemaHash.tla: the compiler\'s structural hash (group_hash = rothash folded over the ascending member numbers, then over the nested groups\' hashes) is transcribed in TLA+ (Bitwise, 2x16-bit halves); because rothash(r, v) = Lin(r) ^ v ^ K the fourth member d of a pair of definitions p+{a,b} / p+{c,d} that collide is computed, TLC verifies the collision on the full transcription and builds schemas around every usable solution in seven shapes (pair, order of definition swapped, common suffix member, colliding definitions as nested groups of otherwise identical parents, three definitions with one hash, and a colliding pair plus a third definition hashing to their hash + 1 registered before or after the pair). TLC proves DistinctDefsDistinctTraits and OwnTraits for the ideal group table (identity = the definition) on all of them and for the open-addressed table the code uses (hash_probe), and exhibits the violation for the deviations hash_identity and hash_probe_once. Every chosen schema goes through the real f8c and g++; TLC judges the metadata of each group occurrence against its own definition (T_SchemaComp) and round trips of both messages - built, encoded (wire order and group structure by the C02 monitor), decoded and re-encoded with their own members (T_Codec).',
    note='A rejection is attributed by the metadata monitor from local facts: the group carries the traits of another definition of the same count field and the transcribed hashes of the two definitions are equal (hash_collision) or not (different_hash: unexplained). Same reading of the schema format as C13. Quick tier reuses cached TLC results of an unchanged design spec.',
    tech='TLA+ transcription of the structural hash; collisions solved from its GF(2)-linear form and verified by TLC; TLC-built schemas compiled by the real f8c; TLC trace validation of metadata and codec round trips',
    ref='5.4, 6 C14')

HASH_PROPS = ["SolvedCollides", "Valid", "OwnTraits", "DistinctDefsDistinctTraits", "schema export"]
OTHER = {"ReuseCountField_flags", "ReuseCountField_order"}
REUSE = {"ReuseCountField_members_replaced", "ReuseCountField_members_added", "ReuseCountField_nested_dropped", "ReuseCountField_nested_member"}


def models(ctx):
    q = ctx.quick
    g = sc.model(ctx, "MC_SchemaComp.tla", "MC_SchemaComp_groups_quick.cfg" if q else "MC_SchemaComp_groups.cfg",
                 ["Valid", "OwnTraits", "DistinctDefsDistinctTraits", "schema export"])
    # the identity f8c intends (member numbers and nested groups) keeps C14; only the hash standing in for it breaks it
    sc.model(ctx, "MC_SchemaComp.tla", "MC_SchemaComp_dev_flags_c14.cfg", ["DistinctDefsDistinctTraits with flags_order_not_in_identity"])
    sc.model(ctx, "MC_SchemaComp.tla", "MC_SchemaComp_witness_NoTwoDefinitions.cfg", [], expect="NoTwoDefinitions")
    h = sc.model(ctx, "MC_SchemaHash.tla", "MC_SchemaHash.cfg" if q else "MC_SchemaHash_thorough.cfg", HASH_PROPS)
    sc.model(ctx, "MC_SchemaHash.tla", "MC_SchemaHash_dev.cfg", [], expect="DistinctDefsDistinctTraits")
    # the table the code has had since the repair (open addressing on the hash) keeps C14; looking only one key further does not
    sc.model(ctx, "MC_SchemaHash.tla", "MC_SchemaHash_probe.cfg", ["SolvedCollides", "OwnTraits with hash_probe", "DistinctDefsDistinctTraits with hash_probe"])
    sc.model(ctx, "MC_SchemaHash.tla", "MC_SchemaHash_dev_once.cfg", [], expect="DistinctDefsDistinctTraits")
    sc.model(ctx, "MC_SchemaHash.tla", "MC_SchemaHash_witness.cfg", [], expect="NoUsable")
    ctx.exhaustive = True
    if not g["skel"]:
        raise core.Infra("the design model did not export the skeleton")
    return g, h


def replay(ctx):
    with open(ctx.replay) as fh:
        case = json.load(fh)["case"]
    g = sc.model(ctx, "MC_SchemaComp.tla", "MC_SchemaComp_groups_quick.cfg", [])
    opts = dict(per_type_random=6, n_deep=6, max_count=3, keep_objects=False, parallel=1, only={"UA", "UB", "UC"})
    sc.judge(ctx, "C14", [(case.get("kind", "replay"), case["leaf"])], g["skel"], opts, "replay")
    ctx.rule = "replay of one recorded schema"


def run(ctx):
    if ctx.replay:
        return replay(ctx)
    rng = random.Random(ctx.seed)
    q = ctx.quick
    g, h = models(ctx)
    ctx.tick("model")
    # C14 is about definitions that differ in members or nested groups; the same members with other flags or another
    # order are C13's subject (finding group_identity_ignores_flags_and_order)
    reuse = [l for l in g["leaves"] if sc.features(l) & REUSE and not sc.features(l) & OTHER]
    if len(reuse) < 20 or len(h["leaves"]) < 20:
        raise core.Infra("too few two-definition schemas exported (%d reuse, %d collisions)" % (len(reuse), len(h["leaves"])))
    n_r, n_h = (5, 7) if q else (60, 90)
    fam = [("reuse", l) for l in sc.choose(rng, reuse, n_r)]
    fam += [("collision", l) for l in sc.choose(rng, h["leaves"], n_h)]
    opts = dict(per_type_random=4 if q else 10, n_deep=4 if q else 10, max_count=3, keep_objects=q, parallel=8, only={"UA", "UB", "UC"})
    summ, outs, mexecs = sc.judge(ctx, "C14", fam, g["skel"], opts, "family")
    if not q or os.environ.get("VERIF_SELFTEST"):
        sc.selftest(ctx, mexecs)
    ctx.rule = ("TLC exports %d schemas whose second message reuses a count field with other members or another nested group and %d "
                "schemas built around solved hash collisions; %d + %d of them (seeded greedy cover of shapes) went through the real "
                "f8c, g++ and probe_meta; every group occurrence's metadata and %d round trips of the messages using the two "
                "definitions were judged by TLC" % (len(reuse), len(h["leaves"]), n_r, n_h, ctx.extra.get("messages_round_tripped", 0)))
    for s, ex in [(s, ex) for s, ex in zip(summ, mexecs) if s["kind"] == "collision"][:2]:
        ctx.sample({"schema": s, "metadata_events": [e for e in ex[1:] if e["e"] in ("Compile", "MMsg", "MGroup") and len(e.get("mt", "UA")) > 1]})
    ctx.trusted = ["TLC", "XML renderer in lib/schemacomp_common.py", "lib/schema.py (XML reader)", "probe_meta / probe_codec (move data only)",
                   "g++", "tokenizer and SHA-256 digest in lib/codec_common.py"]
    ctx.assumptions = ["the two or three definitions live in different messages of one schema; colliding definitions have 2-4 plain members "
                       "(field numbers below 65536) or are nested groups of otherwise identical parents"]
