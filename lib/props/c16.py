"""C16 Outbound sequence numbers are consecutive and persisted (spec/Session.tla, SessionMon.tla C16Step)."""
import random

import session_common as sc
import session_model as sm

PROBES = [("probe_session", "asan", None, ["utest"]), ("probe_session", "plain", None, ["utest"])]

MANIFEST = dict(
    text="TLC checks on the session design (Session.tla) that the C16 monitor accepts every behaviour of the ideal "
         "design and rejects the deviations ctrl_plus1_on_noincrement / reject_no_ctrl_update, and exports the "
         "transition cover of the design (every abstract state x public call: Start, Send, Batch, inbound app / "
         "TestRequest / ResendRequest / garbled message, Restart). Each exported history is executed on the real "
         "Session + Connection over a socketpair with a real persister; the MsgSeqNum of every message on the wire and "
         "the persisted control record after every call are judged by the TLA+ monitor (TLC trace validation).",
    note="Sequential histories (concurrency is C25). Trusts TLC, the probe, the wire parser in the probe, ASan/UBSan.",
    tech="TLA+ session design spec + TLC; transition-cover replay on the real Session; TLC trace validation of wire bytes and control record",
    ref="5.6, 6 C16")


def extras(ctx):
    """Histories the model does not enumerate: configured start numbers, acceptor role, memory persister, a batch
    whose flush fails on the socket."""
    rng = random.Random(ctx.seed)
    out = []
    for i in range(30 if ctx.quick else 400):
        role = rng.choice(["ini", "acc"])
        cs, cr = rng.choice([(0, 0), (5, 0), (0, 7), (12, 9)])
        ex = sc.Exec("C16", role=role, persist=rng.choice(["mem", "file"]), cfg_send=cs, cfg_recv=cr,
                     sender="INI" if role == "ini" else "ACC", target="ACC" if role == "ini" else "INI")
        ex.start()
        ex.peer_seq = cr or 1
        ex.logon_exchange(reset=(role == "acc" and rng.random() < 0.2 and cs == 0 and cr == 0))
        nid = 1
        for k in range(rng.randint(2, 9)):
            r = rng.random()
            if r < 0.3:
                ex.send(nid); nid += 1
            elif r < 0.5:
                c = rng.randint(2, 4); ex.batch(list(range(nid, nid + c))); nid += c
            elif r < 0.65:
                ex.recv("1", body=[(112, "T%d" % k)])
            elif r < 0.8:
                ex.recv("D", ident=k + 1)
            elif r < 0.9:
                ex.recv("0")
            else:
                ex.admin("testreq", "Q%d" % k)
        if i % 3 == 0 and role == "ini":
            # the counterparty disappears: the flush of a batch fails on the socket after its earlier members have been
            # numbered and stored; the session reconnects and goes on
            ex.peerclose()
            c = rng.randint(2, 4); ex.batch(list(range(nid, nid + c))); nid += c
            ex.reconnect()
            ex.logon_exchange()
            ex.send(nid); nid += 1
        out.append(ex)
    return out


def run(ctx):
    hists, execs, traces = sm.run_property(ctx, "C16", ["ctrl_plus1_on_noincrement", "reject_no_ctrl_update"], extras(ctx))
    ctx.rule = ("every edge (abstract state, public call) of the TLC-explored session design (%d histories) replayed on the "
                "real session with a file persister, plus seeded histories with configured start numbers / acceptor role / "
                "memory persister; distinct = distinct call sequences with more than two calls" % len(hists))


def replay(ctx, doc):
    sc.replay_case(ctx, doc)
