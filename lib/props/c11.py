"""C11 Cloning and field transfer preserve message content
(DESIGN.md 6 C11; spec/Codec.tla Clone/CopyLegal/MoveLegal, spec/T_Codec.tla)."""
import random

import codec_common as cc
import core

PROBES = [cc.PROBE]

MANIFEST = dict(
    text='TLC proves CloneSame on the codec design spec (clone encodes to the same bytes; copy_legal and move_legal into an empty deep-constructed message of the same type reproduce the source, nested group elements included) for every message shape, and shows that dropping nested elements in copy or leaving the group behind in move breaks it. Every exported shape is instantiated on the real message types of FIX42UTEST and FIX44 (plus per-type mandatory-only, all-optional, random-subset and deepest-nesting messages); probe_codec runs Message::clone, copy_legal and move_legal (header, body, trailer as Message::clone does) and TLC (T_Codec) judges: encode(clone) = encode(original), copy target tree = source tree, move target tree = original source tree. ASan/UBSan cover ownership errors (source and target are both deleted after the move).',
    note='Trees are read back through the public iteration API (get_positions, find_group, get_element); derived fields 8/9/35/10 are not compared.',
    tech='TLA+ codec design spec + TLC exhaustive check with deviation witnesses; replay on the real code; TLC trace validation',
    ref='5.1, 6 C11')

DEVS = ["copy_skips_nested", "move_leaves_group"]


def run(ctx):
    if ctx.replay:
        return cc.replay(ctx, "C11")
    rng = random.Random(ctx.seed)
    m = cc.model(ctx, "MC_Codec.cfg", ["PositionOrdered", "CloneSame", "RoundTrip", "WireWellFormed", "shape export"], workers=1)
    for d in DEVS:
        cc.model(ctx, "MC_Codec_dev_%s.cfg" % d, [], expect_violation=True)
    ctx.exhaustive = True
    ctx.tick("model")
    if len(m["leaves"]) < 2000:
        raise core.Infra("shape export produced only %d shapes" % len(m["leaves"]))
    q = ctx.quick
    ok, ncan = cc.canaries(ctx, rng, "C11", ["hdrgrp"])
    specs = cc.bulk_specs(ctx, rng, m["leaves"], ok, n_shapes=450 if q else len(m["leaves"]),
                          per_type_random=2 if q else 30, n_deep=40 if q else 600, max_count=3 if q else 5)
    cc.run_and_judge(ctx, specs, "C11", "bulk")
    if not q or __import__("os").environ.get("VERIF_SELFTEST"):
        cc.selftest(ctx, "C11", specs)
    ctx.rule = ("TLC checks Codec.tla exhaustively (%d shapes); %d messages on the real library, each cloned, copied "
                "(copy_legal) and moved (move_legal) into an empty message of the same type; distinct = distinct "
                "(message type, tree shape, build order, outcome) tuples" % (len(m["leaves"]), len(specs)))
    for sp in specs[:2]:
        ctx.sample({"schema": sp.sch, "msgtype": sp.mt, "kind": sp.kind, "commands": cc.commands(sp, "C11")[:40]})
    ctx.trusted = ["TLC", "probe_codec (moves data only)", "lib/schema.py (XML reader)", "SHA-256 digest in lib/codec_common.py", "ASan/UBSan"]
    ctx.assumptions = ["the target is a deep-constructed empty message of the same type, as the documentation of copy_legal requires",
                       "header and trailer are transferred with their own copy_legal/move_legal calls, as Message::clone does",
                       "negative integers and dates after 2038 are not used here (value domains are C01's)"]
