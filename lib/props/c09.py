"""C09 Date/time codecs (DESIGN.md 5.3, 6 C09; spec/Calendar.tla, MC_Calendar.tla, T_Calendar.tla)."""
import os
import random

import core
import num_common as nc
import tlc

PROBES = [nc.PROBE]

MANIFEST = dict(
    text='The proleptic Gregorian calendar is specified as a day-stepping TLA+ state machine (month lengths and leap rule only); TLC walks it from 1970-01-01 to 2099-12-31 and checks on every day that the closed forms used by the monitor (day number <-> civil date) agree with the walk and that the transcription of time_to_epoch returns the right instant (first/last second of the day, first of the month); a second model checks the seconds field of the log renderer around every rounding boundary for precisions 0..9. The real UTCTimestamp, UTCTimeOnly, UTCDateOnly, LocalMktDate and MonthYear field classes then render and re-parse instants on the days of the walk (all month ends, leap days, the 2038 boundary, a seeded stride of the rest; every day in the thorough tier), parse texts built from the civil dates TLC exported, and GetTimeAsStringMS renders instants around the rounding boundaries; TLC validates every recorded line by recomputing the texts and instants from (day, second of day, ms) (trace validation).',
    note='gmtime_r of the C library is part of the rendering path under test. Log time stamps may truncate or round (with carry) to the printed precision. Instants are (day, second, ms) because TLC integers are 32 bit. Trusts TLC, the probe, UBSan for signed overflow.',
    tech='TLA+ calendar state machine + TLC walk of all 47 482 days; spec-exported dates replayed on the real field classes; TLC trace validation',
    ref='5.3, 6 C09')

PER_EXEC = 100
SECS = [0, 1, 59, 60, 3599, 3600, 43200, 86399]
MSS = [0, 1, 500, 999]
LOG_NS = [0, 400000, 499500000, 999400000, 999500000, 999999600, 999999999, 500000000, 49999999, 950000000, 994999999, 995000000]


def hexs(s):
    return s.encode().hex()


def build_cases(ctx, rng, days):
    q = ctx.quick
    n = len(days)
    special = set([0, 1, n - 1, n - 2, 24854, 24855, 24856, 24857, 10956, 10957, 11015, 11016, 11017])
    for i, c in enumerate(days):
        if c["d"] == 1:
            special.add(i)
            if i:
                special.add(i - 1)
        if c["m"] == 2 and c["d"] >= 28:
            special.add(i)
    if q:
        chosen = sorted(special | set(range(ctx.seed % 7, n, 7)))
    else:
        chosen = list(range(n))
    cases = []
    for i in chosen:
        c = days[i]
        day = c["day"]
        insts = [(86399, 999), (rng.choice(SECS), rng.choice(MSS))]
        if not q or i in special:
            insts += [(0, 0), (rng.randint(0, 86399), rng.randint(0, 999))]
        if day == 24855:
            insts += [(11647, 0), (11647, 999), (11648, 0)]
        for s, ms in insts:
            cases.append({"k": "inst", "day": day, "sec": s, "ms": ms})
        if i in special or i % (5 if q else 2) == 0:
            s = rng.choice(SECS + [rng.randint(0, 86399)])
            f = {"y": c["y"], "mo": c["m"], "d": c["d"], "h": s // 3600, "mi": s % 3600 // 60, "s": s % 60, "ms": rng.choice(MSS + [rng.randint(0, 999)])}
            date = "%04d%02d%02d" % (f["y"], f["mo"], f["d"])
            tod = "%02d:%02d:%02d.%03d" % (f["h"], f["mi"], f["s"], f["ms"])
            cases.append({"k": "parse", "kind": "ts", "text": date + "-" + tod, "f": f})
            cases.append({"k": "parse", "kind": rng.choice(["date", "lmd"]), "text": date, "f": f})
            if c["d"] == 1 or rng.random() < 0.2:
                cases.append({"k": "parse", "kind": "my", "text": date[:6], "f": f})
    # every second of one day (UTCTimeOnly carries the time of day): a stride of them in the quick tier
    d0 = days[rng.randrange(n)]["day"]
    for s in range(ctx.seed % 23 if q else 0, 86400, 23 if q else 1):
        cases.append({"k": "inst", "day": d0, "sec": s, "ms": rng.choice(MSS) if s % 5 else rng.randint(0, 999)})
    for s in (0, 59, 60, 3599, 3600, 86399):
        f = {"y": 1970, "mo": 1, "d": 1, "h": s // 3600, "mi": s % 3600 // 60, "s": s % 60, "ms": rng.randint(0, 999)}
        cases.append({"k": "parse", "kind": "to", "text": "%02d:%02d:%02d.%03d" % (f["h"], f["mi"], f["s"], f["ms"]), "f": f})
    # log renderer: instants around the rounding boundaries, every precision
    ldays = [0, 59, 11016, 24855, 24856, 47481] + [days[rng.randrange(n)]["day"] for _ in range(6 if q else 60)]
    for day in ldays:
        for s in (59, 0, 3599, 86399, rng.randint(0, 86399)):
            for ns in LOG_NS + [rng.randint(0, 999999999)]:
                for dp in range(10):
                    if q and rng.random() < 0.6 and not (s % 60 == 59 and ns > 900000000):
                        continue
                    cases.append({"k": "log", "day": day, "sec": s, "ns": ns, "dp": dp, "gm": rng.random() < 0.7})
    return cases, len(chosen)


def command(c):
    k = c["k"]
    if k == "inst":
        return "inst %d %d %d" % (c["day"], c["sec"], c["ms"])
    if k == "parse":
        return "parse %s %s" % (c["kind"], hexs(c["text"]))
    if k == "log":
        return "logts %d %d %d %d %d" % (c["day"], c["sec"], c["ns"], c["dp"], 1 if c["gm"] else 0)
    raise KeyError(k)


NOP = {"neg": False, "day": -1, "sec": -1, "ms": -1, "sub": -1}
INST_FIELDS = ["ts", "to", "d8", "lm", "my6", "my8"]


def to_event(c, ev):
    ab = bool(ev.get("abort"))
    san = ev.get("san", "") if ab else ""
    k = c["k"]
    if k == "inst":
        e = {"e": "Inst", "day": c["day"], "sec": c["sec"], "ms": c["ms"], "abort": ab, "san": san}
        for f in INST_FIELDS:
            e[f] = "" if ab else ev[f]
            e[f + "_p"] = NOP if ab else ev[f + "_p"]
        if not ab and (ev["day"], ev["sec"], ev["ms"]) != (c["day"], c["sec"], c["ms"]):
            raise core.Infra("probe_num answered a different instant: %s" % ev)
        return e
    if k == "parse":
        if not ab and ev["text"] != c["text"]:
            raise core.Infra("probe_num answered a different text: %s" % ev)
        return {"e": "Parse", "kind": c["kind"], "text": c["text"], "f": c["f"], "p": NOP if ab else ev["p"], "abort": ab, "san": san}
    if k == "log":
        return {"e": "Log", "day": c["day"], "sec": c["sec"], "ns": c["ns"], "dp": c["dp"], "gm": c["gm"],
                "text": "" if ab else ev["text"], "abort": ab, "san": san}
    raise KeyError(k)


def run_and_judge(ctx, cases, name):
    evs = nc.run_commands(ctx, [command(c) for c in cases])
    keep = [(c, e) for c, e in zip(cases, evs) if not e.get("skipped")]
    cases = [c for c, _ in keep]
    evs = [e for _, e in keep]
    mon = [to_event(c, e) for c, e in zip(cases, evs)]
    execs = [[{"e": "Reset"}] + mon[i:i + PER_EXEC] for i in range(0, len(mon), PER_EXEC)]
    fails = nc.judge(ctx, "T_Calendar", execs, name, chunks=8)
    for m in mon:
        ctx.case(m, nontrivial=True)
    per_sig = {}
    for f in fails:
        gi = f["exec"] * PER_EXEC + f["pos"] - 1
        if f["sig"].startswith("driver:"):
            raise core.Infra("driver built an inconsistent event: %s" % mon[gi])
        per_sig[f["sig"]] = per_sig.get(f["sig"], 0) + 1
        if per_sig[f["sig"]] > 3:
            continue
        case = {"call": cases[gi], "command": command(cases[gi]), "monitor_event": mon[gi]}
        if evs[gi].get("abort"):
            case["sanitizer_report"] = evs[gi].get("stderr", "")
        ctx.fail(f["sig"], f["why"], case)
    ctx.extra.setdefault("rejections_by_signature", {}).update(per_sig)
    return cases, evs, mon


def run(ctx):
    if os.environ.get("VERIF_SELFTEST") == "1" or not ctx.quick:
        selftest(ctx)           # binding self-test: a corrupted recorded field must be rejected
        ctx.extra["selftest"] = "corrupted field rejected"
    runs = [("MC_Calendar.tla", "MC_Calendar_walk.cfg", None, ["ClosedForms", "EpochCorrect", "EndOfWalk", "day export"]),
            ("MC_Calendar.tla", "MC_Calendar_log.cfg", None, ["LogOk"]),
            ("MC_Calendar.tla", "MC_Calendar_walk_dev.cfg", "EpochCorrect", []),
            ("MC_Calendar.tla", "MC_Calendar_log_dev.cfg", "LogOk", []),
            ("MC_Calendar.tla", "MC_Calendar_witness_leap.cfg", "NeverLeapDay", []),
            ("MC_Calendar.tla", "MC_Calendar_witness_carry.cfg", "NeverCarries", [])]
    res = nc.model_runs(ctx, runs, workers_each=1, parallel=6)
    ctx.exhaustive = True
    ctx.tick("model")
    days = sorted(tlc.leaves(res[0]["out"]), key=lambda x: x["day"])
    days = [d for i, d in enumerate(days) if i == 0 or d["day"] != days[i - 1]["day"]]
    if len(days) != 47482 or days[0]["day"] != 0 or days[-1]["day"] != 47481:
        raise core.Infra("calendar walk exported %d days" % len(days))
    rng = random.Random(ctx.seed)
    cases, ndays = build_cases(ctx, rng, days)
    cases, evs, mon = run_and_judge(ctx, cases, "c09")
    ctx.tick("probe+validate")
    cnt = {k: sum(1 for c in cases if c["k"] == k) for k in ("inst", "parse", "log")}
    ctx.rule = ("%d days of the TLC walk (all month ends and starts, 28/29 February, the days around 2038-01-19, %s), each with the "
                "first and last millisecond of the day and seeded instants pushed through the five field classes (%d instants, incl. a "
                "%s of one day second by second), %d texts built from the exported civil dates parsed by the field classes, %d log time "
                "stamps at precisions 0..9 around the rounding boundaries; one evaluation = one recorded line judged by T_Calendar"
                % (ndays, "every 7th other day" if ctx.quick else "every other day", cnt["inst"], "stride" if ctx.quick else "whole", cnt["parse"], cnt["log"]))
    for want in ("inst", "parse", "log"):
        i = next((i for i, c in enumerate(cases) if c["k"] == want and i > len(cases) // 7), 0)
        ctx.sample({"command": command(cases[i]), "monitor_event": mon[i]})
    ctx.trusted = ["TLC", "probe_num (moves data only)", "UBSan for signed overflow inside the codecs", "TZ=UTC in the probe's environment for the local-time variant of the log renderer"]
    ctx.assumptions = ["instants 1970-01-01 .. 2099-12-31 at millisecond precision; FIX times carry no leap seconds",
                       "MonthYear in its 6 character form reads back as the first day of the month",
                       "log time stamps: truncation or rounding with carry are both accepted; precisions 0..9"]
    ctx.extra["cases"] = cnt
    nc.guard_truncation(ctx)


def selftest(ctx):
    """Corrupt one rendered digit and one parsed day; the monitor must reject exactly those lines."""
    cases = [{"k": "inst", "day": 11016, "sec": 86399, "ms": 999}, {"k": "inst", "day": 20000, "sec": 5, "ms": 0},
             {"k": "log", "day": 100, "sec": 58, "ns": 123456789, "dp": 4, "gm": True}]
    evs = nc.run_commands(ctx, [command(c) for c in cases])
    mon = [to_event(c, e) for c, e in zip(cases, evs)]
    good = nc.judge(ctx, "T_Calendar", [[{"e": "Reset"}] + mon], "c09self")
    mon[0] = dict(mon[0], ts=mon[0]["ts"].replace("0229", "0301"))
    mon[1] = dict(mon[1], d8_p=dict(mon[1]["d8_p"], day=20001))
    bad = nc.judge(ctx, "T_Calendar", [[{"e": "Reset"}] + mon], "c09self")
    if good or sorted(f["pos"] for f in bad) != [1, 2]:
        raise core.Infra("C09 self-test: monitor did not single out the corrupted lines (%s / %s)" % (good, bad))
    return True
