"""C04 Strict decoding accepts exactly schema-conforming messages and retains every field
(DESIGN.md 5.1 decoder part, 6 C04; spec/Decode.tla, MC_Decode.tla, T_Decode.tla)."""
import random
from concurrent.futures import ThreadPoolExecutor

import core
import decode_common as dc
import tlc

PROBES = [dc.PROBE]

MANIFEST = dict(
    text='The strict decoder is specified in TLA+ as an acceptor over token sequences and an abstract schema (Decode.tla). TLC checks on a small schema, for every token sequence up to the bound, that the acceptor accepts exactly the sequences of a declarative grammar of C04\'s clauses and retains every token, and that each named deviation of the code breaks this. Every sequence TLC explored is instantiated on real message types of FIX42UTEST and FIX44, fed to the real Message::factory, and TLC runs the same acceptor over the real schema (rendered from the XML) on the logged tokens: the factory must accept iff the acceptor does, and the retained field tree must equal the acceptor\'s.',
    note='Tokenisation and value normal forms (007 = 7, timestamps with .000) are done by lib/decode_common.py (trusted). Group count vs number of elements is not demanded for acceptance (not in the statement).',
    tech='TLA+ acceptor spec + TLC exhaustive equivalence with a grammar; TLC-enumerated input cover replayed on the real decoder; TLC trace validation with the XML-derived schema',
    ref='5.1, 6 C04')

DEVS = [("MC_Decode_drop.cfg", "drop_after_unknown"), ("MC_Decode_mod.cfg", "tag_mod_65536"),
        ("MC_Decode_count.cfg", "count_unchecked")]


def models(ctx):
    """ideal (lenient + full) must hold, every deviation must violate, the witness must be reachable;
    the lenient run also exports every explored token sequence."""
    jobs = [("MC_Decode_export.cfg", None), ("MC_Decode_full.cfg", None), ("MC_Decode_witness.cfg", "Reach_NestedAccepted")] + DEVS
    if not ctx.quick:
        jobs[0] = ("MC_Decode_export_thorough.cfg", None)
    with ThreadPoolExecutor(max_workers=3) as ex:
        res = list(ex.map(lambda j: tlc.check("MC_Decode.tla", j[0], workers=3, timeout=1500), jobs))
    leaves = None
    for (cfg, want), r in zip(jobs, res):
        if want is None:
            if not r["ok"]:
                raise core.Infra("ideal acceptor violates %s (%s): the model is wrong" % (r["violated"], cfg))
            ctx.add_model(r, "MC_Decode.tla", cfg, ["AcceptsExactlyConforming", "RetainsAll"])
            if "export" in cfg:
                leaves = tlc.leaves(r["out"])
        else:
            if r["ok"]:
                raise core.Infra("%s no longer violates anything: invariants are vacuous" % cfg)
            ctx.extra.setdefault("deviation_witnesses", {})[cfg] = r["violated"]
    leaves = sorted(leaves or [], key=lambda x: (len(x["t"]), x["t"]))      # TLC's workers print in any order
    if not leaves or len(leaves) < 1000:
        raise core.Infra("input export produced only %d sequences" % len(leaves or []))
    return leaves


TYPES = {"utest": ["D", "E", "J", "8", "B", "A"], "fix44": ["D", "8", "AE", "i"]}


def mutate(s, toks, rng):
    """One structural mutation of a conforming token list (after MsgType, before CheckSum); returns
    (label, tokens, first3 override or None, checksum kind)."""
    toks = list(toks)
    kind = rng.choice(["drop", "dup", "swap", "unknown", "elsewhere", "wrap", "badsum", "first3", "begin", "zeros", "none"])
    first = None
    chk = "Cok"
    if kind == "drop" and toks:
        del toks[rng.randrange(len(toks))]
    elif kind == "dup" and toks:
        i = rng.randrange(len(toks))
        toks.insert(rng.randrange(i, len(toks)) + 1, toks[i])
    elif kind == "swap" and len(toks) > 1:
        i = rng.randrange(len(toks) - 1)
        toks[i], toks[i + 1] = toks[i + 1], toks[i]
    elif kind == "unknown":
        toks.insert(rng.randrange(len(toks) + 1), (str(rng.choice([5001, 40000, 65535])).encode(), b"u"))
    elif kind == "elsewhere":
        other = rng.choice([1, 44, 58, 100, 448, 55, 11])
        toks.insert(rng.randrange(len(toks) + 1), (str(other).encode(), dc.typed_value(s, other, rng) if other in s.bynum else b"x"))
    elif kind == "wrap" and toks:
        i = rng.randrange(len(toks))
        toks[i] = (str(int(toks[i][0]) + 65536).encode(), toks[i][1])
    elif kind == "badsum":
        chk = "Cbad"
    elif kind == "first3":
        first = rng.choice([(0, b"85"), (0, b"800"), (1, b"99"), (1, b"9000"), (2, b"359"), (2, b"3500")])
    elif kind == "begin":
        first = (0, b"8", b"FIX.9.9")
    elif kind == "zeros" and toks:
        cand = [i for i, (t, v) in enumerate(toks) if dc.ftype(s, int(t)) in dc.INT_TYPES and v.isdigit()]
        if cand:
            i = rng.choice(cand)
            toks[i] = (toks[i][0], b"00" + toks[i][1])
    return kind, toks, first, chk


def build_inputs(ctx, leaves):
    rng = random.Random(ctx.seed)
    inputs = []        # (which, tokens, bytes, sum, wf, abstract label)
    roles = {w: [dc.Roles(w, mt) for mt in mts if mt in dc.stock(w).bytype] for w, mts in TYPES.items()}
    for w in roles:
        roles[w] = [r for r in roles[w] if r.ok]
    # 1. every sequence TLC explored, on real message types
    per = 1 if ctx.quick else 2
    budget = 2000 if ctx.quick else 20000
    order = list(range(len(leaves)))
    rng.shuffle(order)
    acc = [i for i in order if leaves[i]["acc"]]
    rej = [i for i in order if not leaves[i]["acc"]]
    # accepted sequences all; rejected ones: every (reason, length) class first, then as the budget allows
    seen, first_rej, rest = set(), [], []
    for i in rej:
        key = (leaves[i]["why"], len(leaves[i]["t"]), leaves[i]["t"][-1])
        (first_rej if key not in seen else rest).append(i)
        seen.add(key)
    chosen = (acc + first_rej + rest)[:budget]
    n_inst = 0
    for n, i in enumerate(chosen):
        names = list(leaves[i]["t"])
        if not leaves[i]["acc"] and not any(n in ("Cok", "Cbad") for n in names):
            # TLC stops at the first rejected token; the real message is completed so that nothing else is wrong with it
            names += ([] if "Bm" in names else ["Bm"]) + ["Cok"]
        cands = [r for w in roles for r in roles[w] if r.supports(names)]
        if not cands:
            continue
        for j in range(per):
            r = cands[(n + j * 7 + ctx.seed) % len(cands)]
            data, toks, sm = r.instantiate(names, rng)
            inputs.append((r.which, toks, data, sm, True, ["cover", r.mt] + names))
            n_inst += 1
    ctx.extra["cover_sequences"] = len(chosen)
    ctx.extra["cover_sequences_total"] = len(leaves)
    # 2. seeded conforming messages of every message type and structural mutations of them
    nrand = 2 if ctx.quick else 25
    for w in dc.SCHEMAS:
        s = dc.stock(w)
        for mt in s.bytype:
            if mt in dc.rendered(w).bad:
                continue
            for j in range(nrand):
                h, b, t = dc.gen_message(s, mt, rng)
                toks = dc.flatten_nodes(h) + dc.flatten_nodes(b) + dc.flatten_nodes(t)
                if j % 3 == 0:
                    kind, toks2, first, chk = "none", toks, None, "Cok"
                else:
                    kind, toks2, first, chk = mutate(s, toks, rng)
                data, allt, sm = dc.compose2(s.beginstring, mt, toks2, chk)
                if first is not None:
                    # rewrite one of the first three fields: recompose by hand (BodyLength is unaffected by 8/9,
                    # a longer MsgType tag changes it)
                    pre = list(allt[:-1])
                    idx = first[0]
                    pre[idx] = (first[1], first[2] if len(first) > 2 else pre[idx][1])
                    payload = dc.wire(pre[2:])
                    pre[1] = (pre[1][0], str(len(payload)).encode())
                    body = dc.wire(pre)
                    sm = sum(body) % 256
                    ct = (b"10", ("%03d" % sm).encode())
                    data, allt = body + dc.wire([ct]), pre + [ct]
                inputs.append((w, allt, data, sm, True, ["rand", mt, kind]))
    # 3. Length typed fields that have no data partner in their message (Logon MaxMessageSize): ordinary fields
    for w in dc.SCHEMAS:
        s = dc.stock(w)
        for mt, md in s.bytype.items():
            mem = md["members"]
            for i, m in enumerate(mem):
                if m.field.type.strip() == "LENGTH" and (i + 1 == len(mem) or mem[i + 1].field.type.strip() != "DATA"):
                    for val in (b"5", b"4096"):
                        h, b, t = dc.gen_message(s, mt, rng, popt=0.2)
                        b = [x for x in b if x[0] != m.field.number]
                        nodes = dc.gen_members(s, mem, rng, popt=0.0, force={m.field.number}, values={m.field.number: val})
                        toks = dc.flatten_nodes(h) + dc.flatten_nodes(nodes) + dc.flatten_nodes(t)
                        data, allt, sm = dc.compose2(s.beginstring, mt, toks, "Cok")
                        inputs.append((w, allt, data, sm, True, ["lone_length", mt, val.decode()]))
    # 4. crossed pairs: the Length field of one pair, without its data, immediately followed by the data field of
    #    ANOTHER pair of the same part (header: 90/91 and 212/213; bodies with two pairs).  Each is an ordinary field
    #    then (a length pairs only with its own data field).  Two shapes: the data value is longer than the foreign
    #    length says, and the foreign length reaches exactly to the separator of the following field.
    npair = 0
    for w in dc.SCHEMAS:
        s = dc.stock(w)
        pairs = [(a.number, b.number) for a, b in s.length_pairs()]
        hnums = {m.field.number for m in s.header}
        hp = [p for p in pairs if p[0] in hnums and p[1] in hnums]
        mts = [mt for mt in s.bytype if mt not in dc.rendered(w).bad]
        rng.shuffle(mts)
        done = 0
        for mt in mts:
            nums = {m.field.number for m in s.bytype[mt]["members"]}
            bp = [p for p in pairs if p[0] in nums and p[1] in nums]
            for where, pp in (("header", hp), ("body", bp)):
                if len(pp) < 2 or (where == "header" and done >= 2):
                    continue
                (l1, d1), (l2, d2) = rng.sample(pp, 2)
                for shape in ("longer", "reaches_next"):
                    h, b, t = dc.gen_message(s, mt, rng, popt=0.2)
                    drop = {l1, d1, l2, d2}
                    h = [x for x in h if x[0] not in drop]
                    b = [x for x in b if x[0] not in drop]
                    val = b"abcd" if shape == "longer" else b"ab"
                    part = h if where == "header" else b
                    part += [(l1, b"2", None), (d2, val, None)]
                    toks = dc.flatten_nodes(h) + dc.flatten_nodes(b) + dc.flatten_nodes(t)
                    if shape == "reaches_next":
                        i = max(k for k, (tg, v) in enumerate(toks) if int(tg) == d2)
                        nxt = toks[i + 1] if i + 1 < len(toks) else (b"10", b"000")
                        reach = len(val) + 1 + len(nxt[0]) + 1 + len(nxt[1])
                        toks[i - 1] = (toks[i - 1][0], str(reach).encode())
                    data, allt, sm = dc.compose2(s.beginstring, mt, toks, "Cok")
                    inputs.append((w, allt, data, sm, True, ["crossed_pair", mt, where, shape, str(l1), str(d2)]))
                    npair += 1
            done += 1
            if ctx.quick and done >= 8:
                break
    ctx.extra["crossed_pair_inputs"] = npair
    return inputs


def run(ctx):
    leaves = models(ctx)
    ctx.tick("model")
    ctx.exhaustive = True
    inputs = build_inputs(ctx, leaves)
    cmds = [("i%d" % n, dc.dec_cmd("i%d" % n, w, "s", 0, data)) for n, (w, toks, data, sm, wf, lab) in enumerate(inputs)]
    res = dc.run_cmds(ctx, cmds)
    ctx.tick("probe")
    execs = []
    for n, (w, toks, data, sm, wf, lab) in enumerate(inputs):
        ev = (res.get("i%d" % n) or [None])[-1]
        execs.append([{"e": "Reset", "prop": "C04", "schema": w}, dc.strict_event(dc.stock(w), toks, sm, ev, wf)])
    if ctx.extra.get("selftest"):
        return execs, inputs
    fails, labels, info = dc.validate(ctx, execs, "c04")
    ctx.add_validation(info, len(execs))
    ctx.tick("validate")
    for n, ex in enumerate(execs):
        e = ex[1]
        ctx.case([inputs[n][0], [t["k"] for t in e["toks"]], e["res"]], nontrivial=True)
    seen = set()
    hist = {}
    for f in fails:
        hist[f["sig"]] = hist.get(f["sig"], 0) + 1
    ctx.extra["monitor_rejections"] = hist
    for f in fails:
        w, toks, data, sm, wf, lab = inputs[f["exec"]]
        key = f["sig"]
        if key in seen:
            ctx.fail(f["sig"], f["why"], {"label": lab, "see": "first execution with this signature"})
            continue
        seen.add(key)
        ctx.fail(f["sig"], f["why"], {"schema": w, "label": lab, "bytes_hex": data.hex(), "text": data.decode("latin-1").replace("\x01", "|"),
                                      "event": {k: v for k, v in f["event"].items() if k != "toks"},
                                      "replay": "probe_decode: " + cmds[f["exec"]][1][:4000]})
    nacc = sum(1 for ex in execs if ex[1]["res"] == "ok")
    ctx.extra["accepted_by_factory"] = nacc
    ctx.rule = ("TLC explores every token sequence of the small schema up to length %d (%d sequences, each the first "
                "rejection or a complete message); %d of them were instantiated on %s plus %d seeded conforming / mutated "
                "messages over all message types of both schemas; distinct = distinct (schema, tag sequence, outcome)"
                % (11, len(leaves), ctx.extra["cover_sequences"], TYPES, len(inputs) - ctx.extra["cover_sequences"]))
    for n in (0, len(execs) // 2, len(execs) - 1):
        ctx.sample({"label": inputs[n][5], "text": inputs[n][2].decode("latin-1").replace("\x01", "|")[:400],
                    "result": execs[n][1]["res"], "retained": execs[n][1]["flat"][:12]})
    ctx.trusted = ["TLC", "probe_decode (moves data only)", "lib/decode_common.py tokeniser, value normal forms and byte sum",
                   "lib/schema.py (independent XML reader)", "ASan/UBSan"]
    ctx.assumptions = ["group scopes are tag-disjoint from their enclosing scopes (checked when the schema is rendered)",
                       "value texts are compared modulo leading zeros of integers, trailing zeros of decimals, '.000' of timestamps"]


def selftest(ctx):
    """Binding: corrupt one retained field of an accepted execution -> the monitor must reject it."""
    ctx.extra["selftest"] = True
    leaves = [{"t": ["Hm", "Bm", "Bo", "Cok"], "acc": True, "why": ""}] * 1000
    inputs = build_inputs(ctx, leaves[:3])[:40]
    cmds = [("i%d" % n, dc.dec_cmd("i%d" % n, w, "s", 0, data)) for n, (w, toks, data, sm, wf, lab) in enumerate(inputs)]
    res = dc.run_cmds(ctx, cmds)
    execs = []
    for n, (w, toks, data, sm, wf, lab) in enumerate(inputs):
        execs.append([{"e": "Reset", "prop": "C04", "schema": w}, dc.strict_event(dc.stock(w), toks, sm, res["i%d" % n][-1], wf)])
    good = next(i for i, ex in enumerate(execs) if ex[1]["res"] == "ok" and len(ex[1]["flat"]) > 5)
    base, _, _ = dc.validate(ctx, execs, "c04self0")
    execs[good][1]["flat"][4]["v"] += "~"
    after, _, _ = dc.validate(ctx, execs, "c04self1")
    return any(f["exec"] == good for f in after) and not any(f["exec"] == good for f in base)
