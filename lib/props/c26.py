"""C26 Persisters honour the store contract (DESIGN.md 6, spec/Persister.tla, MC_Persister.tla,
T_Persister.tla)."""
import random

import core
import persist_common as pc
import tlc


PROBES = [("probe_persist", "asan", None, ["utest"])]

MANIFEST = dict(
    text='TLC proves the store contract (map + control record) for every operation history up to the bound on the TLA+ contract model, exports its complete (state, operation) transition cover, and every exported history is replayed on the real MemoryPersister and FilePersister; TLC then validates each recorded execution against the contract (trace validation), so every return value of every call is judged.',
    note='Trusts TLC, the probe (moves data only), the bytes->id mapping, ASan/UBSan. Keys 0..3 exhaustively, wider keys seeded.',
    tech='TLA+ contract spec + TLC exhaustive check; transition-cover replay on the real persisters; TLC trace validation',
    ref='5.9, 6 C26')

def random_ops(rng, n, maxkey):
    ops = []
    nid = 20
    for _ in range(n):
        r = rng.random()
        k = lambda: rng.choice([0, 1, 2, 3, rng.randint(0, maxkey), maxkey])
        if r < 0.30:
            nid += 1
            ops.append({"op": "Put", "seq": k(), "id": nid})
        elif r < 0.45:
            ops.append({"op": "Get", "seq": k()})
        elif r < 0.55:
            ops.append({"op": "PutCtrl", "s": rng.randint(1, 50), "r": rng.randint(1, 50)})
        elif r < 0.65:
            ops.append({"op": "GetCtrl"})
        elif r < 0.72:
            ops.append({"op": "Last"})
        elif r < 0.86:
            ops.append({"op": "Nearest", "req": k(), "last": k()})
        else:
            ops.append({"op": "Range", "from": k(), "to": k()})
    return ops


def run(ctx):
    # 1. the contract itself: "map + control record" for every history up to the bound
    cfg = "MC_Persister.cfg" if ctx.quick else "MC_Persister_thorough.cfg"
    r = tlc.check("MC_Persister.tla", cfg, timeout=1200)
    if not r["ok"]:
        raise core.Infra("design spec violates %s: the contract model is wrong" % r["violated"])
    ctx.add_model(r, "MC_Persister.tla", cfg, ["MapLike"])
    # 2. transition cover: every (abstract state, operation) pair with a shortest history reaching it
    r = tlc.check("MC_Persister.tla", "MC_Persister_cover.cfg", timeout=600)
    if not r["ok"]:
        raise core.Infra("cover run violates %s" % r["violated"])
    ctx.add_model(r, "MC_Persister.tla", "MC_Persister_cover.cfg", ["MapLike", "transition cover export"])
    ctx.tick("model")
    hists = tlc.leaves(r["out"])
    if len(hists) < 1000:
        raise core.Infra("transition cover export produced only %d histories" % len(hists))
    ctx.exhaustive = True
    scheds = []
    for kind in ("mem", "file"):
        for h in hists:
            scheds.append((kind, pc.cmds_for_ops(h)))
    # 3. seeded longer histories over a wider key range
    rng = random.Random(ctx.seed)
    nrand = 300 if ctx.quick else 6000
    for i in range(nrand):
        ops = random_ops(rng, rng.randint(5, 40), rng.choice([4, 9, 30]))
        scheds.append((("mem", "file")[i % 2], pc.cmds_for_ops(ops)))
    execs, memerr = pc.run_schedules(ctx, scheds, "c26")
    ctx.tick("probe")
    pc.judge(ctx, scheds, execs, memerr, "c26")
    ctx.tick("validate")
    ctx.rule = ("TLC enumerates every (contract state, operation) pair over keys 0..3 (transition cover, %d "
                "histories) and each is replayed on MemoryPersister and FilePersister, plus %d seeded longer "
                "histories; distinct = distinct abstract call/result sequences with at least one successful store"
                % (len(hists), nrand))
    ctx.sample({"schedule": scheds[len(hists) // 2][1], "trace": execs[len(hists) // 2]})
    ctx.sample({"schedule": scheds[-1][1], "kind": scheds[-1][0], "trace": execs[-1][:12]})
    ctx.trusted = ["TLC", "probe_persist (moves data only)", "hex->id mapping in lib/persist_common.py",
                   "ASan/UBSan for memory errors inside the persisters"]
    ctx.assumptions = ["byte strings are represented by message ids; distinct ids have distinct bytes"]
