"""C12 Metadata lookup tables behave as exact maps; the insertable sorted set (DESIGN.md 5.3, 6 C12;
spec/Tables.tla, MC_Tables.tla, MC_TablesSet.tla, T_Tables.tla; harness/src/probe_tab.cpp)."""
import json
import os
import random

import core
import schema
import tab_common as tc
import tlc

PROBES = [("probe_tab", "asan", None, ["utest", "fix44"])]

MANIFEST = dict(
    text='TLC checks the transcriptions of GeneratedTable::_find and of the key-indexed hash arrays against total-map lookup for every sorted key table within the bound, and the presorted_set state machine (arr/sz/cap, insert by first element / in-place shift / reallocation, find, clear) against set semantics for every operation history up to the bound from every initial capacity; each named deviation must break an invariant. TLC exports the transition cover and all short histories of the set machine; they are replayed on both real presorted_set variants under ASan. The generated field/message tables, the reverse name tables and every message\'s, group\'s, header\'s and trailer\'s FieldTraits of FIX42UTEST and FIX44 are interrogated with every key 0..65535, every msgtype/name plus near misses; TLC validates every recorded answer against the map read from the schema XML by lib/schema.py (trace validation).',
    note='Trusts TLC, probe_tab (moves data only), lib/schema.py (XML reader, component expansion), ASan/UBSan for memory errors. Positions are compared as an order, not as numbers. Nested groups to depth 3.',
    tech='TLA+ design spec + TLC exhaustive check; transition-cover and exhaustive short-history replay on the real sorted set; TLC trace validation of table lookups against the XML-derived map',
    ref='5.3, 6 C12')


def models(ctx):
    r = tlc.check("MC_Tables.tla", "MC_Tables_ideal.cfg", workers=8)
    if not r["ok"]:
        raise core.Infra("static table transcription violates %s" % r["violated"])
    ctx.add_model(r, "MC_Tables.tla", "MC_Tables_ideal.cfg", ["TableExact", "HashExact"])
    cfg = "MC_TablesSet_ideal.cfg" if ctx.quick else "MC_TablesSet_ideal_thorough.cfg"
    r = tlc.check("MC_TablesSet.tla", cfg, workers=8, timeout=1500)
    if not r["ok"]:
        raise core.Infra("ideal sorted-set design violates %s" % r["violated"])
    ctx.add_model(r, "MC_TablesSet.tla", cfg, ["SetLike", "ResultsRight", "IterValid", "NoLeak", "InBounds"])
    # vacuity guards: every named deviation must be visible to an invariant
    for cfg, want in (("MC_TablesSet_stale.cfg", "IterValid"), ("MC_TablesSet_leak.cfg", "NoLeak"),
                      ("MC_TablesSet_zero.cfg", "InBounds")):
        r = tlc.check("MC_TablesSet.tla", cfg, workers=4)
        if r["ok"] or r["violated"] != want:
            raise core.Infra("deviation config %s should violate %s, got %s" % (cfg, want, r["violated"]))
        ctx.extra.setdefault("deviation_witnesses", {})[cfg] = r["violated"]


def set_histories(ctx):
    hists = []
    for cfg, least in (("MC_TablesSet_cover.cfg", 1000),
                       ("MC_TablesSet_all.cfg" if ctx.quick else "MC_TablesSet_all_thorough.cfg", 1000)):
        # one worker for the cover: which shortest history TLC keeps per edge then does not depend on scheduling
        r = tlc.check("MC_TablesSet.tla", cfg, workers=1 if "cover" in cfg else 8, timeout=1500)
        if not r["ok"]:
            raise core.Infra("export run %s violates %s" % (cfg, r["violated"]))
        hs = tlc.leaves(r["out"])
        if len(hs) < least:
            raise core.Infra("%s exported only %d histories" % (cfg, len(hs)))
        ctx.add_model(r, "MC_TablesSet.tla", cfg, ["SetLike", "history export"])
        ctx.extra.setdefault("exported_histories", {})[cfg] = len(hs)
        hists += hs
    seen, out = set(), []
    for h in hists:
        k = json.dumps(h, sort_keys=True)
        if k not in seen:
            seen.add(k)
            out.append((k, h))
    return [h for _, h in sorted(out, key=lambda x: x[0])]


def random_histories(rng, n):
    out = []
    for _ in range(n):
        keys = list(range(1, rng.choice([6, 12, 40]) + 1))
        init = sorted(rng.sample(keys, rng.choice([0, 0, 1, 3, 7]) if len(keys) > 7 else rng.choice([0, 1, 2])))
        h = [{"op": "New", "reserve": rng.choice([0, 1, 2, 3, 30, 50, 100, 250]), "init": init}]
        for i in range(rng.randint(8, 60)):
            x = rng.random()
            if x < 0.6:
                h.append({"op": "Ins", "k": rng.choice(keys), "p": i + 1})
            elif x < 0.93:
                h.append({"op": "Find", "k": rng.choice(keys)})
            else:
                h.append({"op": "Clear"})
        out.append(h)
    return out


def abstract(ex, tr):
    return [(e.get("e"), e.get("k"), e.get("ok"), e.get("found"), e.get("key"), e.get("hit"), e.get("lo"), e.get("n"), e.get("msg"))
            for e in tr[1:]] + [ex["meta"].get("src", ex["meta"]["class"])]


def nontrivial(ex, tr):
    return any((e["e"] == "Ins" and e["ok"]) or e.get("hit") or e.get("n") for e in tr[1:])


def run(ctx):
    tc.probe_binary()
    ctx.tick("build")
    if os.environ.get("VERIF_SELFTEST") == "1" or not ctx.quick:
        selftest(ctx)
    models(ctx)
    ctx.tick("model")
    rng = random.Random(ctx.seed)
    # ---- the sorted set: histories chosen by TLC + seeded longer ones over wider keys/capacities ------
    hists = set_histories(ctx)
    nrand = 150 if ctx.quick else 3000
    rhists = random_histories(rng, nrand)
    sets = [tc.set_exec(v, h) for h in hists + rhists for v in ("gen", "ft")]
    # executions that start from an empty set built with reserve 0 are kept together: if the first
    # insert aborts (zero_reserve) they all do, and one demonstration is enough
    zero = [e for e in sets if e["meta"]["class"].endswith("zero_reserve_empty")]
    rest = [e for e in sets if not e["meta"]["class"].endswith("zero_reserve_empty")]
    ctx.tick("export")
    # ---- the static tables of both schemas ------------------------------------------------------------
    tabs = []
    for which in ("utest", "fix44"):
        sch = schema.stock(which)
        tabs += tc.field_table_execs(which, sch)
        tabs += tc.string_table_execs(which, sch, rng, ctx.quick)
        tabs += tc.traits_execs(which, sch)
    execs = rest + tabs
    traces, aborts = tc.run_execs(ctx, execs, "c12", nproc=6)
    ztraces, zaborts = tc.run_execs(ctx, zero, "c12z", nproc=2, max_aborts=1)
    ctx.tick("probe")
    allx = execs + zero
    alltr = traces + ztraces
    allab = aborts + [(i + len(execs), rc, k, rep, last) for i, rc, k, rep, last in zaborts]
    tc.judge(ctx, "T_Tables", allx, alltr, allab, "c12", abstract, nontrivial, chunks=8)
    ctx.tick("validate")
    ctx.exhaustive = True
    nlook = sum(1 for t in alltr if t for e in t[1:] if e["e"] == "Lookup")
    ctx.extra["table_executions"] = len(tabs)
    ctx.extra["set_executions"] = len(sets)
    ctx.extra["keys_scanned_per_table"] = 65536
    ctx.extra["string_lookups"] = nlook
    ctx.rule = ("sorted set: %d histories exported by TLC (transition cover of the set machine + every history up to "
                "the bound) and %d seeded longer ones, each replayed on both presorted_set variants; tables: every key "
                "0..65535 on find_be and _be.find_ptr, %d string lookups (every msgtype / message name / field name and "
                "near misses), %d FieldTraits sets (messages, groups to depth 3, header, trailer) x 65536 keys, for "
                "FIX42UTEST and FIX44; distinct = distinct abstract call/result sequences"
                % (len(hists), nrand, nlook, sum(1 for e in tabs if e["meta"]["class"] == "traits")))
    mid = len(rest) // 2
    if traces[mid]:
        ctx.sample({"history": rest[mid]["meta"]["history"], "trace": traces[mid]})
    for e, t in zip(tabs, traces[len(rest):]):
        if t and e["meta"]["class"] == "stab":
            ctx.sample({"table": e["meta"]["src"], "trace_head": t[1:6]})
            break
    ctx.trusted = ["TLC", "probe_tab (moves data only; iterator offsets by pointer arithmetic)",
                   "lib/schema.py (XML reader, component expansion, 'used field' rule)", "ASan/UBSan for memory errors"]
    ctx.assumptions = ["the generated tables are meant to hold exactly the fields referenced by the header, the trailer or a "
                       "message, and the message table additionally the keys 'header' and 'trailer'",
                       "field positions are compared as an order (the numbering convention is the compiler's)",
                       "array leaks of the sorted set are reported as design labels, not as violations"]


def selftest(ctx):
    """Binding self-test: corrupt one recorded field of a good execution; the monitor must reject."""
    h = [{"op": "New", "reserve": 1, "init": []}, {"op": "Ins", "k": 3, "p": 1}, {"op": "Find", "k": 3}]
    ex = tc.set_exec("gen", h)
    traces, aborts = tc.run_execs(ctx, [ex], "c12self")
    bad = [dict(e) for e in traces[0]]
    bad[2]["found"] = False
    fails, _, _ = tlc.validate_execs("T_Tables.tla", "T_Tables.cfg", [traces[0], bad], ctx.workdir, "c12self", chunks=1)
    if [f["exec"] for f in fails] != [1]:
        raise core.Infra("self-test: corrupted execution not rejected (or good one rejected): %s" % fails)
    ctx.extra["selftest"] = "corrupted find result rejected"
