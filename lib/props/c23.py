"""C23 Logon acceptance and CompID identity (spec/Logon.tla, SessionMon.tla C23Step)."""
import itertools
import random

import core
import session_common as sc
import session_model as sm
import tlc

PROBES = [("probe_session", "asan", None, ["utest"]), ("probe_session", "plain", None, ["utest"])]

MANIFEST = dict(
    text="TLC enumerates on the logon design (Logon.tla) every combination of role x CompID enforcement x client list x "
         "inbound Logon (SenderCompID / TargetCompID matching or wrong, ResetSeqNumFlag, in sequence or too high, "
         "HeartBtInt), checks that the C23 monitor accepts the ideal decision and rejects the deviation sid_ne_is_and, and "
         "exports every case; each is executed on a real acceptor / initiator Session (Session::process of the Logon over "
         "a socketpair) and judged by the monitor: logon completes only with the right TargetCompID and a listed sender, "
         "the response echoes HeartBtInt, ResetSeqNumFlag resets both numbers to 1, an initiator refuses a non-mirroring "
         "response; SessionID == / != are compared on all CompID pairs; CompIDs containing the separators of the printed id (\"A->B\" / \"C\" against \"A\" / \"B->C\") are among the identities.",
    note="'Completes logon' = session state continuous and not shut down after the call. Refusing a good Logon is not judged "
         "here (the statement is an only-if); C20/C21 cover establishment.",
    tech="TLA+ logon design spec + TLC enumeration; every case replayed on real acceptor/initiator sessions; TLC trace validation",
    ref="5.6, 6 C23")


def exec_from_case(k, persist="mem", cfg_recv=0, cfg_send=0):
    own = "INI" if k["role"] == "ini" else "ACC"
    peer = "ACC" if k["role"] == "ini" else "INI"
    ex = sc.Exec("C23", role=k["role"], persist=persist, sender=own, target=peer, flags={"enforce": k["enforce"]},
                 clients=k["clients"], cfg_recv=cfg_recv, cfg_send=cfg_send)
    ex.start()
    sci = peer if k["sci"] == "match" else "EVIL"
    tci = own if k["tci"] == "match" else "OTHER"
    # with ResetSeqNumFlag the counterparty restarts at 1 whatever numbers were configured
    base = 1 if k["reset"] else (cfg_recv or 1)
    ex.logon_exchange(hb=k["hb"], seq=base + k["seqd"], reset=k["reset"], sender=sci, target=tci)
    # a follow-up application message shows whether the session really is in normal operation
    return ex


def run(ctx):
    sm.check_state_machine(ctx)      # SessionStates.tla: the whole state machine; every recorded call is labelled against it
    r = tlc.check("Logon.tla", "MC_Logon_ideal.cfg", workers=4, timeout=600)
    if not r["ok"]:
        raise core.Infra("ideal logon design rejected by the C23 monitor: %s" % r["violated"])
    ctx.add_model(r, "Logon.tla", "MC_Logon_ideal.cfg", ["MonitorAccepts"])
    cases = tlc.leaves(r["out"])
    if len(cases) < 300:
        raise core.Infra("case export produced only %d cases" % len(cases))
    d = tlc.check("Logon.tla", "MC_Logon_dev.cfg", workers=4, timeout=600)
    if d["ok"]:
        raise core.Infra("deviation sid_ne_is_and not rejected: C23 monitor vacuous")
    ctx.extra["deviation_witnesses"] = ["sid_ne_is_and"]
    ctx.tick("model")
    execs = []
    for k in cases:
        execs.append(exec_from_case(k))
    rng = random.Random(ctx.seed + 23)
    for k in rng.sample(cases, 60 if ctx.quick else len(cases)):
        execs.append(exec_from_case(k, persist="file", cfg_recv=rng.choice([0, 4])))
    # sessions started with requested sequence numbers (Session::start arguments), with and without ResetSeqNumFlag
    for k in cases:
        if k["sci"] == "match" and k["tci"] == "match" and k["clients"] != ["ELSE"]:
            cs, cr = rng.choice([(7, 0), (0, 9), (7, 9)])
            execs.append(exec_from_case(k, cfg_recv=cr, cfg_send=cs))
    # CompIDs that contain the separators of the printed session id ("FIX.4.2:Sender->Target"): identities that differ
    # although their printed forms coincide, as the initiator's own identity against a non-mirroring response
    for own_s, own_t in [("A->B", "C"), ("A", "B->C"), ("X:A", "B"), ("A->B->C", "D")]:
        whole = own_s + "->" + own_t
        cuts = [i for i in range(len(whole)) if whole.startswith("->", i)]
        for c in cuts:
            rt, rs = whole[:c], whole[c + 2:]          # response target / sender that re-split the same printed form
            for enforce in (True, False):
                ex = sc.Exec("C23", role="ini", persist="mem", sender=own_s, target=own_t, flags={"enforce": enforce}, clients=[])
                ex.start()
                ex.logon_exchange(hb=30, sender=rs, target=rt)
                execs.append(ex)
    # SessionID comparisons on all pairs over a small CompID alphabet (incl. CompIDs containing the separator)
    ex = sc.Exec("C23")
    for s1, t1, s2, t2 in itertools.product(["A", "B", "AB"], repeat=4):
        ex.sidcmp(s1, t1, s2, t2)
    for s1, t1, s2, t2 in itertools.product(["A", "A->B", "B->C", "C"], repeat=4):
        ex.sidcmp(s1, t1, s2, t2)
    execs.append(ex)
    traces, aborts = sc.run_execs(ctx, execs, "c23")
    ctx.tick("probe")
    sc.judge(ctx, execs, traces, aborts, "c23", chunks=6)
    ctx.tick("validate")
    ctx.exhaustive = True
    ctx.rule = ("every case of the TLC-enumerated logon design (%d) on a memory persister, a seeded subset on a file persister with a "
                "configured receive number, CompIDs containing the separators of the printed session id, and 337 SessionID comparisons; distinct = distinct configurations" % len(cases))
    ctx.sample({"case": cases[7], "commands": execs[7].cmds})
    ctx.trusted = ["TLC", "probe_session", "lib/fixmsg.py", "ASan/UBSan (every 8th execution)"]


def replay(ctx, doc):
    sc.replay_case(ctx, doc)
