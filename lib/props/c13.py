"""C13 Schema compiler output implements the schema
(DESIGN.md 5.4, 6 C13; spec/SchemaOps.tla, spec/SchemaComp.tla, spec/MC_SchemaComp.tla, spec/T_SchemaComp.tla,
harness/src/probe_meta.cpp, lib/schemacomp_common.py)."""
import json
import os
import random

import core
import schemacomp_common as sc

PROBES = [sc.PROBE]

MANIFEST = dict(
    text='SchemaComp.tla builds FIX schemas by construction actions (DeclField(type, enumerated values?), DeclPair/PutPair (LENGTH + DATA), AddMessage(admin?), AddComponent, PutField, UseComponent, AddGroup, NestGroup, ReuseCountField(same | other flags | other order | other members | other nested group | nested group reflagged or reordered), Finish) on a fixed skeleton (standard header/trailer, seven session messages); the state is the meaning of the schema. TLC enumerates two small universes exhaustively (groups nested to depth 3 and reused across two messages; components holding groups and used inside groups; components inside components) and simulates the full universe (10 fields over every supported type with and without enumerated values, 3 messages incl. one admin, 2 components, 4 count fields, one LENGTH/DATA pair), checks on every completed schema ValidSchema, OwnTraits and DistinctDefsDistinctTraits for the ideal group-table design and exports the schemas. Each chosen schema is rendered as FIX XML, compiled by the freshly built f8c, the generated C++ is compiled and linked with probe_meta; TLC validates (i) a dump of the generated metadata (field numbers, names, enumerated values; msgtypes, names, admin flags; per container - header, trailer, message, every repeating group at every level - members, types, mandatory and group flags, order by position) against the abstract schema state (T_SchemaComp) and (ii) messages of each schema (mandatory-only, all-optional, random subsets, deepest nesting): encode/decode/re-encode round trips and the wire well-formedness of every encoding (the C01 and C02 monitors of T_Codec with facts read from the XML).',
    note='Verdicts come from the two TLA+ monitors only. Generated code is compiled uninstrumented at -O0 (runtime and probe are ASan/UBSan). Readings adopted: unused declared fields may be absent; mandatory flags of 8/9/35/10 and of members of a group inside an optional component are not judged; position values are judged by the order they induce; TZTIMEONLY/TZTIMESTAMP (no parser/printer in the runtime) are outside the generated family; LENGTH/DATA pairs are placed at message level only (pairs inside groups are a C06 finding). Quick tier reuses cached TLC results of an unchanged design spec. Trusts TLC, the XML renderer (40 lines), lib/schema.py, probe_meta/probe_codec (move data only), g++.',
    tech='TLA+ schema-construction spec + TLC exhaustive check / simulation and schema export; real f8c + C++ compiler per schema; TLC trace validation of the metadata dump and of codec round trips',
    ref='5.4, 6 C13')

GROUP_PROPS = ["Valid", "OwnTraits", "DistinctDefsDistinctTraits", "schema export"]
KNOWN_CLASS = {"ReuseCountField_flags", "ReuseCountField_order"}       # schemas that meet the known shared-traits deviation


def models(ctx):
    q = ctx.quick
    g = sc.model(ctx, "MC_SchemaComp.tla", "MC_SchemaComp_groups_quick.cfg" if q else "MC_SchemaComp_groups.cfg", GROUP_PROPS)
    c = sc.model(ctx, "MC_SchemaComp.tla", "MC_SchemaComp_comps_quick.cfg" if q else "MC_SchemaComp_comps.cfg", GROUP_PROPS)
    n = sc.model(ctx, "MC_SchemaComp.tla", "MC_SchemaComp_nestcomp.cfg", GROUP_PROPS)
    ctx.exhaustive = True
    # vacuity guards: the family contains two-definition count fields, depth-3 nesting, groups inside components,
    # and the design's OwnTraits is violated when flags and order are left out of a definition's identity
    sc.model(ctx, "MC_SchemaComp.tla", "MC_SchemaComp_witness_NoTwoDefinitions.cfg", [], expect="NoTwoDefinitions")
    sc.model(ctx, "MC_SchemaComp.tla", "MC_SchemaComp_witness_NoDepth3.cfg", [], expect="NoDepth3")
    sc.model(ctx, "MC_SchemaComp.tla", "MC_SchemaComp_witness_NoComponentGroup.cfg", [], expect="NoComponentGroup")
    sc.model(ctx, "MC_SchemaComp.tla", "MC_SchemaComp_dev_flags.cfg", [], expect="OwnTraits")
    if not g["skel"]:
        raise core.Infra("the design model did not export the skeleton")
    return g, c, n


def replay(ctx):
    with open(ctx.replay) as fh:
        case = json.load(fh)["case"]
    g = sc.model(ctx, "MC_SchemaComp.tla", "MC_SchemaComp_groups_quick.cfg", GROUP_PROPS)
    opts = dict(per_type_random=4, n_deep=6, max_count=3, keep_objects=False, parallel=1)
    sc.judge(ctx, "C13", [(case.get("kind", "replay"), case["leaf"])], g["skel"], opts, "replay")
    ctx.rule = "replay of one recorded schema"


def run(ctx):
    if ctx.replay:
        return replay(ctx)
    rng = random.Random(ctx.seed)
    q = ctx.quick
    g, c, n = models(ctx)
    nsim = 10 if q else 200
    sim = sc.model(ctx, "MC_SchemaComp.tla", "MC_SchemaComp_sim.cfg", GROUP_PROPS, sim=(nsim + 4, 60, ctx.seed))
    ctx.tick("model")
    if len(sim["leaves"]) < nsim // 2:
        raise core.Infra("simulation completed only %d schemas" % len(sim["leaves"]))
    n_g, n_c = (10, 4) if q else (90, 40)
    fam = [("groups", l) for l in sc.choose(rng, g["leaves"], n_g)]
    fam += [("components", l) for l in sc.choose(rng, c["leaves"], n_c)]
    # components inside components (referenced from messages and from groups, required and optional at either level)
    nested = [l for l in n["leaves"] if any(h.startswith("NestComponent") for h in l["hist"])]
    if len(nested) < 100:
        raise core.Infra("only %d schemas with a component inside a component were exported" % len(nested))
    # one schema (thorough: five) per way of nesting that brings a mandatory member: inner reference required/optional x
    # outer reference required/optional x referenced from a message / from inside a group
    classes = {}
    for l in sorted(nested, key=lambda l: json.dumps(l, sort_keys=True)):
        k = tuple(sorted(f for f in sc.features(l) if "_with_mandatory_member_inside_" in f))
        if k:
            classes.setdefault(k, []).append(l)
    if len(classes) < 8:
        raise core.Infra("only %d nesting classes with mandatory members among the exported schemas" % len(classes))
    picked = []
    for k in sorted(classes):
        rng.shuffle(classes[k])
        picked += classes[k][:1 if q else 5]
    if not q:
        have = {json.dumps(l, sort_keys=True) for l in picked}
        picked += [l for l in sc.choose(rng, nested, 30) if json.dumps(l, sort_keys=True) not in have]
    n_n = len(picked)
    ctx.extra["nesting_classes"] = ["+".join(k) for k in sorted(classes)]
    fam += [("nested_components", l) for l in picked]
    simpick = sorted(sim["leaves"], key=lambda l: json.dumps(l, sort_keys=True))
    rng.shuffle(simpick)
    kept, known = [], 0
    for l in simpick:
        kept.append(l)
    fam += [("simulated", l) for l in kept[:nsim]]
    opts = dict(per_type_random=2 if q else 6, n_deep=3 if q else 10, max_count=3, keep_objects=q, parallel=8)
    summ, outs, mexecs = sc.judge(ctx, "C13", fam, g["skel"], opts, "family")
    if not q or os.environ.get("VERIF_SELFTEST"):
        sc.selftest(ctx, mexecs)
    ctx.rule = ("TLC enumerates the two small universes exhaustively (%d + %d completed schemas) and simulates the full one (%d); "
                "%d schemas (%d + %d + %d with nested components chosen by a seeded greedy cover of construction actions and structural features, %d simulated) "
                "went through the real f8c, g++ and probe_meta; every metadata dump and %d message round trips were judged by "
                "TLC; distinct = distinct (schema shape) and (schema shape, message shape, build order, outcome) tuples" %
                (len(g["leaves"]), len(c["leaves"]), len(sim["leaves"]), len(summ), n_g, n_c, n_n, len(summ) - n_g - n_c - n_n,
                 ctx.extra.get("messages_round_tripped", 0)))
    for s, ex in list(zip(summ, mexecs))[:2]:
        ctx.sample({"schema": s, "hist": [l for k, l in fam if sc.schema_id(sc.full_schema(g["skel"], l)) == s["id"]][0]["hist"],
                    "metadata_events": [e for e in ex[1:] if e["e"] in ("Compile", "MMsg", "MGroup") and len(e.get("mt", "UA")) > 1][:8]})
    ctx.trusted = ["TLC", "XML renderer in lib/schemacomp_common.py", "lib/schema.py (XML reader)", "probe_meta / probe_codec (move data only)",
                   "g++", "tokenizer and SHA-256 digest in lib/codec_common.py", "ASan/UBSan (runtime and probe; generated code uninstrumented)"]
    ctx.assumptions = ["a tag occurs once per message (header, body with all its groups, trailer); a group element starts with a plain field",
                       "a component references only components declared before it; a LENGTH field is followed by its DATA field (number + 1) at message level",
                       "field values as in C01 (negative integers, dates after 2038 and integers near INT_MAX are left to C01's canaries)",
                       "TZTIMEONLY/TZTIMESTAMP are not among the supported types (the runtime neither parses nor prints them)"]
