"""C02 Encoded messages are well-formed FIX on the wire
(DESIGN.md 6 C02; spec/Codec.tla, spec/CodecOps.tla WellFormed, spec/T_Codec.tla)."""
import random

import codec_common as cc
import core

PROBES = [cc.PROBE]

MANIFEST = dict(
    text='TLC proves WireWellFormed on the codec design spec for every message shape and every insertion order of a small schema, and shows that each modelled encoder deviation (position map keyed by insertion, count after elements, BodyLength short by one, checksum over the wrong range) breaks it. The same TLA+ operator (CodecOps!WellFormed) then judges the token list of every encoding produced by the real Message::encode for messages of every type of FIX42UTEST and FIX44 built in schema, reverse and shuffled insertion orders: first three tags 8, 9, 35; BodyLength = bytes between the 9 field and 10=; CheckSum = byte sum mod 256 as three digits; header < body < trailer; non-decreasing schema position in every section and group element; every group = count then exactly count elements each starting with the definition\'s first field.',
    note='Positions, sections, group membership and first fields come from the schema XML via lib/schema.py. Tokenisation (split at SOH, then first =) is done in Python and is part of the trusted base; byte sums are recomputed inside TLC from the per-token sums.',
    tech='TLA+ codec design spec + TLC exhaustive check with deviation witnesses; replay on the real encoder; TLC trace validation',
    ref='5.1, 6 C02')

DEVS = ["pos_by_insertion", "count_after_elements", "bodylen_short", "chksum_skips_preamble"]


def run(ctx):
    if ctx.replay:
        return cc.replay(ctx, "C02")
    rng = random.Random(ctx.seed)
    m = cc.model(ctx, "MC_Codec.cfg", ["PositionOrdered", "WireWellFormed", "RoundTrip", "CloneSame", "shape export"], workers=1)
    for d in DEVS:
        cc.model(ctx, "MC_Codec_dev_%s.cfg" % d, [], expect_violation=True)
    ctx.exhaustive = True
    ctx.tick("model")
    if len(m["leaves"]) < 2000:
        raise core.Infra("shape export produced only %d shapes" % len(m["leaves"]))
    q = ctx.quick
    specs = cc.bulk_specs(ctx, rng, m["leaves"], {}, n_shapes=450 if q else len(m["leaves"]),
                          per_type_random=2 if q else 30, n_deep=25 if q else 400, max_count=3 if q else 5)
    # the same messages again in other insertion orders
    extra = []
    for sp in specs:
        if sp.kind in ("all_optional", "random_subset", "deep_groups") and (not q or rng.random() < 0.6):
            extra.append(cc.reorder(rng, sp, rng.choice(["reverse", "shuffle", "schema"])))
    specs += extra
    specs += cc.length_sweep_specs(rng, q)
    cc.run_and_judge(ctx, specs, "C02", "bulk")
    if not q or __import__("os").environ.get("VERIF_SELFTEST"):
        cc.selftest(ctx, "C02", specs)
    ctx.rule = ("TLC checks Codec.tla exhaustively (%d shapes, every insertion edge) and each modelled encoder deviation "
                "violates WireWellFormed; %d encodings by the real encoder (TLC shapes on random message types, per type "
                "mandatory-only / all-optional / random subsets / deepest nesting, %d of them re-built in another insertion "
                "order) are judged by the same operator; distinct = distinct (message type, tree shape, build order) tuples"
                % (len(m["leaves"]), len(specs), len(extra)))
    for sp in specs[:2]:
        ctx.sample({"schema": sp.sch, "msgtype": sp.mt, "kind": sp.kind, "commands": cc.commands(sp, "C02")[:40]})
    ctx.trusted = ["TLC", "probe_codec (moves data only)", "lib/schema.py (XML reader)", "tokenizer in lib/codec_common.py", "ASan/UBSan"]
    ctx.assumptions = ["group count fields are given the number of elements actually added (an inconsistent count is the caller's error)",
                       "negative integers and dates after 2038 are not used here (value domains are C01's)",
                       "a tag that a container does not define ends that container; fields legal in two sections are assigned to the earlier one as long as positions do not decrease (reading that cannot raise a false alarm)"]
