"""C25 Concurrent senders get unique consecutive sequence numbers (spec/SendPath.tla, SessionMon.tla C25Step)."""
import random

import build
import core
import session_common as sc
import tlc

PROBES = [("probe_session", "asan", None, ["utest"]), ("probe_session", "plain", None, ["utest"]),
          ("probe_session", "tsan", None, ["utest"])]

MANIFEST = dict(
    text="TLC explores on SendPath.tla every interleaving of 3 sender threads x 2 messages through the statement-level "
         "steps of FIXWriter::write / Session::send_process (threaded model, under the writer lock) and of the queue + "
         "single writer thread (pipelined model): wire numbers unique and consecutive, every message exactly once, stored "
         "copy = transmitted message; the design without the lock violates it. The real code is run with 2-8 application "
         "threads calling send / send_batch on one real Session in both process models (plain, ASan and TSan builds, "
         "repeated with seeded thread counts and batch sizes); everything read from the socket and the persister's "
         "records are judged by the TLA+ monitor; a ThreadSanitizer report inside fix8 code is a data-race violation.",
    note="Interleavings of the real code are those the scheduler produces (free-running, many repetitions), not controlled; the "
         "model assumes sequentially consistent steps. TSan decides the data-race clause.",
    tech="TLA+ statement-level send-path spec + TLC over all interleavings; free-running multi-thread runs of the real Session judged by TLC trace validation; TSan",
    ref="5.8, 6 C25")


def run(ctx):
    for cfg in ("MC_SendPath_threaded.cfg", "MC_SendPath_pipelined.cfg"):
        r = tlc.check("SendPath.tla", cfg, workers=8, timeout=900)
        if not r["ok"]:
            raise core.Infra("send-path design violates %s" % r["violated"])
        ctx.add_model(r, "SendPath.tla", cfg, ["UniqueConsecutive", "ExactlyOnce", "StoredIsTransmitted", "AllSent"])
    d = tlc.check("SendPath.tla", "MC_SendPath_nolock.cfg", workers=8, timeout=300)
    if d["ok"]:
        raise core.Infra("the lock-free deviation violates nothing: invariants vacuous")
    ctx.extra["deviation_witnesses"] = {"no_lock": d["violated"]}
    ctx.tick("model")
    rng = random.Random(ctx.seed + 25)
    nrun = 60 if ctx.quick else 1200
    groups = {"plain": [], "asan": [], "tsan": []}
    for i in range(nrun):
        pm = "pipeline" if i % 2 else "thread"
        ex = sc.Exec("C25", role="ini", persist="mem" if i % 3 else "file", flags={"pmodel": pm})
        ex.start()
        ex.logon_exchange()
        nt = rng.choice([2, 3, 4, 8])
        per = rng.choice([5, 20, 60])
        bs = rng.choice([1, 1, 2, 3]) if pm == "thread" else rng.choice([1, 1, 3])
        # batches only, singles only, or (every other batch run) threads that batch next to threads that send single messages
        ex.sendpar(nt, per, bs, mix=(bs > 1 and i % 4 < 2))
        ex.sendpar(rng.choice([2, 5]), 10, 1)
        if pm == "thread":
            ex.sendpar(4, 30, 3, mix=True)
        groups["tsan" if i % 4 == 0 else ("asan" if i % 4 == 1 else "plain")].append(ex)
    execs, traces, aborts = [], [], []
    for var, g in groups.items():
        if not g:
            continue
        # one process per execution: in builds with assertions FIXWriter::stop() of a pipelined connection pushes a
        # null sentinel that the bundled queue asserts against (outside C25: the probe exits without stopping)
        tr, ab = sc.run_execs(ctx, g, "c25_" + var, variant=var, nproc=len(g), per_process=1)
        execs += g
        traces += tr
        aborts += [(len(execs) - len(g) + gi if gi is not None else None, rc, err, var) for gi, rc, err in ab]
    ctx.tick("probe")
    sc.judge(ctx, execs, traces, [], "c25", chunks=6)
    for gi, rc, err, var in aborts:
        kind = "data_race" if "ThreadSanitizer" in err else "memory_error"
        ctx.fail("C25:%s:%s" % (kind, var), "sanitizer report while several threads were sending", {"stderr": err[:6000]})
    ctx.tick("validate")
    ctx.rule = ("%d seeded concurrent-send runs (2-8 threads x 5-60 messages, single and batched, threaded and pipelined process "
                "model, memory and file persister; a quarter each under TSan and ASan); distinct = distinct run parameters" % nrun)
    if traces and traces[0]:
        e = [x for x in traces[0] if x["e"] == "SendPar"][0]
        ctx.sample({"threads": e["threads"], "per": e["per"], "pmodel": e["pmodel"], "wire_seqs_head": [o["seq"] for o in e["out"]][:20],
                    "wire_ids_head": [o["id"] for o in e["out"]][:20]})
    ctx.trusted = ["TLC", "probe_session", "ThreadSanitizer / AddressSanitizer", "the OS scheduler for interleavings"]
    ctx.assumptions = ["free-running schedules; sequential consistency in the model"]
