"""C31 Timer events fire no earlier than scheduled and in due order (DESIGN.md 3 virtual clock, 5.7, 6 C31;
spec/Timer.tla, MC_Timer.tla, T_Timer.tla; harness/src/probe_timer.cpp)."""
import json
import os
import random
import shutil
import re
from concurrent.futures import ThreadPoolExecutor

import build
import core
import tlc

RUNTIME = ["f8utils.cpp", "logger.cpp"]     # all the timer thread needs (Tickval, hypersleep, glout)
PROBES = [("probe_timer", "asan", RUNTIME, [])]

MANIFEST = dict(
    text='TLC proves NoEarlyFire, DueOrder, RepeatSpacing and ClearSilences on the timer design (queue of (id, due, interval, repeat), Schedule/Advance/Fire-least-due/Clear, arbitrarily late fires, callbacks that take time) for every interleaving up to the bound, and exports command histories (the transition cover of a small configuration plus simulated behaviours with up to 5 events); each history is replayed on the real Timer<T> thread against a virtual clock (the probe defines clock_gettime; sleeps stay real) with callbacks logging (id, instant the timer thread last read, clock inside the callback) and optionally moving the clock on (slow callbacks); TLC validates every recorded execution against the property monitor.',
    note='Executions in which the driver moves the clock only while the timer thread is settled (all those with slow callbacks, plus a share of the others) are exact: the clock read inside the callback is the instant the run began and is what the monitor judges; in the racing executions the only sound instant is the one the thread last read. Trusts TLC, the probe (moves data only), the clock_gettime/clock_nanosleep interposition, ASan/UBSan. Lateness is never a violation. Due-order is demanded only relative to events whose schedule() call had returned before the callback began (a racing insertion cannot be ordered from outside). Delays 1-200 ms as units 1,2,5 times a seeded scale.',
    tech='TLA+ design spec + TLC exhaustive check; transition-cover and simulated command histories replayed on the real timer thread with a virtual clock; TLC trace validation',
    ref='3 (virtual clock seam), 5.7, 6 C31')

DEVS = [("MC_Timer_dev_any_due.cfg", "DueOrder"), ("MC_Timer_dev_early.cfg", "NoEarlyFire"),
        ("MC_Timer_dev_repeat_from_due.cfg", "RepeatSpacing"), ("MC_Timer_dev_clear_keeps_one.cfg", "ClearSilences"),
        ("MC_Timer_dev_stale_now.cfg", "RepeatSpacing"),
        ("MC_Timer_reach1.cfg", "Reach_RepeatTwice"), ("MC_Timer_reach2.cfg", "Reach_LateFire")]


def maximal(hists):
    """Drop histories that are a proper prefix of another one (running the longer one runs them too)."""
    S = {tuple(json.dumps(c, sort_keys=True) for c in h) for h in hists if h}
    pre = set()
    for x in S:
        for i in range(1, len(x)):
            pre.add(x[:i])
    return [[json.loads(c) for c in x] for x in sorted(S) if x not in pre]


def commands(hist, scale, rng, nowait, exact=None):
    """exact (default: whenever a callback takes time): every advance is waited for, so the clock moves only while the
    timer thread is settled and the monitor may use the clock read inside the callback as the instant it began."""
    if exact is None:
        exact = any(c["c"] == "sched" and c.get("slow", 0) for c in hist)
    if exact:
        nowait = 0
    out = ["new 1 exact" if exact else "new 1"]
    for c in hist:
        if c["c"] == "sched":
            out.append("sched %d %d %d %d %d" % (c["id"], c["delay"] * scale, 1 if c["rep"] else 0, c["q"], c.get("slow", 0) * scale))
        elif c["c"] == "adv":
            out.append("adv %d %d" % (c["d"] * scale, 0 if rng.random() < nowait else 1))
        elif c["c"] == "clear":
            out.append("clear")
    out.append("end")
    return out


def run_scheds(ctx, binary, scheds, nproc=8):
    env = build.run_env()
    # the timer thread logs its termination through fix8's global logger, which writes
    # global_filename_not_set.log* into the current directory: give it a scratch one
    wd = os.path.join(ctx.workdir, "c31_cwd")
    shutil.rmtree(wd, ignore_errors=True)
    os.makedirs(wd)
    nproc = max(1, min(nproc, len(scheds) // 10 or 1))
    parts = [list(range(i, len(scheds), nproc)) for i in range(nproc)]

    def one(pi):
        text = "\n".join("\n".join(scheds[j]) for j in parts[pi]) + "\nquit\n"
        evs, rc, err = core.run_probe(binary, text, env, timeout=900, cwd=wd)
        if rc != 0:
            ctx.extra["transient_probe_aborts"] = ctx.extra.get("transient_probe_aborts", 0) + 1
            ctx.extra.setdefault("transient_abort_reports", []).append("rc %d: %s" % (rc, core.san_report(err, 1500)))
            evs, rc, err = core.run_probe(binary, text, env, timeout=900, cwd=wd)
        return evs, rc, err
    with ThreadPoolExecutor(max_workers=nproc) as ex:
        res = list(ex.map(one, range(nproc)))
    shutil.rmtree(wd, ignore_errors=True)
    execs = [None] * len(scheds)
    aborts = []
    for pi, (evs, rc, err) in enumerate(res):
        got = []
        for ev in evs:
            if ev["e"] == "Error":
                raise core.Infra("probe_timer: %s" % ev)
            if ev["e"] == "Reset":
                got.append([])
            if got:
                got[-1].append(ev)
        for n, ex_ in enumerate(got):
            execs[parts[pi][n]] = ex_
        if rc != 0:
            aborts.append((parts[pi][len(got) - 1] if got else None, rc, core.san_report(err)))
        elif len(got) != len(parts[pi]):
            raise core.Infra("probe_timer ran %d of %d schedules" % (len(got), len(parts[pi])))
    return execs, aborts


def models(ctx):
    cfg = "MC_Timer_quick.cfg" if ctx.quick else "MC_Timer.cfg"
    r = tlc.check("MC_Timer.tla", cfg, workers=8, timeout=3000, heap="12g")
    if not r["ok"]:
        raise core.Infra("timer design violates %s: the model is wrong" % r["violated"])
    ctx.add_model(r, "MC_Timer.tla", cfg, ["NoEarlyFire", "DueOrder", "RepeatSpacing", "ClearSilences"])
    # the same with callbacks that take time (the clock moves while they run)
    r = tlc.check("MC_Timer.tla", "MC_Timer_slow.cfg", workers=8, timeout=3000, heap="12g")
    if not r["ok"]:
        raise core.Infra("timer design with slow callbacks violates %s: the model is wrong" % r["violated"])
    ctx.add_model(r, "MC_Timer.tla", "MC_Timer_slow.cfg", ["NoEarlyFire", "DueOrder", "RepeatSpacing", "ClearSilences"])
    ctx.exhaustive = True
    with ThreadPoolExecutor(max_workers=3) as ex:
        res = list(ex.map(lambda d: tlc.check("MC_Timer.tla", d[0], workers=2, timeout=600, heap="4g"), DEVS))
    for (c, inv), r in zip(DEVS, res):
        if r["violated"] != inv:
            raise core.Infra("vacuity guard: %s should violate %s, got %s" % (c, inv, r["violated"]))
        ctx.add_model(r, "MC_Timer.tla", c, ["must violate " + inv])


def sim(ctx, num, seed, cfg="MC_Timer_sim.cfg"):
    r = tlc.check("MC_Timer.tla", cfg, workers=1, timeout=900,
                  extra=["-simulate", "num=%d" % num, "-depth", "80", "-seed", str(seed)])
    if not r["ok"]:
        raise core.Infra("simulation violates %s: the timer model is wrong" % r["violated"])
    m = re.search(r"(\d+) states checked, (\d+) traces generated", r["out"])
    if m:
        r["stats"] = {"generated": int(m.group(1)), "distinct": int(m.group(1)), "queue": 0, "depth": 0}
    ctx.add_model(r, "MC_Timer.tla", "%s (-simulate num=%d seed=%d)" % (cfg, num, seed),
                  ["NoEarlyFire", "DueOrder", "RepeatSpacing", "ClearSilences", "behaviour export"])
    return tlc.leaves(r["out"])


def judge(ctx, name, execs, cases):
    fails, labels, info = tlc.validate_execs("T_Timer.tla", "T_Timer.cfg", execs, ctx.workdir, name, chunks=8, heap="3g")
    ctx.add_validation(info, len(execs))
    for lab, n in labels.items():
        ctx.extra.setdefault("design_labels", {})
        ctx.extra["design_labels"][lab] = ctx.extra["design_labels"].get(lab, 0) + n
    seen = set()
    for f in fails:
        if (f["exec"], f["sig"]) in seen:
            continue
        seen.add((f["exec"], f["sig"]))
        ctx.fail(f["sig"], f["why"], {"commands": cases[f["exec"]], "pos": f["pos"], "event": f["event"], "trace": execs[f["exec"]]})
    return fails


def run(ctx):
    if os.environ.get("VERIF_SELFTEST") == "1":
        return selftest(ctx)
    rng = random.Random(ctx.seed)
    binary = build.probe("probe_timer", "asan", runtime=RUNTIME)
    ctx.tick("build")
    models(ctx)
    ctx.tick("model")
    r = tlc.check("MC_Timer.tla", "MC_Timer_export.cfg", workers=1, timeout=900)   # one worker: deterministic export
    if not r["ok"]:
        raise core.Infra("export run violates %s" % r["violated"])
    ctx.add_model(r, "MC_Timer.tla", "MC_Timer_export.cfg", ["transition cover export"])
    cover = maximal(tlc.leaves(r["out"]))
    if len(cover) < 1000:
        raise core.Infra("transition cover export produced only %d histories" % len(cover))
    sims = maximal(sim(ctx, 300 if ctx.quick else 6000, ctx.seed))
    # callbacks that take time: transition cover of a small configuration and simulated behaviours; the histories in
    # which a callback is slow run with every advance waited for (exact executions)
    r = tlc.check("MC_Timer.tla", "MC_Timer_export_slow.cfg", workers=1, timeout=900)
    if not r["ok"]:
        raise core.Infra("slow export run violates %s" % r["violated"])
    ctx.add_model(r, "MC_Timer.tla", "MC_Timer_export_slow.cfg", ["transition cover export"])
    slowcover = [h for h in maximal(tlc.leaves(r["out"])) if any(c.get("slow", 0) for c in h)]
    if len(slowcover) < 500:
        raise core.Infra("slow-callback export produced only %d histories" % len(slowcover))
    slowsims = [h for h in maximal(sim(ctx, 200 if ctx.quick else 4000, ctx.seed + 1, "MC_Timer_sim_slow.cfg")) if any(c.get("slow", 0) for c in h)]
    ctx.tick("schedules")
    scheds = []
    if ctx.quick:
        # a seeded 1200 of the cover histories per run (all of them in the thorough tier)
        rng.shuffle(cover)
        cover_run = cover[:1200]
    else:
        cover_run = cover
    for h in cover_run:
        scheds.append(commands(h, rng.choice([1, 3, 10, 40]), rng, 0.15))
    for h in sims:
        scheds.append(commands(h, rng.choice([1, 2, 5, 20, 40]), rng, 0.3))
    rng.shuffle(slowcover)
    slow_run = slowcover[:500] if ctx.quick else slowcover
    for h in slow_run:
        scheds.append(commands(h, rng.choice([1, 3, 10, 40]), rng, 0))
    for h in slowsims:
        scheds.append(commands(h, rng.choice([1, 2, 5, 20]), rng, 0))
    # and a seeded share of the histories without slow callbacks once more as exact executions
    for h in cover_run[:150 if ctx.quick else 2000]:
        scheds.append(commands(h, rng.choice([1, 3, 10]), rng, 0, exact=True))
    ctx.extra["exact_executions"] = len(slow_run) + len(slowsims) + (150 if ctx.quick else min(2000, len(cover_run)))
    execs, aborts = run_scheds(ctx, binary, scheds)
    ctx.tick("probe")
    done = [i for i, e in enumerate(execs) if e is not None]
    judge(ctx, "c31", [execs[i] for i in done], [scheds[i] for i in done])
    nfire = 0
    unsettled = 0
    for i in done:
        ex = execs[i]
        fires = [(e["id"], e["now"], e["ret"]) for e in ex if e["e"] == "Fire"]
        nfire += len(fires)
        unsettled += sum(1 for e in ex if e["e"] == "Settle" and not e["ok"])
        ctx.case([scheds[i], fires], nontrivial=bool(fires))
    for j, rc, err in aborts:
        ctx.fail("probe_abort:rc%d" % rc, "memory error or crash in the timer", {"commands": scheds[j] if j is not None else None, "stderr": err})
    if nfire * 10 < len(done):
        raise core.Infra("only %d callbacks ran in %d executions: the virtual clock seam is not working" % (nfire, len(done)))
    ctx.extra["callbacks_observed"] = nfire
    ctx.extra["settle_timeouts"] = unsettled
    ctx.tick("validate")
    ctx.rule = ("TLC enumerates the transition cover of the small timer configuration (%d maximal command histories, %d of them "
                "replayed in this run) and %d simulated histories with up to 5 events; each is replayed on the real Timer<T> thread with delays scaled into "
                "1-200 ms of virtual time; distinct = distinct (commands, observed fire sequence) with at least one callback"
                % (len(cover), len(cover_run), len(sims)))
    k = done[len(done) // 3]
    ctx.sample({"commands": scheds[k], "trace": execs[k]})
    ctx.sample({"commands": scheds[done[-1]], "trace": execs[done[-1]]})
    if not ctx.quick:
        selftest(ctx)
    ctx.trusted = ["TLC", "probe_timer (moves data only)", "clock_gettime / clock_nanosleep interposition (virtual clock seam)",
                   "ASan/UBSan"]
    ctx.assumptions = ["racing executions: time observed at the callback = the instant the timer thread last read from the clock; "
                       "exact executions: = the clock read inside the callback",
                       "delays are multiples of a seeded scale (1..40 ms) times 1, 2 or 5"]


def selftest(ctx):
    binary = build.probe("probe_timer", "asan", runtime=RUNTIME)
    execs, _ = run_scheds(ctx, binary, [["new 1", "sched 1 10 0 1", "sched 2 5 0 1", "adv 20 1", "end"]], nproc=1)
    good, _, _ = tlc.validate_execs("T_Timer.tla", "T_Timer.cfg", execs, ctx.workdir, "c31self0", chunks=1)
    bad = json.loads(json.dumps(execs))
    for e in bad[0]:
        if e["e"] == "Fire" and e["id"] == 2:
            e["now"] = 3
    rej, _, _ = tlc.validate_execs("T_Timer.tla", "T_Timer.cfg", bad, ctx.workdir, "c31self1", chunks=1)
    if good or not rej:
        raise core.Infra("C31 self-test failed: good=%s rejected=%s" % (good, rej))
    ctx.extra["selftest"] = "fire instant moved before the due time rejected: %s" % rej[0]["sig"]
