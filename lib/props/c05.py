"""C05 Permissive decoding passes unknown fields through unchanged (DESIGN.md 6 C05; spec/Decode.tla,
MC_Decode.tla, T_Decode.tla MonPerm)."""
import random

import core
import decode_common as dc
import tlc

PROBES = [dc.PROBE]

MANIFEST = dict(
    text='Conforming messages are the token sequences that TLC found the acceptor of Decode.tla to accept on the small schema (instantiated on real message types) plus seeded conforming messages of every message type; unknown tag=value tokens are inserted at every position class (header, body, trailer, inside and between group elements). The real factory decodes the result permissively and the base message strictly; TLC validates each execution: accepted, every known field equals the strict decode, the library\'s pass-through strings hold exactly the inserted tokens, the re-encoded bytes contain the inserted tokens byte for byte and every known token.',
    note='Unknown = tag that the schema does not define at all (below 65536). BodyLength/CheckSum are exempt from the equality with the strict decode (they change with the inserted bytes).',
    tech='TLA+ acceptor spec + TLC-enumerated conforming inputs; replay on the real decoder in permissive and strict mode; TLC trace validation',
    ref='5.1, 6 C05')

TYPES = {"utest": ["D", "E", "J", "8", "B"], "fix44": ["D", "8", "AE"]}


def re_tokens(s, hexs):
    out = []
    for tag, val in dc.tokenize(s, bytes.fromhex(hexs)):
        tn = dc.tagnum(tag)
        known = tn is not None and tn in s.bynum
        v = val if val is not None else b""
        out.append({"k": dc.tagkey(tag), "v": dc.safe(dc.canon(s, tn, v) if known else v), "u": not known})
    return out


def build(ctx, leaves):
    rng = random.Random(ctx.seed)
    cases = []      # (which, mt, base tokens (after 35, before 10), [insertion index into that list], label)
    roles = [dc.Roles(w, mt) for w, mts in TYPES.items() for mt in mts if mt in dc.stock(w).bytype]
    roles = [r for r in roles if r.ok]
    acc = [x["t"] for x in leaves if x["accf"]]      # conforming in the full sense (counts match)
    rng.shuffle(acc)
    nacc = 120 if ctx.quick else len(acc)
    for n, names in enumerate(acc[:nacc]):
        cands = [r for r in roles if r.supports(names)]
        if not cands:
            continue
        r = cands[(n + ctx.seed) % len(cands)]
        data, toks, sm = r.instantiate(names, rng)
        base = toks[3:-1]
        # every position: behind MsgType (0) ... before CheckSum (len)
        allpos = [p for p in range(len(base) + 1) if p == 0 or dc.ftype(r.s, int(base[p - 1][0])) != "LENGTH"]
        pick = allpos if not ctx.quick else rng.sample(allpos, min(len(allpos), 3))
        for p in pick:
            cases.append((r.which, r.mt, base, [p], ["cover", r.mt] + names))
    nrand = 1 if ctx.quick else 12
    for w in dc.SCHEMAS:
        s = dc.stock(w)
        for mt in s.bytype:
            for j in range(nrand):
                h, b, t = dc.gen_message(s, mt, rng)
                base = dc.flatten_nodes(h) + dc.flatten_nodes(b) + dc.flatten_nodes(t)
                allpos = [p for p in range(len(base) + 1) if p == 0 or dc.ftype(s, int(base[p - 1][0])) != "LENGTH"]
                k = rng.choice([1, 1, 2, 3])
                cases.append((w, mt, base, sorted(rng.choice(allpos) for _ in range(k)), ["rand", mt]))
    return cases


def run(ctx):
    r = tlc.check("MC_Decode.tla", "MC_Decode_export.cfg", workers=8, timeout=1500)
    if not r["ok"]:
        raise core.Infra("ideal acceptor violates %s" % r["violated"])
    ctx.add_model(r, "MC_Decode.tla", "MC_Decode_export.cfg", ["AcceptsExactlyConforming", "RetainsAll", "input export"])
    leaves = sorted(tlc.leaves(r["out"]), key=lambda x: (len(x["t"]), x["t"]))
    if sum(1 for x in leaves if x["accf"]) < 100:
        raise core.Infra("export produced too few accepted sequences")
    ctx.tick("model")
    rng = random.Random(ctx.seed + 7)
    cases = build(ctx, leaves)
    cmds, meta = [], []
    for n, (w, mt, base, pos, lab) in enumerate(cases):
        s = dc.stock(w)
        unk_tags = [t for t in (5001, 5003, 40000, 65535) if t not in s.bynum]
        # unknown tags that equal a known field number modulo 2^16 / 2^32 / 2^64 (a wrapping conversion would decode
        # them as that field): only for fields the base message does not carry
        present = {dc.tagnum(t) for t, _ in base}
        for known in (58, 50, 1):
            if known in s.bynum and known not in present:
                unk_tags += [2 ** 16 + known, 2 ** 32 + known, 10 ** 17 + known]
                break
        with_unk, ins = [], []
        for i in range(len(base) + 1):
            for p in pos:
                if p == i:
                    tok = (str(rng.choice(unk_tags)).encode(), rng.choice([b"unk", b"u=v w", b"7", b""]))
                    with_unk.append(tok)
                    ins.append({"i": 3 + i, "k": dc.tagkey(tok[0]), "v": dc.safe(tok[1])})
            if i < len(base):
                with_unk.append(base[i])
        d0, t0, sm0 = dc.compose2(s.beginstring, mt, base, "Cok")
        d1, t1, sm1 = dc.compose2(s.beginstring, mt, with_unk, "Cok")
        cmds.append(("b%d" % n, dc.dec_cmd("b%d" % n, w, "s", 0, d0)))
        cmds.append(("p%d" % n, dc.dec_cmd("p%d" % n, w, "p", 0, d1)))
        meta.append((t0, sm0, t1, sm1, ins, d1))
    res = dc.run_cmds(ctx, cmds)
    ctx.tick("probe")
    execs = []
    for n, (w, mt, base, pos, lab) in enumerate(cases):
        s = dc.stock(w)
        t0, sm0, t1, sm1, ins, d1 = meta[n]
        e0 = (res.get("b%d" % n) or [None])[-1]
        e1 = (res.get("p%d" % n) or [None])[-1]
        r0, r1 = dc.result_class(e0), dc.result_class(e1)
        ok1 = r1 == "ok"
        passthru = bytes.fromhex(e1["uh"] + e1["ub"] + e1["ut"]) if ok1 else b""
        ev = {"e": "Perm", "base": dc.tok_events(s, t0), "sum0": sm0, "toks": dc.tok_events(s, t1), "sum": sm1, "ins": ins,
              "res0": r0, "flat0": dc.flat_tree(s, e0) if r0 == "ok" else [],
              "res": r1, "flat": dc.flat_tree(s, e1) if ok1 else [],
              "re_res": ("ok" if e1.get("re_res") == "ok" else "exc") if ok1 else "none",
              "re": re_tokens(s, e1["re_hex"]) if ok1 and e1.get("re_res") == "ok" else [],
              "pass": [{"k": dc.tagkey(t), "v": dc.safe(v if v is not None else b"")} for t, v in dc.tokenize(s, passthru)]}
        execs.append([{"e": "Reset", "prop": "C05", "schema": w}, ev])
    if ctx.extra.get("selftest"):
        return execs
    fails, labels, info = dc.validate(ctx, execs, "c05")
    ctx.add_validation(info, len(execs))
    ctx.tick("validate")
    for n, ex in enumerate(execs):
        e = ex[1]
        ctx.case([cases[n][0], [t["k"] for t in e["toks"]], e["res"], e["res0"]], nontrivial=True)
    hist, seen = {}, set()
    for f in fails:
        hist[f["sig"]] = hist.get(f["sig"], 0) + 1
    ctx.extra["monitor_rejections"] = hist
    for f in fails:
        n = f["exec"]
        if f["sig"] in seen:
            ctx.fail(f["sig"], f["why"], {"label": cases[n][4], "see": "first execution with this signature"})
            continue
        seen.add(f["sig"])
        d1 = meta[n][5]
        ev = execs[n][1]
        ctx.fail(f["sig"], f["why"], {"schema": cases[n][0], "label": cases[n][4], "inserted": ev["ins"],
                                      "text": d1.decode("latin-1").replace("\x01", "|"),
                                      "pass_through": ev["pass"], "reencoded": [(t["k"], t["v"]) for t in ev["re"]],
                                      "replay": "probe_decode: " + cmds[2 * n + 1][1][:4000]})
    ctx.extra["strict_base_accepted"] = sum(1 for ex in execs if ex[1]["res0"] == "ok")
    ctx.rule = ("%d executions: conforming messages (TLC-accepted sequences of the small schema instantiated on %s, and seeded "
                "messages of all %d+%d message types) with unknown tokens at every position class, decoded permissively and "
                "(without them) strictly; distinct = distinct (schema, tag sequence, outcomes)"
                % (len(execs), TYPES, len(dc.stock("utest").bytype), len(dc.stock("fix44").bytype)))
    for n in (0, len(execs) // 2, len(execs) - 1):
        ctx.sample({"label": cases[n][4], "text": meta[n][5].decode("latin-1").replace("\x01", "|")[:400], "inserted": meta[n][4],
                    "result": execs[n][1]["res"], "pass_through": execs[n][1]["pass"]})
    ctx.trusted = ["TLC", "probe_decode (moves data only)", "lib/decode_common.py tokeniser and value normal forms",
                   "lib/schema.py", "ASan/UBSan"]
    ctx.assumptions = ["unknown tag = not defined by the schema at all, below 65536, never placed between a Length field and its data"]


def selftest(ctx):
    """Binding: drop one inserted token from the recorded re-encoding -> the monitor must reject."""
    ctx.extra["selftest"] = True
    execs = run(ctx)[:60]
    base, _, _ = dc.validate(ctx, execs, "c05self0")
    good = next(i for i, ex in enumerate(execs) if ex[1]["res"] == "ok" and i not in {f["exec"] for f in base})
    execs[good][1]["re"] = [t for t in execs[good][1]["re"] if not t["u"]]
    after, _, _ = dc.validate(ctx, execs, "c05self1")
    return any(f["exec"] == good for f in after)
