"""C32 XML configuration parser preserves element trees; total on arbitrary bytes
(DESIGN.md 5.9 / 6 C32; spec/Xml.tla, MC_XmlSM.tla, MC_XmlAttr.tla, MC_XmlTree.tla, T_Xml.tla;
harness/src/probe_xml.cpp)."""
import json
import os
import random
from concurrent.futures import ThreadPoolExecutor

import build
import core
import tlc

PROBES = [("probe_xml", "asan", ["xml.cpp", "f8utils.cpp"], [])]

MANIFEST = dict(
    text='The parser is specified in TLA+ (Xml.tla) as the character-class state machine of XmlElement::XmlElement (explicit '
         'stack of constructor frames, peeks, end-of-stream behaviour), the attribute sub-machine, reference decoding and the '
         'tree it should build. TLC (i) proves on the model that the design parser returns every small tree from its canonical '
         'text (tags, attribute maps with references decoded, text, child order) and that path lookup finds exactly the '
         'elements on the path, and shows that the rescanning decoder of the current code breaks the round trip; (ii) explores '
         'the machine and exports one input per (state, character class) transition of the element and attribute machines. '
         'Every exported input and every exported tree - grown by the driver to depth 6 x width 6 with attribute values and '
         'text over all printable characters, markup written as entity/decimal/hex references in varied layouts - is parsed '
         'by the real XmlElement::Factory (extensions off) and XmlElement::find is called for every path; TLC validates each '
         'recorded execution: tree equality with the generated tree, find results against FindAll, and for arbitrary bytes '
         '(transition-derived, mutated, random; <= 4 KB, ASan/UBSan) that the outcome is a tree or an XMLError.',
    note='Trusts TLC, the probe (moves data), the driver\'s serialiser (its canonical form is cross-checked: the TLA+ design '
         'parser must agree with the real parser on every small input), ASan/UBSan. Attribute values/text: printable '
         'ASCII without CR/LF; the reserved attribute name docpath and xi:include are not generated.',
    tech='TLA+ parser state-machine spec + TLC (round-trip theorem on small trees, transition cover export); replay on the '
         'real parser; TLC trace validation (tree equality, path lookup, totality)',
    ref='5.9, 6 C32')

MARKUP = {60: "lt", 62: "gt", 38: "amp", 34: "quot", 39: "apos"}
TAGS = ["a", "b", "c", "item", "node", "x:y", "k_1", "T", "b2", "a.b", "a-b"]
ANAMES = ["x", "y", "id", "name", "value", "a1", "k.v", "ns:t", "_u", "A-b", "z"]
REFLIKE = ["&lt;", "&amp;", "&#60;", "&#x3c;", "&foo;", "&gt", "&;", "&#;", "&#x;", "&amp;amp;", "&nbsp;", "&quot;",
           "&sup2;", "&#38;", "${HOME}", "!{echo hi}", "/*c*/", "]]>", "<![CDATA[", "-->", "<!--", "/>", "</a>", "?>"]
PRINTABLE = [chr(c) for c in range(32, 127)]


# ---------------------------------------------------------------------------------------------------------
# trees (abstract) -> monitor JSON, text
def node(tag, attrs=None, text=None, kids=None):
    return {"tag": tag, "attrs": dict(attrs or {}), "text": text, "kids": list(kids or [])}


def codes(s):
    return [ord(c) for c in s]


def to_mon(t):
    return {"tag": codes(t["tag"]), "attrs": [[codes(k), codes(v)] for k, v in sorted(t["attrs"].items())],
            "ht": t["text"] is not None, "text": codes(t["text"] or ""), "hd": False, "decl": [],
            "kids": [to_mon(k) for k in t["kids"]]}


def from_leaf(j):
    """A tree printed by MC_XmlTree (ToJson of the TLA+ record) -> driver tree."""
    return node("".join(map(chr, j["tag"])), {"".join(map(chr, a[0])): "".join(map(chr, a[1])) for a in j["attrs"]},
                "".join(map(chr, j["text"])) if j["ht"] else None, [from_leaf(k) for k in j["kids"]])


def size(t):
    return 1 + sum(size(k) for k in t["kids"])


def depth(t):
    return 1 + max([depth(k) for k in t["kids"]] or [0])


def esc_canon(s):
    return "".join("&%s;" % MARKUP[ord(c)] if ord(c) in MARKUP else c for c in s)


def canon(t):
    """The canonical text of Xml!Serialise (attributes in any order)."""
    s = "<" + t["tag"] + "".join(' %s="%s"' % (k, esc_canon(v)) for k, v in sorted(t["attrs"].items()))
    if t["text"] is None and not t["kids"]:
        return s + "/>"
    return s + ">" + esc_canon(t["text"] or "") + "".join(canon(k) for k in t["kids"]) + "</" + t["tag"] + ">"


def ref(rng, c):
    o = ord(c)
    r = rng.random()
    if o in MARKUP and r < 0.4:
        return "&%s;" % MARKUP[o]
    if r < 0.7:
        return "&#%s%d;" % ("0" * rng.choice([0, 0, 1, 3]), o)
    return "&#x%s%s;" % ("0" * rng.choice([0, 0, 2]), ("%x" if rng.random() < 0.5 else "%X") % o)


def esc_var(rng, s):
    """Markup characters always as references (entity, decimal or hex); now and then another character too."""
    return "".join(ref(rng, c) if (ord(c) in MARKUP or rng.random() < 0.04) else c for c in s)


def ws(rng, must=False):
    """White space inside a tag; a line end is always followed by indentation."""
    r = rng.random()
    if r < 0.6:
        return " " if must or rng.random() < 0.2 else ""
    return rng.choice([" ", "  ", "\t", "\n  ", "\r\n\t", " \n "]) if (must or rng.random() < 0.5) else ""


def comment(rng):
    return "<!--%s-->" % rng.choice([" c ", "", " <x y='1'> ", " a - b ", "?", " > "])


def serialise(rng, t, top=True):
    out = []
    if top:
        if rng.random() < 0.4:
            out.append(rng.choice(['<?xml version="1.0"?>', "<?xml version='1.0' encoding='ISO-8859-1'?>\n", "<?x?>"]))
        if rng.random() < 0.3:
            out.append(comment(rng) + rng.choice(["", "\n"]))
    items = list(t["attrs"].items())
    rng.shuffle(items)
    s = "<" + t["tag"]
    for k, v in items:
        q = rng.choice(['"', "'"])
        s += (ws(rng, True) or " ") + k + ws(rng) + "=" + ws(rng) + q + esc_var(rng, v) + q
    s += ws(rng)
    if t["text"] is None and not t["kids"] and rng.random() < 0.6:
        out.append(s + "/>")
        return "".join(out)
    out.append(s + ">")
    pieces = [serialise(rng, k, False) for k in t["kids"]]
    if t["text"] is not None:
        pieces.insert(rng.randint(0, len(pieces)), esc_var(rng, t["text"]))
        if rng.random() < 0.3:
            pieces.insert(rng.randint(0, len(pieces)), comment(rng))
        out += pieces
    else:
        # layout white space and comments only where there is no text (it would be part of the text)
        sep = rng.choice(["", "", "\n", "\n  ", " ", "\r\n"])
        for p in pieces:
            out.append(sep)
            if rng.random() < 0.1:
                out.append(comment(rng) + sep)
            out.append(p)
        out.append(sep)
    out.append("</" + t["tag"] + rng.choice(["", "", " ", "\n"]) + ">")
    if top and rng.random() < 0.3:
        out.append(rng.choice(["\n", "  ", "<!-- end -->", "trailing"]))
    return "".join(out)


# ---------------------------------------------------------------------------------------------------------
# growing the TLC shapes to depth 6 x width 6 and decorating them
def rand_value(rng, lo=0, hi=14):
    n = rng.randint(lo, hi)
    parts = []
    while sum(len(p) for p in parts) < n:
        r = rng.random()
        if r < 0.12:
            parts.append(rng.choice(REFLIKE))
        elif r < 0.35:
            parts.append(rng.choice("<>&\"'"))
        else:
            parts.append(rng.choice(PRINTABLE))
    v = "".join(parts)
    # never hand a shell command to a parser whose extension switch might be broken: only the fixed, harmless one
    return v.replace("!{echo hi}", "\x00").replace("!{", "!_").replace("\x00", "!{echo hi}")


def rand_text(rng):
    v = rand_value(rng, 1, 18)
    if not v.strip(" \t"):
        v += rng.choice("tx<&9")
    return v


def grow(rng, shapes, levels, wide):
    """A tree of at most `levels` levels built by grafting TLC shapes at the leaves of TLC shapes and joining the
    child lists of two shapes (width up to 6)."""
    s = rng.choice(shapes)

    def build(sh, left):
        kids = list(sh["kids"])
        if wide and rng.random() < 0.35:
            kids = (kids + list(rng.choice(shapes)["kids"]))[:6]
        out = []
        for k in kids:
            if left <= 1:
                continue
            if not k["kids"] and left > 2 and rng.random() < 0.35:
                k = rng.choice(shapes)
            out.append(build(k, left - 1))
        return node("?", kids=out)
    return build(s, levels)


def decorate(rng, t, pool):
    t["tag"] = rng.choice(pool)
    for nm in rng.sample(ANAMES, rng.choice([0, 0, 1, 1, 2, 3, 4])):
        t["attrs"][nm] = rand_value(rng)
    if rng.random() < (0.5 if not t["kids"] else 0.2):
        t["text"] = rand_text(rng)
    for k in t["kids"]:
        decorate(rng, k, pool)
    return t


def printable_family():
    """Every printable character in attribute values (alone, doubled, between letters) and in text."""
    trees = []
    for base in range(32, 127, 6):
        kids = []
        for o in range(base, min(base + 6, 127)):
            c = chr(o)
            kids.append(node("c%d" % o, {"x": c, "y": c + c, "z": "a" + c + "b", "w": c + "&" + c}, "t" + c + "t" + c))
        trees.append(node("chars", {"from": str(base)}, None, kids))
    return trees


def chains(t):
    out = []

    def walk(n, ch, idx):
        ch = ch + [n["tag"]]
        me = idx[0]
        out.append((me, ch, n))
        for k in n["kids"]:
            idx[0] += 1
            walk(k, ch, idx)
    walk(t, [], [0])
    return out


def find_cmds(rng, t, cap):
    """Path lookups: every distinct path of the tree (relative and rooted), lookups from inner elements, paths
    that no element has, attribute-filtered lookups."""
    ch = chains(t)
    paths = sorted({"/".join(c) for _, c, _ in ch})
    rng.shuffle(paths)
    cmds = []
    for p in paths[:cap]:
        cmds.append((0, p if rng.random() < 0.6 else "//" + p, None))
    for _ in range(min(6, len(ch))):
        i, c, n = rng.choice(ch)
        sub = [x for x in ch if x[1][:len(c)] == c]
        j, c2, n2 = rng.choice(sub)
        cmds.append((i, "/".join(c2[len(c) - 1:]), None))                       # relative, from an inner element
        cmds.append((i, "//" + "/".join(c2), None))                            # rooted, called on an inner element
    tags = sorted({n["tag"] for _, _, n in ch})
    for _ in range(5):
        i, c, n = rng.choice(ch)
        bad = rng.choice([c[:-1] + [c[-1] + "x"], c + [rng.choice(tags)], c[1:], c + [""], [""], c[:-1] + [rng.choice(tags)],
                          [c[0]] + c])
        cmds.append((0, "/".join(bad), None))
    withattr = [(i, c, n) for i, c, n in ch if n["attrs"]]
    for _ in range(min(4, len(withattr))):
        i, c, n = rng.choice(withattr)
        k = rng.choice(sorted(n["attrs"]))
        cmds.append((0, "/".join(c), (k, n["attrs"][k])))
        cmds.append((0, "/".join(c), (k, n["attrs"][k] + "~")))
    out = []
    for at, p, f in cmds:
        s = "find %d %s" % (at, p.encode().hex() or "-")
        if f:
            s += " %s %s" % (f[0].encode().hex(), f[1].encode().hex() or "-")
        out.append(s)
    return out


# ---------------------------------------------------------------------------------------------------------
# arbitrary bytes
def mutate(rng, seeds):
    s = bytearray(rng.choice(seeds))
    for _ in range(rng.choice([1, 1, 2, 3, 6])):
        r = rng.random()
        if r < 0.2 and s:
            s[rng.randrange(len(s))] ^= 1 << rng.randrange(8)
        elif r < 0.35 and s:
            del s[rng.randrange(len(s))]
        elif r < 0.55:
            s.insert(rng.randint(0, len(s)), rng.choice(b"<>/?!-[]=\"' \n&;#x\\*a0") if rng.random() < 0.8 else rng.randrange(256))
        elif r < 0.7 and s:
            i = rng.randrange(len(s))
            j = min(len(s), i + rng.randint(1, 12))
            s[i:i] = s[i:j] * rng.randint(1, 4)
        elif r < 0.85:
            o = rng.choice(seeds)
            i = rng.randint(0, len(s))
            s[i:i] = o[rng.randrange(len(o) + 1):][:rng.randint(0, 40)]
        else:
            s = s[:rng.randint(0, len(s))]
    return bytes(s[:4096])


def structured_bytes(rng):
    k = rng.random()
    if k < 0.15:
        n = rng.choice([1, 5, 127, 128, 129, 130, 300])
        return (b"<a>" * n + rng.choice([b"", b"x", b"</a>" * n]))[:4096]
    if k < 0.3:
        return (b"<a " + b" ".join(b"a%d='%d'" % (i, i) for i in range(rng.randint(1, 400))) + b"/>")[:4096]
    if k < 0.45:
        return b"<a x='" + b"".join(rng.choice([b"&amp;", b"&#38;", b"&lt;", b"&#x26;", b"amp;", b"&", b"#60;", b"&#9999999999999;",
                                                 b"&#xffffffffffff;", b"&#0;", b"&zz;", b"&a1234;"])
                                     for _ in range(rng.randint(1, 500)))[:4000] + b"'/>"
    if k < 0.6:
        return bytes(rng.randrange(256) for _ in range(rng.randint(0, 4096)))
    if k < 0.8:
        al = b"<>/?!-=\"' \nab&;"
        return bytes(rng.choice(al) for _ in range(rng.randint(0, 300)))
    return (b"<r>" + b"".join(rng.choice([b"<!--", b"-->", b"<?", b"?>", b"<x/>", b"</x>", b"<x>", b"t", b"<![CDATA[", b"]]>", b"--"])
                              for _ in range(rng.randint(1, 600))))[:4096]


# ---------------------------------------------------------------------------------------------------------
def models(ctx):
    jobs = [("MC_XmlSM.tla", "MC_XmlSM.cfg", ["Live", "Nesting", "Total", "transition cover export"], None),
            ("MC_XmlAttr.tla", "MC_XmlAttr.cfg", ["ATotal", "transition cover export"], None),
            ("MC_XmlTree.tla", "MC_XmlTree_shapes.cfg", ["RoundTrip", "FindsOwn", "tree export"], None),
            ("MC_XmlTree.tla", "MC_XmlTree_decorated.cfg", ["RoundTrip", "FindsOwn", "tree export"], None),
            ("MC_XmlTree.tla", "MC_XmlTree_dev.cfg", [], "RoundTrip")]
    with ThreadPoolExecutor(max_workers=3) as ex:
        # the exploration models run single-threaded: with VIEW, which input reaches an abstract state first (and is
        # exported) depends on the order of exploration, and the check must be reproducible
        res = list(ex.map(lambda j: tlc.check(j[0], j[1], workers=1 if "Tree" not in j[0] else 4, timeout=1800), jobs))
    out = []
    for (m, c, props, want), r in zip(jobs, res):
        if want is None:
            if not r["ok"]:
                raise core.Infra("%s/%s violates %s: the design model is wrong" % (m, c, r["violated"]))
            ctx.add_model(r, m, c, props)
            # TLC's workers print in any order: sort, so that the seeded choices below are reproducible
            out.append(sorted(tlc.leaves(r["out"]), key=lambda x: json.dumps(x, sort_keys=True)))
        else:
            if r["ok"] or r["violated"] != want:
                raise core.Infra("%s with the code's decoder does not violate %s: invariant is vacuous" % (c, want))
            ctx.extra.setdefault("deviation_witnesses", {})[c] = r["violated"]
    sm, at, shapes, deco = out
    if len(sm) < 800 or len(at) < 300 or len(shapes) < 150 or len(deco) < 1000:
        raise core.Infra("model export too small: %d %d %d %d" % (len(sm), len(at), len(shapes), len(deco)))
    pairs = sorted({(x["st"], x["cls"]) for x in sm if x["st"]})
    ctx.extra["sm_transitions_covered"] = {"state_x_class": len(pairs),
                                           "state_x_class_x_nested": len({(x["st"], x["cls"], x["depth"] > 0) for x in sm if x["st"]}),
                                           "attr_state_x_char": len({(x["st"], x["c"]) for x in at if x["st"]})}
    ctx.exhaustive = True
    return sm, at, [from_leaf(j) for j in shapes], [from_leaf(j) for j in deco]


def run_batches(ctx, binary, jobs, name):
    """jobs: list of (key, [command lines]); each job begins with its own `reset`.  Runs them in a few probe
    processes; when a process dies the job in progress is blamed (after one re-run) and the rest continues in a
    fresh process.  Returns {key: events}, {key: (rc, report)}."""
    env = build.run_env()
    nproc = 8
    parts = [jobs[i::nproc] for i in range(nproc)]

    def one(part):
        got, dead = {}, {}
        todo = list(part)
        retried = set()
        while todo:
            text = "".join("\n".join(cmds) + "\n" for _, cmds in todo) + "quit\n"
            r_evs, rc, err = core.run_probe(binary, text, env, timeout=1200)
            cur, n = None, -1
            for ev in r_evs:
                if ev["e"] == "Reset":
                    n += 1
                    cur = got.setdefault(todo[n][0], [])
                    del cur[:]
                if ev["e"] == "Error":
                    raise core.Infra("probe_xml: %s" % ev)
                if cur is not None:
                    cur.append(ev)
            if rc == 0:
                break
            # the job in progress when the process died
            key = todo[max(n, 0)][0]
            if key not in retried:
                retried.add(key)
                ctx.extra["transient_probe_aborts"] = ctx.extra.get("transient_probe_aborts", 0) + 1
                todo = todo[max(n, 0):]
                continue
            dead[key] = (rc, core.san_report(err))
            todo = todo[max(n, 0) + 1:]
        return got, dead
    with ThreadPoolExecutor(max_workers=nproc) as ex:
        res = list(ex.map(one, parts))
    got, dead = {}, {}
    for g, d in res:
        got.update(g)
        dead.update(d)
    return got, dead


def mon_parse(ev):
    e = {"e": "Parse", "out": ev["out"], "xe": ev["xe"], "kind": ev["kind"]}
    if "tree" in ev:
        e["tree"] = ev["tree"] if ev["out"] == "tree" else {}
    return e


def dead_parse(rc):
    return {"e": "Parse", "out": "timeout" if rc == 95 else "memerr", "xe": False, "kind": "rc%d" % rc}


def _run(ctx, corrupt=None):
    sm, at, shapes, deco = models(ctx)
    ctx.tick("model")
    rng = random.Random(ctx.seed)
    binary = build.probe("probe_xml", "asan", runtime=["xml.cpp", "f8utils.cpp"])
    jobs, meta = [], {}

    def add(kind, reset, cmds, info):
        key = len(jobs)
        jobs.append((key, ['reset {"k":%d}' % key] + cmds))
        meta[key] = (kind, reset, info)

    # (i) transition cover: every exported input, as it is (end of input right after the transition) and completed
    seeds = []
    sm_inputs = []
    for x in sm:
        b = bytes(x["inp"])
        for suf in [b"", b">", rng.choice([b"/>", b"></a>", b"-->", b"?>", b"\"/>", b"</a>", b" x='1'/>", b"<b/></a>", b"'>t</a>"])]:
            sm_inputs.append(b + suf)
    for x in at:
        b = bytes(x["inp"])
        for suf in [b"/>", b">", b""]:
            sm_inputs.append(b"<e " + b + suf)
    sm_inputs = sorted(set(sm_inputs))
    for b in sm_inputs:
        add("model", {"e": "Reset", "kind": "model", "inp": list(b)}, ["parse %s" % (b.hex() or "-")], {"input": b})
    seeds += sm_inputs
    # (ii) trees: the model's trees in canonical text (also compared with the design parser), then grown trees
    ntree = 0
    for t in shapes + deco:
        txt = canon(t).encode()
        add("tree", {"e": "Reset", "kind": "tree", "tree": to_mon(t), "inp": list(txt)},
            ["parse %s" % txt.hex()] + find_cmds(rng, t, 4), {"input": txt, "tree": t})
        ntree += 1
    grown = printable_family()
    ngrow = 170 if ctx.quick else 1500
    for i in range(ngrow):
        lv = rng.choice([2, 3, 4, 5, 6, 6])
        t = decorate(rng, grow(rng, shapes, lv, wide=rng.random() < 0.6), rng.sample(TAGS, rng.randint(1, 5)))
        if size(t) > 260:
            continue
        grown.append(t)
    for t in grown:
        for _ in range(1 if ctx.quick else 2):
            txt = serialise(rng, t).encode()
            add("tree", {"e": "Reset", "kind": "tree", "tree": to_mon(t)},
                ["parse %s" % txt.hex()] + find_cmds(rng, t, 16 if ctx.quick else 40), {"input": txt, "tree": t})
            seeds.append(txt[:4096])
            ntree += 1
    ctx.extra["grown_trees"] = {"n": len(grown), "max_depth": max(depth(t) for t in grown),
                                "max_width": max(max([len(n["kids"]) for _, _, n in chains(t)]) for t in grown),
                                "max_elements": max(size(t) for t in grown)}
    # (iii) arbitrary bytes: seeds, mutations of seeds, structured and random strings, <= 4 KB; many per job
    nbytes = 12000 if ctx.quick else 150000
    blobs = [s for s in seeds if rng.random() < 0.2]
    blobs += [b"<xi:include href='no_such_file.xml'/>", b"<a><xi:include href=\"no_such_file.xml\"/></a>", b"<xi:include/>", b""]
    while len(blobs) < nbytes:
        blobs.append(mutate(rng, seeds) if rng.random() < 0.75 else structured_bytes(rng))
    PER = 200
    for i in range(0, len(blobs), PER):
        chunk = blobs[i:i + PER]
        add("bytes", {"e": "Reset", "kind": "bytes"}, ["parseq %s" % (b.hex() or "-") for b in chunk], {"inputs": chunk})
    # ---- run ----------------------------------------------------------------------------------------------
    got, dead = run_batches(ctx, binary, jobs, "c32")
    ctx.tick("probe")
    execs, keys = [], []
    for key, _ in jobs:
        kind, reset, info = meta[key]
        evs = got.get(key, [])
        body = [mon_parse(e) if e["e"] == "Parse" else e for e in evs if e["e"] in ("Parse", "Find")]
        if key in dead:
            body.append(dead_parse(dead[key][0]))
            info["stderr"] = dead[key][1]
            info["culprit_index"] = len([e for e in body if e["e"] == "Parse"]) - 1
        elif kind == "bytes" and len(body) != len(info["inputs"]):
            raise core.Infra("probe returned %d results for %d inputs" % (len(body), len(info["inputs"])))
        elif kind != "bytes" and (not body or body[0]["e"] != "Parse"):
            raise core.Infra("probe returned nothing for job %d" % key)
        execs.append([reset] + body)
        keys.append(key)
    # interleave the kinds so that the validation chunks are of similar weight
    order = [j for r in range(8) for j in range(r, len(execs), 8)]
    execs = [execs[j] for j in order]
    keys = [keys[j] for j in order]
    if corrupt:
        corrupt(execs, [meta[k] for k in keys])
    fails, labels, info_v = tlc.validate_execs("T_Xml.tla", "T_Xml.cfg", execs, ctx.workdir, "c32", chunks=8, heap="4g")
    ctx.add_validation(info_v, len(execs))
    ctx.tick("validate")
    # ---- bookkeeping -------------------------------------------------------------------------------------------
    nparse = nfind = 0
    for ex_, key in zip(execs, keys):
        kind, reset, info = meta[key]
        if kind == "bytes":
            for b, e in zip(info["inputs"], ex_[1:]):
                ctx.case(("bytes", b.hex(), e["out"], e["kind"]), nontrivial=e["out"] == "exc" or len(b) > 8)
                nparse += 1
        else:
            p = ex_[1]
            nparse += 1
            nfind += len(ex_) - 2
            ctx.case((kind, info["input"].hex(), p["out"], p["kind"], [(f["path"], f["hits"], f["first"]) for f in ex_[2:]]),
                     nontrivial=True, n=len(ex_) - 1)
    conform = labels.get("design_conform", 0)
    differs = sorted(k for k in labels if k.startswith("design_differs"))
    ctx.extra["design_labels"] = {"design_conform": conform, "design_differs": len(differs)}
    if differs:
        ctx.extra["design_differs_lines"] = differs[:20]
    seen = set()
    for f in fails:
        key = keys[f["exec"]]
        kind, reset, info = meta[key]
        k2 = (key, f["sig"])
        if k2 in seen:
            continue
        seen.add(k2)
        if kind == "bytes":
            idx = f["pos"] - 1
            b = info["inputs"][idx] if 0 <= idx < len(info["inputs"]) else b""
            case = {"input_hex": b.hex(), "input": b.decode("latin1"), "event": f["event"], "stderr": info.get("stderr", "")}
        else:
            case = {"input": info["input"].decode("latin1"), "input_hex": info["input"].hex(), "event": f["event"],
                    "generated_tree": info.get("tree"), "stderr": info.get("stderr", "")}
        ctx.fail(f["sig"], f["why"], case)
    ctx.rule = ("one evaluation = one call of XmlElement::Factory or XmlElement::find judged by the monitor: %d transition-"
                "derived inputs (every (state, class) edge of the element and attribute machines, bare and completed), %d "
                "documents of generated trees (%d TLC trees in canonical text, %d grown trees up to depth %d / width %d) with "
                "%d path lookups, %d arbitrary byte strings <= 4 KB; distinct = distinct (input, outcome, lookup results)"
                % (len(sm_inputs), ntree, len(shapes) + len(deco), len(grown), ctx.extra["grown_trees"]["max_depth"],
                   ctx.extra["grown_trees"]["max_width"], nfind, len(blobs)))
    ctx.extra["parses"] = nparse
    ctx.extra["finds"] = nfind
    tr = [(ex_, k) for ex_, k in zip(execs, keys) if meta[k][0] == "tree" and "inp" not in ex_[0]]
    if tr:
        ex_, k = tr[len(tr) // 2]
        ctx.sample({"document": meta[k][2]["input"].decode("latin1")[:600], "parse": {"out": ex_[1]["out"]}, "lookups": ex_[2:6]})
    mo = [(ex_, k) for ex_, k in zip(execs, keys) if meta[k][0] == "model"]
    if mo:
        ex_, k = mo[len(mo) // 3]
        ctx.sample({"input": meta[k][2]["input"].decode("latin1"), "trace": ex_[1:]})
    ctx.trusted = ["TLC", "probe_xml (moves data only)", "the driver's serialiser and tree generator", "ASan/UBSan"]
    ctx.assumptions = ["attribute values and text are printable ASCII without CR/LF; text has at least one non-blank character",
                       "markup characters < > & \" ' are always written as entity or numeric references",
                       "layout white space is only generated where the element has no text; a line end inside a tag is "
                       "followed by indentation", "the reserved attribute name docpath and xi:include are not generated",
                       "extensions are switched off with XmlElement::noextensions"]


def selftest(ctx):
    """Corrupt one parsed attribute value / one lookup result of passing runs: the monitor must reject both."""
    hit = {}

    def corrupt(execs, metas):
        for ex_, m in zip(execs, metas):
            if m[0] != "tree" or len(ex_) < 3 or ex_[1]["out"] != "tree":
                continue
            if "a" not in hit and ex_[1]["tree"]["attrs"]:
                ex_[1]["tree"]["attrs"][0][1] = ex_[1]["tree"]["attrs"][0][1] + [33]
                hit["a"] = True
            elif "f" not in hit:
                for f in ex_[2:]:
                    if len(f["hits"]) >= 1:
                        f["hits"] = f["hits"][1:]
                        hit["f"] = True
                        break
            if len(hit) == 2:
                break
    _run(ctx, corrupt)
    sigs = {f["sig"] for f in ctx.failures}
    ok = "tree:attr_value:unexplained" in sigs and any(s.startswith("find:") and s.endswith(":missing") for s in sigs)
    ctx.failures = [f for f in ctx.failures
                    if not (f["sig"] == "tree:attr_value:unexplained" or (f["sig"].startswith("find:") and f["sig"].endswith(":missing")))]
    if not ok:
        raise core.Infra("self-test: corrupted trace was not rejected (%s)" % sorted(sigs))
    ctx.extra["selftest"] = "corrupted attribute value and lookup result rejected"


def run(ctx):
    if os.environ.get("VERIF_SELFTEST") == "1":
        return selftest(ctx)
    return _run(ctx)
