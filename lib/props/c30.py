"""C30 The inter-thread queue never loses, duplicates or reorders (DESIGN.md 3 H1, 5.8, 6 C30;
spec/MPMC.tla, MC_MPMC.tla, T_MPMC.tla; spec/USpsc.tla, MC_USpsc.tla, MC_USpscSeq.tla, T_USpsc.tla; harness/src/probe_mpmc.cpp; hook pending/mpmc/hook_mpmc_yield.patch)."""
import json
import os
import random
import re
from concurrent.futures import ThreadPoolExecutor

import build
import core
import tlc

PROBES = [("probe_mpmc", "asan", [], []), ("probe_mpmc", "tsan", [], []), ("probe_mpmc", "plain", [], [])]

MANIFEST = dict(
    text='TLC checks the ticket/sequence-word protocol of uMPMC_Ptr_Queue (every atomic step of push and pop, 2 sub-queues, 2 producers x 2 pushes, 2 consumers x 3 pops, all interleavings) for exactly-once, reservation order and the empty clause; TLC-generated schedules (every edge of the state graph of a smaller configuration, plus simulated behaviours of a larger one) are executed step by step on the real queue through FIX8_VERIF yield points with all other threads parked, and TLC validates every recorded step (property monitor on counters and returned elements; design conformance of each step with the spec action); free-running runs with 2-16 threads (ASan, TSan and plain builds) are judged by the same TLA+ monitor on their pop logs. The sub-queue that the protocol spec takes as an atomic FIFO (uSWSR_Ptr_Buffer: bounded rings chained through a pool with a cache of released rings) has its own access-grain spec (USpsc.tla: Fifo, pop-fails-only-when-empty, no element in a released ring, rings in one place only, progress under fairness; three named deviations must violate); TLC exports one call sequence per edge of its call-grain state graph, the real class is driven along them with rings of 2-3 slots, along backlogs that overflow the ring cache and by two free threads, and T_USpsc.tla judges every call.',
    note='Trusts TLC, the probe (scheduler and logging only), the friend accessor reading the private counters, ASan/UBSan. Sequentially consistent atomics assumed in the model; weak-memory effects are only sampled by the free-running runs on x86. Free-running logs carry no common clock, so cross-consumer order and empties that overlap a push are decided by the controlled executions only. TSan reports are counted, not judged (the queue uses volatile words as atomics).',
    tech='TLA+ protocol spec + TLC exhaustive check; edge-cover and simulated schedules replayed on the real queue under controlled scheduling (hook H1); TLC trace validation; free-running stress judged by the TLA+ monitor; access-grain TLA+ spec of the sub-queue, TLC-exported call sequences replayed on the real sub-queue, TLC trace validation',
    ref='3 (H1, controlled scheduling), 5.8, 6 C30')

# deviation configs: (cfg, invariant that must be violated)
DEVS = [("MC_MPMC_dev_publish_early.cfg", "SubQueueNonEmptyAtPop"),
        ("MC_MPMC_dev_no_seqP_check.cfg", "TicketOrder"),
        ("MC_MPMC_dev_no_published_check.cfg", "PoppedExactlyOnce"),
        ("MC_MPMC_strict.cfg", "EmptyOnlyIfNothingPublished"),
        ("MC_MPMC_reach_empty.cfg", "Reach_Empty"),
        ("MC_MPMC_reach_allpopped.cfg", "Reach_AllPopped")]

COVER = dict(nq=2, np=2, nc=2, npush=1, npop=2)      # MC_MPMC_cover.cfg
SIM = dict(nq=2, np=3, nc=2, npush=2, npop=4)        # MC_MPMC_sim.cfg
SIM4 = dict(nq=4, np=3, nc=3, npush=3, npop=4)       # MC_MPMC_sim4.cfg (thorough)


_BIN = {}


def binaries():
    """The three builds of the probe (resolved once, in the calling thread: build.probe takes a file lock)."""
    if not _BIN:
        for v in ("asan", "tsan", "plain"):
            _BIN[v] = build.probe("probe_mpmc", v, runtime=[])
    return _BIN


def cover_walks(leaves, rng):
    """leaves: [hist, <state fields>...] one per generated edge of the state graph (hist = a shortest
    schedule to the edge's source state + the stepping thread).  Returns schedules that together take
    every edge: each starts with the shortest schedule to a not yet covered edge and then keeps
    following uncovered edges for as long as the current state has one."""
    key_of = {(): "INIT"}
    rows = []
    for L in leaves:
        h = tuple(L[0])
        if not h:
            continue                      # the initial state is printed too
        k = json.dumps(L[1:], sort_keys=True)
        key_of[h] = k
        rows.append((h, k))
    adj, canon = {}, {"INIT": ()}
    for h, k in rows:
        src = key_of.get(h[:-1])
        if src is None:
            raise core.Infra("edge export: schedule prefix without a state")
        adj.setdefault(src, {})[h[-1]] = k
        if k not in canon or len(h) < len(canon[k]):
            canon[k] = h
    uncovered = {(s, t) for s, d in adj.items() for t in d}
    nedges = len(uncovered)
    order = sorted(uncovered, key=lambda e: (-len(canon[e[0]]), e[0], e[1]))
    walks = []
    for (s, t) in order:
        if (s, t) not in uncovered:
            continue
        w = list(canon[s])
        cur = "INIT"
        for x in w:                       # edges along the shortest path count as covered too
            uncovered.discard((cur, x))
            cur = adj[cur][x]
        while True:
            w.append(t)
            uncovered.discard((cur, t))
            cur = adj[cur][t]
            nxt = sorted(x for x in adj.get(cur, {}) if (cur, x) in uncovered)
            if not nxt:
                break
            t = rng.choice(nxt)
        walks.append(w)
    return walks, nedges, len(adj)


def sim_schedules(ctx, cfg, num, seed):
    r = tlc.check("MC_MPMC.tla", cfg, workers=1, timeout=600,
                  extra=["-simulate", "num=%d" % num, "-depth", "2000", "-seed", str(seed)])
    if not r["ok"]:
        raise core.Infra("simulation of %s violates %s: the protocol model is wrong" % (cfg, r["violated"]))
    m = re.search(r"(\d+) states checked, (\d+) traces generated", r["out"])
    if m:
        r["stats"] = {"generated": int(m.group(1)), "distinct": int(m.group(1)), "queue": 0, "depth": 0}
    ctx.add_model(r, "MC_MPMC.tla", cfg + " (-simulate num=%d seed=%d)" % (num, seed),
                  ["PoppedExactlyOnce", "TicketOrder", "EmptyOnlyIfHeadUnpublished", "behaviour export"])
    L = tlc.leaves(r["out"])
    if len(L) < num * 0.9:
        raise core.Infra("simulation of %s exported only %d behaviours" % (cfg, len(L)))
    return L


def run_ctl(ctx, jobs, variant="asan", nproc=6):
    """jobs: list of (cfgdict, schedule).  Returns list of executions (event lists) aligned with jobs."""
    binary = binaries()[variant]
    env = build.run_env(variant)
    nproc = max(1, min(nproc, len(jobs) // 20 or 1))
    parts = [list(range(i, len(jobs), nproc)) for i in range(nproc)]

    def one(pi):
        lines = []
        for j in parts[pi]:
            c, s = jobs[j]
            lines.append("ctl %d 4 %d %d %d %d %s" % (c["nq"], c["np"], c["nc"], c["npush"], c["npop"],
                                                      ",".join(map(str, s)) or "-"))
        lines.append("quit")
        return core.run_probe(binary, "\n".join(lines) + "\n", env, timeout=900)
    with ThreadPoolExecutor(max_workers=nproc) as ex:
        res = list(ex.map(one, range(nproc)))
    execs = [None] * len(jobs)
    aborts = []
    for pi, (evs, rc, err) in enumerate(res):
        got = []
        for ev in evs:
            if ev["e"] == "Error":
                raise core.Infra("probe_mpmc: %s" % ev)
            if ev["e"] == "Reset":
                got.append([])
            if got:
                got[-1].append(ev)
        for n, ex_ in enumerate(got):
            execs[parts[pi][n]] = ex_
        if rc not in (0, 95):
            aborts.append((parts[pi][len(got) - 1] if got else None, rc, core.san_report(err)))
        elif rc == 0 and len(got) != len(parts[pi]):
            raise core.Infra("probe_mpmc ran %d of %d schedules" % (len(got), len(parts[pi])))
    return execs, aborts


def run_free(ctx, runs):
    """runs: list of (variant, nq, seg, np, nc, npush, spin).  One process per run, two at a time."""
    bins = binaries()

    def one(r):
        variant, nq, seg, np_, nc, npush, spin = r
        binary = bins[variant]
        env = build.run_env(variant)
        if variant == "tsan":
            env["TSAN_OPTIONS"] = "exitcode=0:halt_on_error=0:report_signal_unsafe=0"
        evs, rc, err = core.run_probe(binary, "free %d %d %d %d %d %d\nquit\n" % (nq, seg, np_, nc, npush, spin), env, timeout=600)
        return evs, rc, err
    with ThreadPoolExecutor(max_workers=2) as ex:
        res = list(ex.map(one, runs))
    execs, aborts, tsan = [], [], 0
    for r, (evs, rc, err) in zip(runs, res):
        if any(e["e"] == "Error" for e in evs):
            raise core.Infra("probe_mpmc: %s" % evs)
        tsan += err.count("WARNING: ThreadSanitizer")
        for m in re.finditer(r"SUMMARY: ThreadSanitizer: (.*?) \S*/include/(fix8/ff/\S+) in (.*)", err):
            ctx.extra.setdefault("tsan_report_sites_not_judged", {})
            k = "%s %s %s" % (m.group(1), m.group(2), m.group(3)[:60])
            ctx.extra["tsan_report_sites_not_judged"][k] = ctx.extra["tsan_report_sites_not_judged"].get(k, 0) + 1
        evs = [e for e in evs if e["e"] in ("Reset", "Pops", "FreeEnd", "Stuck")]
        if rc not in (0, 95):
            aborts.append((r, rc, core.san_report(err)))
        if not evs or evs[0]["e"] != "Reset":
            if rc in (0, 95):
                raise core.Infra("probe_mpmc free run %s produced no log (rc %d): %s" % (r, rc, err[-500:]))
            evs = [{"e": "Reset", "mode": "free", "nq": r[1], "np": r[3], "nc": r[4], "npush": r[5], "npop": 0}]  # aborted before logging
        execs.append(evs)
    return execs, aborts, tsan


def models(ctx):
    # thorough adds 4 sub-queues and 3 producers (3 producers x 2 pushes exceeds 7e7 states: left to simulation)
    for cfg in ["MC_MPMC_full.cfg"] + ([] if ctx.quick else ["MC_MPMC_nq4.cfg", "MC_MPMC_3prod.cfg"]):
        r = tlc.check("MC_MPMC.tla", cfg, workers=8, timeout=3000, heap="12g")
        if not r["ok"]:
            raise core.Infra("protocol model violates %s: the model of the queue is wrong (or the protocol is)" % r["violated"])
        ctx.add_model(r, "MC_MPMC.tla", cfg, ["PoppedExactlyOnce", "TicketOrder", "EmptyOnlyIfHeadUnpublished",
                                              "SubQueueNonEmptyAtPop", "SlotExclusive"])
    ctx.exhaustive = True

    def dev(d):
        return tlc.check("MC_MPMC.tla", d[0], workers=2, timeout=600, heap="4g")
    with ThreadPoolExecutor(max_workers=4) as ex:
        res = list(ex.map(dev, DEVS))
    for (c, inv), r in zip(DEVS, res):
        if r["violated"] != inv:
            raise core.Infra("vacuity guard: %s should violate %s, got %s" % (c, inv, r["violated"]))
        ctx.add_model(r, "MC_MPMC.tla", c, ["must violate " + inv])
    ctx.extra["deviation_configs_violate"] = {c: inv for c, inv in DEVS}


# ---- the sub-queue (spec/USpsc.tla) ----------------------------------------------------------------
USPSC_DEVS = [("MC_USpsc_dev_no_recheck.cfg", "NoBreach"), ("MC_USpsc_dev_cache_before_reset.cfg", "NoBreach"),
              ("MC_USpsc_dev_recycled_not_linked.cfg", "NoBreach"), ("MC_USpsc_witness_NoRecycle.cfg", "NoRecycle"),
              ("MC_USpsc_dev_live_recycled.cfg", "temporal"), ("MC_USpsc_witness_NoFree.cfg", "NoFree"), ("MC_USpsc_witness_NoThreeRings.cfg", "NoThreeRings")]


def subqueue(ctx, rng):
    """uSWSR_Ptr_Buffer, which MPMC.tla takes as an atomic FIFO: TLC checks its ring-chain design at access grain
    (USpsc.tla), exports one call sequence per edge of the call-grain state graph, and the real class is driven
    along them (one thread) and by two free-running threads; T_USpsc.tla judges every call."""
    for cfg in ["MC_USpsc_full.cfg", "MC_USpsc_seg3.cfg", "MC_USpsc_live.cfg"]:
        r = tlc.check("MC_USpsc.tla", cfg, workers=4, timeout=900, heap="4g")
        if not r["ok"]:
            raise core.Infra("sub-queue model violates %s" % r["violated"])
        ctx.add_model(r, "MC_USpsc.tla", cfg, ["AllPopped (fair)"] if "live" in cfg else ["Fifo", "NoBreach", "ChainHoldsRest", "RingsDisjoint"])

    def dev(d):
        return tlc.check("MC_USpsc.tla", d[0], workers=1, timeout=300, heap="2g")
    with ThreadPoolExecutor(max_workers=6) as ex:
        res = list(ex.map(dev, USPSC_DEVS))
    for (c, inv), r in zip(USPSC_DEVS, res):
        if inv == "temporal" and r["violated"] is not None and "Temporal property AllPopped was violated" in r["out"]:
            r["violated"] = "temporal"
        if r["violated"] != inv:
            raise core.Infra("vacuity guard: %s should violate %s, got %s" % (c, inv, r["violated"]))
        ctx.add_model(r, "MC_USpsc.tla", c, ["must violate " + inv])
    jobs = []        # (seg, ops)
    nedges = {}
    for cfg, seg in [("MC_USpscSeq_export.cfg", 2)] + ([] if ctx.quick else [("MC_USpscSeq_export3.cfg", 3)]):
        r = tlc.check("MC_USpscSeq.tla", cfg, workers=1, timeout=900, heap="4g")
        if not r["ok"]:
            raise core.Infra("sub-queue export violates %s" % r["violated"])
        ctx.add_model(r, "MC_USpscSeq.tla", cfg, ["Fifo", "NoBreach", "call-grain edge export"])
        seqs = sorted({"".join(L[0]) for L in tlc.leaves(r["out"])})
        if len(seqs) < 5000:
            raise core.Infra("sub-queue export produced only %d call sequences" % len(seqs))
        nedges[cfg] = len(seqs)
        # a sequence that is a proper prefix of another one is replayed by the longer one
        keep = [a for a, b in zip(seqs, seqs[1:] + [""]) if not b.startswith(a)]
        if ctx.quick:
            rng.shuffle(keep)
            keep = keep[:1200]
        jobs += [(seg, k) for k in keep]
    # the code's ring cache holds 32 rings (1-2 in the models): backlogs that release more than 32 rings, twice,
    # and seeded long call sequences
    for seg in (2, 3, 5):
        n = seg * 40
        jobs.append((seg, "U" * n + "O" * (n + 2) + "U" * n + "O" * (n // 2) + "U" * n + "O" * (2 * n)))
    for _ in range(20 if ctx.quick else 200):
        seg = rng.choice([2, 2, 3, 4, 7])
        ops, bias = [], 0.5
        for k in range(rng.randint(100, 600)):
            if k % 50 == 0:
                bias = rng.choice([0.2, 0.45, 0.55, 0.8])
            ops.append("U" if rng.random() < bias else "O")
        jobs.append((seg, "".join(ops)))
    bins = binaries()
    parts = [jobs[i::4] for i in range(4)]

    def one(pi):
        return core.run_probe(bins["asan"], "".join("uspsc %d %s\n" % j for j in parts[pi]) + "quit\n", build.run_env("asan"), timeout=600)
    with ThreadPoolExecutor(max_workers=4) as ex:
        res = list(ex.map(one, range(4)))
    execs, cases = [], []
    for pi, (evs, rc, err) in enumerate(res):
        cur = None
        got = []
        for e in evs:
            if e["e"] == "Error":
                raise core.Infra("probe_mpmc: %s" % e)
            if e["e"] == "Reset":
                cur = [e]
                got.append(cur)
            elif cur is not None:
                cur.append(e)
        if rc != 0:
            ctx.fail("probe_abort:rc%d" % rc, "memory error or crash in the sub-queue (one thread, call sequence)",
                     {"job": parts[pi][len(got) - 1] if got else None, "stderr": core.san_report(err)})
        elif len(got) != len(parts[pi]):
            raise core.Infra("probe_mpmc uspsc ran %d of %d sequences" % (len(got), len(parts[pi])))
        for j, ex_ in zip(parts[pi], got):
            execs.append(ex_)
            cases.append({"uspsc": {"seg": j[0], "calls": j[1]}})
    # two free-running threads on one sub-queue
    n = 1 if ctx.quick else 6
    fruns = [("asan", 2, 30000 * n, 0), ("asan", 3, 30000 * n, 5), ("plain", 2, 300000 * n, 0), ("plain", 4, 300000 * n, 0),
             ("plain", 2, 100000 * n, 1), ("tsan", 2, 20000 * n, 0), ("tsan", 8, 20000 * n, 3), ("plain", 2048, 300000 * n, 0)]

    def free(r):
        variant, seg, cnt, spin = r
        env = build.run_env(variant)
        if variant == "tsan":
            env["TSAN_OPTIONS"] = "exitcode=0:halt_on_error=0:report_signal_unsafe=0"
        return core.run_probe(bins[variant], "uspsc2 %d %d %d\nquit\n" % (seg, cnt, spin), env, timeout=600)
    with ThreadPoolExecutor(max_workers=3) as ex:
        fres = list(ex.map(free, fruns))
    for r, (evs, rc, err) in zip(fruns, fres):
        evs = [e for e in evs if e["e"] in ("Reset", "SRuns")]
        if rc != 0:
            ctx.fail("probe_abort:rc%d" % rc, "memory error or crash in the sub-queue (two free threads %s)" % (r,), {"run": r, "stderr": core.san_report(err)})
            continue
        if len(evs) != 2:
            raise core.Infra("probe_mpmc uspsc2 %s produced no log: %s" % (r, err[-400:]))
        if evs[1].get("timeout") and not evs[1].get("false_after_done"):
            raise core.Infra("probe_mpmc uspsc2 %s: no verdict, the threads were starved for 150 s" % (r,))
        execs.append(evs)
        cases.append({"uspsc2": dict(zip(("variant", "seg", "n", "yield_every"), r))})
    fails, _, info = tlc.validate_execs("T_USpsc.tla", "T_USpsc.cfg", execs, ctx.workdir, "c30sub", chunks=8, heap="3g")
    ctx.add_validation(info, len(execs))
    seen = set()
    for f in fails:
        if (f["exec"], f["sig"]) in seen:
            continue
        seen.add((f["exec"], f["sig"]))
        ctx.fail(f["sig"], f["why"], {"run": cases[f["exec"]], "pos": f["pos"], "event": f["event"],
                                      "trace": execs[f["exec"]][max(0, f["pos"] - 20):f["pos"] + 1]})
    for c_, ex_ in zip(cases, execs):
        ctx.case(json.dumps(c_, sort_keys=True), nontrivial=any(e["e"] == "SRuns" or (e["e"] == "SPop" and e.get("ok")) for e in ex_))
    ctx.extra["subqueue"] = {"call_grain_edges_exported": nedges, "call_sequences_run": len(jobs), "free_two_thread_runs": len(fruns),
                             "deviation_configs_violate": {c: inv for c, inv in USPSC_DEVS}}
    if len(execs) > 3:
        ctx.sample({"subqueue": cases[0], "trace": execs[0][:12]})
    return len(jobs), len(fruns)


def judge(ctx, name, execs, cases):
    fails, labels, info = tlc.validate_execs("T_MPMC.tla", "T_MPMC.cfg", execs, ctx.workdir, name, chunks=8, heap="3g")
    ctx.add_validation(info, len(execs))
    for lab, n in labels.items():
        ctx.extra.setdefault("design_labels", {})
        ctx.extra["design_labels"][lab] = ctx.extra["design_labels"].get(lab, 0) + n
    seen = set()
    for f in fails:
        key = (f["exec"], f["sig"])
        if key in seen:
            continue
        seen.add(key)
        ex = execs[f["exec"]]
        ctx.fail(f["sig"], f["why"], {"run": cases[f["exec"]], "pos": f["pos"], "event": _short(f["event"]),
                                      "trace": [_short(e) for e in ex[max(0, f["pos"] - 40):f["pos"] + 1]]})
    return fails


def _short(e):
    if e.get("e") == "Pops" and len(e.get("items", [])) > 60:
        e = dict(e)
        e["items"] = e["items"][:60] + ["..."]
    return e


def run(ctx):
    if os.environ.get("VERIF_SELFTEST") == "1":
        return selftest(ctx)
    rng = random.Random(ctx.seed)
    binaries()
    ctx.tick("build")
    models(ctx)
    ctx.tick("model")

    # ---- schedules chosen by TLC ------------------------------------------------------------------
    r = tlc.check("MC_MPMC.tla", "MC_MPMC_cover.cfg", workers=1, timeout=900)   # one worker: the exported shortest schedules are then the same on every run
    if not r["ok"]:
        raise core.Infra("cover run violates %s" % r["violated"])
    ctx.add_model(r, "MC_MPMC.tla", "MC_MPMC_cover.cfg", ["TicketOrder", "edge cover export"])
    walks, nedges, nstates = cover_walks(tlc.leaves(r["out"]), rng)
    if nedges < 20000:
        raise core.Infra("edge export produced only %d edges" % nedges)
    # thorough: every walk on the plain build and again on the ASan/UBSan build.  quick: a seeded half of
    # the walks on the plain build and a seeded seventh on the ASan build (keeps the tier near a minute;
    # different seeds take different halves)
    if ctx.quick:
        sub = list(walks)
        rng.shuffle(sub)
        jobs_plain = [(COVER, w) for w in sub[:len(sub) // 2]]
        sub = sub[len(sub) // 2:][:max(200, len(walks) // 7)]
    else:
        jobs_plain = [(COVER, w) for w in walks]
        sub = walks
    jobs = [(COVER, w) for w in sub]
    nsim = 150 if ctx.quick else 5000
    sims = sim_schedules(ctx, "MC_MPMC_sim.cfg", nsim, ctx.seed)
    jobs += [(SIM, s) for s in sims]
    if not ctx.quick:
        jobs += [(SIM4, s) for s in sim_schedules(ctx, "MC_MPMC_sim4.cfg", 2000, ctx.seed)]
    ctx.tick("schedules")

    execs_p, aborts_p = run_ctl(ctx, jobs_plain, "plain")
    execs_a, aborts_a = run_ctl(ctx, jobs, "asan")
    ctx.tick("probe_ctl")
    alljobs = jobs_plain + jobs
    execs = execs_p + execs_a
    aborts = aborts_p + [(None if j is None else j + len(jobs_plain), rc, err) for j, rc, err in aborts_a]
    done = [i for i, e in enumerate(execs) if e is not None]
    judge(ctx, "c30ctl", [execs[i] for i in done], [{"cfg": alljobs[i][0], "schedule": ",".join(map(str, alljobs[i][1]))} for i in done])
    for i in done:
        ex = execs[i]
        ctx.case([(e.get("t"), e.get("at")) for e in ex if e["e"] == "Step"],
                 nontrivial=any(e["e"] == "Step" and e.get("ret") and e.get("op") == "pop" and e.get("ok") for e in ex))
    for j, rc, err in aborts:
        ctx.fail("probe_abort:rc%d" % rc, "memory error or crash in the queue under controlled scheduling",
                 {"schedule": alljobs[j][1] if j is not None else None, "stderr": err})
    lab = ctx.extra.get("design_labels", {})
    div = {k: v for k, v in lab.items() if not k.startswith("conform:")}
    ctx.extra["steps_conforming_to_spec_action"] = sum(v for k, v in lab.items() if k.startswith("conform:"))
    ctx.extra["steps_not_conforming"] = div
    ctx.extra["edge_cover"] = {"states": nstates, "edges": nedges, "walks_covering_all_edges": len(walks),
                               "walks_run_plain": len(jobs_plain), "walks_run_asan": len(sub)}
    ctx.tick("validate_ctl")

    # ---- free-running threads ---------------------------------------------------------------------
    n = 1 if ctx.quick else 8
    runs = [("asan", 2, 4, 1, 1, 1500 * n, 0), ("asan", 2, 4, 2, 2, 1000 * n, 0), ("asan", 4, 4, 4, 4, 500 * n, 0),
            ("asan", 4, 2048, 8, 8, 250 * n, 0), ("asan", 2, 4, 3, 1, 700 * n, 7),
            ("tsan", 2, 4, 2, 2, 600 * n, 0), ("tsan", 4, 4, 3, 3, 400 * n, 5),
            ("plain", 2, 4, 1, 1, 2500 * n, 0), ("plain", 4, 4, 8, 8, 300 * n, 0), ("plain", 2, 4, 2, 6, 1000 * n, 3),
            ("plain", 8, 4, 6, 2, 400 * n, 0)]
    # seeded variation of the thread mix
    for _ in range(2 if ctx.quick else 10):
        np_ = rng.randint(1, 8)
        nc = rng.randint(1, 8)
        runs.append((rng.choice(["asan", "plain", "tsan"]), rng.choice([2, 4]), rng.choice([4, 4, 8, 2048]), np_, nc,
                     max(50, (2000 * n) // np_), rng.choice([0, 0, 3, 11])))
    fexecs, faborts, tsan = run_free(ctx, runs)
    ctx.tick("probe_free")
    judge(ctx, "c30free", fexecs, [{"free_run": dict(zip(("variant", "nq", "seg", "np", "nc", "npush", "yield_every"), r))} for r in runs])
    for r, ex in zip(runs, fexecs):
        pops = [e for e in ex if e["e"] == "Pops"]
        ctx.case([r, [len(p["items"]) for p in pops]], nontrivial=True)
    for r, rc, err in faborts:
        ctx.fail("probe_abort:rc%d" % rc, "memory error or crash in the queue (free-running %s)" % (r,), {"run": r, "stderr": err})
    ctx.extra["free_runs"] = [dict(zip(("variant", "nq", "seg", "np", "nc", "npush", "yield_every"), r)) for r in runs]
    ctx.extra["tsan_reports_not_judged"] = tsan
    ctx.tick("validate_free")

    # ---- the sub-queue on its own -----------------------------------------------------------------
    nsub, nsubfree = subqueue(ctx, rng)
    ctx.tick("subqueue")

    ctx.rule = ("TLC explores every interleaving of the atomic steps of push/pop for the bounded configuration; %d of %d "
                "edge-covering schedules of the small configuration (all %d edges in the thorough tier) and %d simulated "
                "schedules of a larger one are executed on the real queue one atomic step at a time, each step judged by the "
                "TLA+ monitor; %d free-running runs (2-16 threads) judged on their pop logs; the sub-queue (uSWSR_Ptr_Buffer) "
                "model-checked at access grain (USpsc.tla) and the real class driven along %d TLC-exported / seeded call "
                "sequences and %d two-thread runs, every call judged by T_USpsc. distinct = distinct step "
                "sequences / thread mixes with at least one successful pop"
                % (len(jobs_plain) + len(sub), len(walks), nedges, len(sims), len(runs), nsub, nsubfree))
    if done:
        i = done[len(done) // 2]
        ctx.sample({"cfg": alljobs[i][0], "schedule": alljobs[i][1], "trace": execs[i][:14]})
        ctx.sample({"cfg": alljobs[done[-1]][0], "schedule": alljobs[done[-1]][1], "trace": execs[done[-1]][-6:]})
    ctx.sample({"free_run": runs[1], "trace": [_short(e) for e in fexecs[1]]})
    if not ctx.quick:
        selftest(ctx)
    ctx.trusted = ["TLC", "probe_mpmc (scheduler, logging)", "hook H1: FIX8_VERIF_YIELD points and friend accessor (add-only)",
                   "ASan/UBSan for memory errors inside the queue"]
    ctx.assumptions = ["sequentially consistent atomics in the model", "bounded thread/operation counts in the model",
                       "controlled executions serialise the atomic steps: effects that need two threads inside one step "
                       "are sampled only by the free-running runs"]


def selftest(ctx):
    """Binding self-test: corrupt one recorded field and show the monitor rejects."""
    execs, _ = run_ctl(ctx, [(COVER, [1, 1, 1, 1, 1, 3, 3, 3, 3, 3, 3])], nproc=1)
    ex = execs[0]
    good, _, _ = tlc.validate_execs("T_MPMC.tla", "T_MPMC.cfg", [ex], ctx.workdir, "c30self0", chunks=1)
    bad = json.loads(json.dumps(ex))
    for e in bad:
        if e["e"] == "Step" and e.get("ret") and e.get("op") == "pop" and e.get("ok"):
            e["val"] = 201
            break
    rej, _, _ = tlc.validate_execs("T_MPMC.tla", "T_MPMC.cfg", [bad], ctx.workdir, "c30self1", chunks=1)
    if good or not rej:
        raise core.Infra("C30 self-test failed: good=%s rejected=%s" % (good, rej))
    ctx.extra["selftest"] = "corrupted popped value rejected: %s" % rej[0]["sig"]
    # the same for the sub-queue monitor
    evs, rc, err = core.run_probe(binaries()["asan"], "uspsc 2 UUUOUUOOOOO\nquit\n", build.run_env("asan"), timeout=120)
    if rc != 0 or not evs or evs[0]["e"] != "Reset":
        raise core.Infra("C30 self-test: uspsc run failed (rc %d)" % rc)
    good, _, _ = tlc.validate_execs("T_USpsc.tla", "T_USpsc.cfg", [evs], ctx.workdir, "c30self2", chunks=1)
    bad = json.loads(json.dumps(evs))
    for e in bad:
        if e["e"] == "SPop" and e.get("ok") and e["v"] == 3:
            e["v"] = 4
            break
    rej, _, _ = tlc.validate_execs("T_USpsc.tla", "T_USpsc.cfg", [bad], ctx.workdir, "c30self3", chunks=1)
    if good or not rej:
        raise core.Infra("C30 sub-queue self-test failed: good=%s rejected=%s" % (good, rej))
    ctx.extra["selftest_subqueue"] = "corrupted popped value rejected: %s" % rej[0]["sig"]
