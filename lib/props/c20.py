"""C20 Sequence gaps are recovered with a conformant counterparty (spec/Recovery.tla, SessionMon.tla C20Step)."""
import json
import os
import random
from concurrent.futures import ThreadPoolExecutor

import core
import session_common as sc
import tlc

PROBES = [("probe_session", "asan", None, ["utest"]), ("probe_session", "plain", None, ["utest"])]

MANIFEST = dict(
    text="TLC checks on Recovery.tla (session receive design || conformant counterparty with a log, losses while "
         "disconnected, reconnects with a higher Logon number, replay of application messages and gap fills, connection "
         "drops in the middle of a replay) that the ideal design never terminates, delivers everything and converges, and "
         "that each named deviation of the code (incr_always, logon_gap_throws, high_outside_continuous_throws) breaks an "
         "invariant; it exports every history (transition cover). Each history is replayed *reactively* on the real "
         "Session: the driver plays the counterparty, observes the ResendRequests the session really writes and answers "
         "them as a conformant counterparty would; the TLA+ monitor judges termination, at-least-once delivery and "
         "convergence of the expected number.",
    note="The unchanged tree fails this property through the recorded findings; the monitor taints an execution with the "
         "locally recognised defect events and a rejection is attributed to a finding only through that taint, so a "
         "violation on an untainted history, or with a different taint, is reported as new.",
    tech="TLA+ session||counterparty recovery spec + TLC; reactive replay of every exported history on the real Session; TLC trace validation with taint attribution",
    ref="5.6, 6 C20")


CFGXML = """<?xml version='1.0' encoding='ISO-8859-1'?>
<fix8>
  <session name="S1" role="initiator" fix_version="4200" active="true" ip="127.0.0.1" port="11001"
           sender_comp_id="INI" target_comp_id="ACC" heartbeat_interval="30" ignore_logon_sequence_check="true"
           process_model="threaded" />
</fix8>
"""


def run_script(live, script, persist, wd, idx, ignore=False):
    """Plays one Recovery.tla history against the real session; returns the monitor events.
    ignore=True installs a SessionConfig with ignore_logon_sequence_check (what ReliableClientSession users set)."""
    cfg = {"prop": "C20", "role": "ini", "persist": persist, "sender": "INI", "target": "ACC", "hb": 30, "reset": False,
           "enforce": True, "always_assign": False, "cfg_send": 0, "cfg_recv": 0, "clients": [], "ignore_logon_gap": ignore}
    evs = []
    now = sc.T0
    peer = sc.Peer()
    live.cmd("reset {}")
    evs.append({"e": "Reset", "cfg": cfg})
    live.cmd("clock %d 0" % now)
    if ignore:
        live.cmd("set sessioncfg %s/ignore.xml" % wd)
    live.cmd("new ini %s %s/c20_%d INI ACC 30" % (persist, wd, idx))
    st = {"up": False, "rr": None, "dead": False, "nr": 0}

    def observe(ev, desc=None):
        m = sc.conv_live(ev, desc)
        evs.append(m)
        for o in m["out"]:
            if o["type"] == "2":
                st["rr"] = (o["begin"], o["end"])
        st["nr"] = m["post"]["nr"]
        if m["post"]["shutdown"]:
            st["dead"] = True
            st["up"] = False
        return m

    def deliver(wire, desc):
        ev = live.cmd("recv " + wire.hex())
        if ev["e"] == "Abort":
            raise core.Infra("probe aborted: %s" % ev.get("stderr", "")[:2000])
        observe(ev, desc)

    def sent(kind, seq, ident):
        evs.append({"e": "PeerSent", "kind": kind, "seq": seq, "id": 100 + ident if ident else 0})

    def tick():
        nonlocal now
        now += 1
        live.cmd("clock %d 0" % now)

    def logon(first):
        ev = live.cmd("start 0 0" if first else "reconnect 0 0")
        observe(ev)
        if st["dead"]:
            return
        st["up"] = True
        st["rr"] = None
        wire, desc = peer.emit("adm", now, logon=True)
        sent("adm", desc["seq"], 0)
        deliver(wire, desc)

    def answer(cut=None):
        b, e = st["rr"]
        st["rr"] = None
        msgs = peer.replay(b, e, now)
        for j, (wire, desc) in enumerate(msgs):
            if cut is not None and j >= cut:
                break
            if st["dead"]:
                return
            deliver(wire, desc)

    def drop():
        observe(live.cmd("drop"))
        st["up"] = False
        st["rr"] = None
        st["dead"] = False      # a dropped connection is not a terminated session: it reconnects

    logon(True)
    napp = 0
    for inp in script:
        if st["dead"]:
            break
        tick()
        op = inp["op"]
        if op in ("App", "Adm"):
            kind = "app" if op == "App" else "adm"
            if kind == "app":
                napp += 1
            wire, desc = peer.emit(kind, now, napp if kind == "app" else 0)
            sent(kind, desc["seq"], napp if kind == "app" else 0)
            if st["up"]:
                deliver(wire, desc)
        elif op == "Drop":
            if st["up"]:
                drop()
        elif op == "Reconnect":
            if not st["up"]:
                logon(False)
        elif op == "Answer":
            if st["up"] and st["rr"]:
                answer()
        elif op == "AnswerCut":
            if st["up"] and st["rr"]:
                answer(inp["k"])
                if not st["dead"]:
                    drop()
    # drive to quiescence: a conformant counterparty reconnects and answers every request
    for _ in range(4):
        if st["dead"]:
            break
        tick()
        if not st["up"]:
            logon(False)
        elif st["rr"]:
            answer()
        else:
            break
    evs.append({"e": "End", "alive": not st["dead"], "nr": st["nr"], "peer_next": peer.next})
    return evs


def run(ctx):
    r = tlc.check("Recovery.tla", "MC_Recovery_ideal.cfg" if ctx.quick else "MC_Recovery_ideal_thorough.cfg", timeout=1500)
    if not r["ok"]:
        raise core.Infra("ideal recovery design violates %s" % r["violated"])
    ctx.add_model(r, "Recovery.tla", "MC_Recovery_ideal*.cfg", ["NoSeqTermination", "Recovered", "NeverSilentlyBehind"])
    for d in ("incr_always", "logon_gap_throws", "high_outside_continuous_throws"):
        x = tlc.check("Recovery.tla", "MC_Recovery_dev_%s.cfg" % d, workers=8, timeout=600)
        if x["ok"]:
            raise core.Infra("deviation %s violates nothing: invariants vacuous" % d)
        ctx.extra.setdefault("deviation_witnesses", {})[d] = x["violated"]
    r = tlc.check("Recovery.tla", "MC_Recovery_export.cfg" if ctx.quick else "MC_Recovery_export_thorough.cfg", workers=1, timeout=900)
    scripts = tlc.leaves(r["out"])
    if len(scripts) < 300:
        raise core.Infra("history export produced only %d histories" % len(scripts))
    ctx.add_model(r, "Recovery.tla", "MC_Recovery_export*.cfg", ["history export"])
    ctx.tick("model")
    rng = random.Random(ctx.seed + 20)
    if not ctx.quick and len(scripts) > 12000:
        scripts = rng.sample(scripts, 12000)
    jobs = [(s, "mem" if i % 3 else "file", False) for i, s in enumerate(scripts)]
    # the same histories with ignore_logon_sequence_check configured (only those that reconnect differ)
    jobs += [(s, "mem", True) for s in scripts if any(o["op"] == "Reconnect" for o in s)]
    wd = os.path.join(ctx.workdir, "c20")
    os.makedirs(wd, exist_ok=True)
    with open(os.path.join(wd, "ignore.xml"), "w") as fh:
        fh.write(CFGXML)
    nproc = 12
    parts = [list(range(i, len(jobs), nproc)) for i in range(nproc)]

    def worker(pi):
        out = {}
        live = sc.Live("asan" if pi == 0 else "plain", cwd=wd)
        try:
            for j in parts[pi]:
                out[j] = run_script(live, jobs[j][0], jobs[j][1], wd, j, jobs[j][2])
        finally:
            live.close()
        return out
    traces = [None] * len(jobs)
    with ThreadPoolExecutor(max_workers=nproc) as ex:
        for res in ex.map(worker, range(nproc)):
            for j, t in res.items():
                traces[j] = t
    ctx.tick("probe")
    fails, labels, info = tlc.validate_execs("T_Session.tla", "T_Session.cfg", traces, ctx.workdir, "c20", chunks=10)
    ctx.add_validation(info, len(traces))
    sc.note_labels(ctx, labels)
    for (s, p, ig), t in zip(jobs, traces):
        ctx.case([s, p, ig], nontrivial=len(s) > 1)
    seen = set()
    for f in fails:
        if (f["exec"], f["sig"]) in seen:
            continue
        seen.add((f["exec"], f["sig"]))
        ctx.fail(f["sig"], f["why"], {"script": jobs[f["exec"]][0], "persist": jobs[f["exec"]][1], "ignore_logon_sequence_check": jobs[f["exec"]][2], "pos": f["pos"],
                                      "event": f["event"], "trace": [sm_slim(e) for e in traces[f["exec"]]]})
    ctx.tick("validate")
    ctx.exhaustive = ctx.quick
    ctx.rule = ("every history of the TLC-explored recovery design up to the bound (%d scripts over App/Adm/Drop/Reconnect/Answer/"
                "AnswerCut) played reactively against the real session; distinct = distinct scripts x persister" % len(jobs))
    k = len(jobs) // 2
    ctx.sample({"script": jobs[k][0], "trace": [sm_slim(e) for e in traces[k]][:14]})
    ctx.trusted = ["TLC", "probe_session", "the conformant counterparty in lib/session_common.py (Peer)", "lib/fixmsg.py"]
    import shutil
    shutil.rmtree(wd, ignore_errors=True)


def sm_slim(e):
    import session_model
    return session_model.slim(e) if "out" in e else e
