"""C15 Socket reader frames the byte stream exactly (spec/Framing.tla, SessionMon.tla C15Step)."""
import random

import core
import fixmsg as F
import session_common as sc
import tlc

PROBES = [("probe_session", "asan", None, ["utest"])]

MANIFEST = dict(
    text="TLC checks on Framing.tla (the reads FIXReader::read issues: preamble, length digits one by one, body, checksum; "
         "bytes arriving in arbitrary chunks; sockRead blocking until its count is there) that delivery is independent of "
         "the chunking and that a corrupt preamble stops the reader without delivering anything from that point on, and that "
         "a reader taking short reads violates it; it exports every split of a two-message stream into at most three chunks. "
         "The real FIXReader thread of a real Connection is fed real messages over a socketpair in those chunkings (mapped "
         "onto the real field boundaries), at every single byte position, and with every preamble corruption of the "
         "statement; what the thread hands to Session::process is recorded (byte length and hash) and judged by the TLA+ "
         "monitor; the run is under ASan/UBSan.",
    note="Between chunks the driver waits until the session's socket has no unread bytes, so every chunk boundary really is a "
         "separate arrival. 'Reader stops' = session state terminated.",
    tech="TLA+ reader/chunking spec + TLC; exported chunkings and enumerated corruptions fed to the real reader thread; TLC trace validation; ASan",
    ref="5.5, 6 C15")

KINDS = ["beginstring", "first_field", "len_nondigit_first", "len_nondigit_later", "len_zero", "len_too_big", "len_wraps_u32",
         "len_wraps_u64", "len_wraps_u128", "len_many_digits", "no_equals"]


def h31(b):
    h = 2166136261
    for c in b:
        h = ((h ^ c) * 16777619) & 0xffffffff
    return h & 0x7fffffff


def corrupt(wire, kind):
    """Return the message with a corrupt preamble of `kind` (everything after the preamble untouched)."""
    s = wire.decode("latin-1")
    i9 = s.index("\x019=") + 1
    e9 = s.index("\x01", i9)
    ln = s[i9 + 2:e9]
    if kind == "beginstring":
        return s.replace("8=FIX.4.2", "8=FIX.4.9", 1).encode("latin-1")
    if kind == "first_field":
        return ("7" + s[1:]).encode("latin-1")
    rep = {"len_nondigit_first": "x" + ln[1:] if len(ln) > 1 else "x", "len_nondigit_later": ln[0] + "x" + ln[2:] if len(ln) > 2 else ln + "x",
           "len_zero": "0", "len_too_big": "9000", "len_wraps_u32": str(4294967296 + int(ln)), "len_wraps_u64": str(2 ** 64 + int(ln)),
           "len_wraps_u128": str(2 ** 128 + int(ln)), "len_many_digits": "1" * 2100}
    if kind in rep:
        return (s[:i9 + 2] + rep[kind] + s[e9:]).encode("latin-1")
    if kind == "no_equals":
        return (s[:i9] + "9" * 8200).encode("latin-1")
    raise KeyError(kind)


def regions(wire):
    """Real offsets of the structural boundaries of one message: end of preamble (bg_sz), end of length field, end of body."""
    s = wire.decode("latin-1")
    i9 = s.index("\x019=") + 1
    pre = i9 + 3                       # "9=" + first digit
    e9 = s.index("\x01", i9) + 1
    body_end = s.rindex("\x0110=") + 1
    return [0, pre, e9, body_end, len(s)]


def map_cuts(cuts, wires, absizes, P=3, C=2):
    """Map chunk sizes over the abstract stream (Framing.tla layout) onto the real byte stream, region by region."""
    # abstract boundaries per message
    out = []
    pos = 0
    real = b"".join(wires)
    rbounds, abounds = [], []
    ro = ao = 0
    for w, (ln, dg) in zip(wires, absizes):
        r = regions(w)
        a = [0, P, P + dg, P + dg + ln, P + dg + ln + C]
        rbounds += [ro + x for x in r[:-1]]
        abounds += [ao + x for x in a[:-1]]
        ro += r[-1]
        ao += a[-1]
    rbounds.append(ro)
    abounds.append(ao)

    def conv(x):
        for k in range(len(abounds) - 1):
            if abounds[k] <= x <= abounds[k + 1]:
                span_a = abounds[k + 1] - abounds[k]
                span_r = rbounds[k + 1] - rbounds[k]
                return rbounds[k] + (0 if span_a == 0 else round((x - abounds[k]) * span_r / span_a))
        return rbounds[-1]
    acc = 0
    pts = []
    for c in cuts:
        acc += c
        pts.append(conv(acc))
    sizes, prev = [], 0
    for p in pts:
        if p > prev:
            sizes.append(p - prev)
            prev = p
    if prev < len(real):
        sizes.append(len(real) - prev)
    return sizes


def run(ctx):
    for cfg in ("MC_Framing.cfg", "MC_Framing_v3.cfg", "MC_Framing_corrupt.cfg", "MC_Framing_corrupt2.cfg"):
        r = tlc.check("MC_Framing.tla", cfg, workers=8, timeout=600)
        if not r["ok"]:
            raise core.Infra("framing design violates %s (%s)" % (r["violated"], cfg))
        ctx.add_model(r, "Framing.tla", cfg, ["PrefixOK", "Complete"])
    d = tlc.check("MC_Framing.tla", "MC_Framing_dev.cfg", workers=8, timeout=300)
    if d["ok"]:
        raise core.Infra("short-read deviation violates nothing: invariants vacuous")
    ctx.extra["deviation_witnesses"] = {"short_read": d["violated"]}
    r = tlc.check("MC_Framing.tla", "MC_Framing_export.cfg", workers=1, timeout=300)
    cutsets = tlc.leaves(r["out"])
    if len(cutsets) < 100:
        raise core.Infra("chunking export produced only %d patterns" % len(cutsets))
    ctx.add_model(r, "Framing.tla", "MC_Framing_export.cfg", ["chunking export"])
    ctx.tick("model")
    rng = random.Random(ctx.seed + 15)
    now = sc.T0

    def mk(i, big=False, binary=False):
        if binary:
            # a valid message whose length-prefixed data field carries octets that mean something to text handling:
            # NUL, the field separator, '=' and look-alikes of the framing fields
            raw = rng.choice(["ab\x00\x00cd", "\x00", "x\x01y\x00z", "\x00" * 40, "8=FIX.4.2\x019=5\x00", "q=\x00=\x01\x00r" * 3])
            return F.compose("A", i, "ACC", "INI", F.ts(now), [(98, 0), (108, 30), (95, len(raw)), (96, raw)])
        body = F.new_order("p%d" % i)
        if big:
            body = body + [(58, "x" * rng.randint(300, 1500))]
        return F.compose("D", i, "ACC", "INI", F.ts(now), body)
    jobs = []      # (wires, firstbad, kind, chunk sizes)
    w2 = [mk(1), mk(2)]
    total = len(w2[0]) + len(w2[1])
    # every single split position of the two-message stream
    step = 1 if not ctx.quick else 3
    for p in range(1, total, step):
        jobs.append((w2, 0, "", [p, total - p]))
    # TLC's chunkings (<= 3 chunks) mapped onto the real boundaries
    for cuts in cutsets:
        jobs.append((w2, 0, "", map_cuts(cuts, w2, [(3, 0), (12, 1)])))
    # longer streams, random chunkings incl. byte-by-byte
    for k in range(40 if ctx.quick else 600):
        ws = [mk(i + 1, big=rng.random() < 0.3, binary=rng.random() < 0.3) for i in range(rng.randint(1, 5))]
        tot = sum(len(x) for x in ws)
        mode = rng.random()
        if mode < 0.15:
            sizes = [1] * tot
        else:
            sizes = []
            left = tot
            while left:
                c = min(left, rng.choice([1, 2, 3, 7, 13, 14, 15, 50, 200, 5000]))
                sizes.append(c)
                left -= c
        jobs.append((ws, 0, "", sizes))
    # preamble corruptions at every message position, a few chunkings each
    for kind in KINDS:
        for badpos in (1, 2, 3):
            for rep in range(2 if ctx.quick else 8):
                ws = [mk(i + 1) for i in range(3)]
                ws[badpos - 1] = corrupt(ws[badpos - 1], kind)
                tot = sum(len(x) for x in ws)
                if rep == 0:
                    sizes = [tot]
                else:
                    sizes, left = [], tot
                    while left:
                        c = min(left, rng.choice([1, 5, 13, 14, 40, 1000]))
                        sizes.append(c)
                        left -= c
                jobs.append((ws, badpos, kind, sizes))
    execs = []
    for ws, firstbad, kind, sizes in jobs:
        ex = sc.Exec("C15", role="ini", persist="none", flags={"record": True})
        ex.start()
        data = b"".join(ws)
        off = 0
        for c in sizes:
            ex.cmds.append("feed " + data[off:off + c].hex())
            off += c
        ex.cmds.append("frames %d %d" % (len(ws) if not firstbad else firstbad - 1, 1 if firstbad else 0))
        ex.abstract = [("stream", tuple(len(w) for w in ws), firstbad, kind, tuple(sizes) if len(sizes) < 40 else (len(sizes), "chunks"))]
        ex.meta = {"sent": [{"len": len(w), "h": h31(w)} for w in ws], "firstbad": firstbad, "kind": kind or "none"}
        execs.append(ex)
    traces, aborts = run_frames(ctx, execs)
    ctx.tick("probe")
    fails, labels, info = tlc.validate_execs("T_Session.tla", "T_Session.cfg", [t for t in traces if t], ctx.workdir, "c15", chunks=8)
    ctx.add_validation(info, len(traces))
    idx = [i for i, t in enumerate(traces) if t]
    for i in idx:
        ctx.case(execs[i].abstract, nontrivial=True)
    seen = set()
    for f in fails:
        gi = idx[f["exec"]]
        if (gi, f["sig"]) in seen:
            continue
        seen.add((gi, f["sig"]))
        ctx.fail(f["sig"], f["why"], {"abstract": execs[gi].abstract, "event": f["event"], "commands_head": execs[gi].cmds[:6]})
    for gi, rc, err in aborts:
        k = execs[gi].meta["kind"] if gi is not None else "?"
        ctx.fail("C15:memerr:%s" % k, "sanitizer report / crash in the reader", {"stderr": err[:5000], "abstract": execs[gi].abstract if gi is not None else None})
    ctx.tick("validate")
    ctx.rule = ("two-message stream split at %s byte position, %d TLC chunkings mapped onto real field boundaries, seeded longer streams "
                "(1-5 messages, some with NUL / separator octets inside a length-prefixed data field, byte-by-byte to 5000-byte chunks), %d preamble corruption kinds x position x chunking; distinct = "
                "distinct (stream, corruption, chunking)" % ("every" if not ctx.quick else "every third", len(cutsets), len(KINDS)))
    ctx.sample({"stream_lengths": [len(w) for w in w2], "chunks": jobs[len(jobs) // 3][3][:10], "delivered": traces[len(jobs) // 3][-1]["delivered"] if traces[len(jobs) // 3] else None})
    ctx.trusted = ["TLC", "probe_session record mode (Session::process overridden to record what the real reader thread delivers)",
                   "socketpair delivery + FIONREAD wait between chunks", "ASan/UBSan"]


def run_frames(ctx, execs):
    """Like sc.run_execs, but the only judged event is Frames (enriched with what the driver sent)."""
    import os, shutil
    from concurrent.futures import ThreadPoolExecutor
    import build
    binary = sc.probe_binary("asan")
    env = build.run_env("asan")
    wd = os.path.join(ctx.workdir, "c15")
    shutil.rmtree(wd, ignore_errors=True)
    os.makedirs(wd)
    nproc = 12
    parts = [list(range(i, len(execs), nproc)) for i in range(nproc)]

    def one(pi):
        res = {}
        todo = list(parts[pi])
        aborts = []
        while todo:
            lines = []
            for j in todo:
                lines += execs[j].header("%s/s%d" % (wd, j)) + execs[j].cmds
            lines.append("quit")
            evs, rc, err = core.run_probe(binary, "\n".join(lines) + "\n", env, timeout=900, cwd=wd)
            k = -1
            for ev in evs:
                if ev["e"] == "Reset":
                    k += 1
                elif ev["e"] == "Frames":
                    j = todo[k]
                    res[j] = [{"e": "Reset", "cfg": execs[j].cfg},
                              dict(execs[j].meta, e="Frames", delivered=ev["delivered"], st=ev["st"], unread=ev["unread"])]
            if rc != 0:
                # the execution in progress aborted: record it and continue behind it
                bad = todo[k] if k >= 0 else todo[0]
                aborts.append((bad, rc, core.san_report(err)))
                todo = todo[todo.index(bad) + 1:]
            else:
                todo = []
        return res, aborts
    traces = [None] * len(execs)
    aborts = []
    with ThreadPoolExecutor(max_workers=nproc) as ex:
        for res, ab in ex.map(one, range(nproc)):
            for j, t in res.items():
                traces[j] = t
            aborts += ab
    shutil.rmtree(wd, ignore_errors=True)
    return traces, aborts
