"""C18 Resend requests are answered with a complete, faithful replay (Session.tla DoRecvResend, SessionMon.tla C18Step)."""
import itertools
import random

import session_common as sc
import session_model as sm

PROBES = [("probe_session", "asan", None, ["utest"]), ("probe_session", "plain", None, ["utest"])]

MANIFEST = dict(
    text="TLC checks on the session design (a transcription of Persister::get + Session::retrans_callback) that the C18 "
         "monitor accepts the ideal replay for every store / request range in the bound and rejects the deviation "
         "gapfill_seq_is_next_send, and exports the transition cover. Each history, plus an enumeration of stores (every "
         "subset of sent numbers stored, by mixing admin and application sends) x ranges [B,E] incl. E=0, B>last, E>last, "
         "with and without persister, with the request numbered in sequence or ahead of it, is executed on the real Session; the monitor walks the answer on the wire "
         "(retransmissions with PossDup, original id and OrigSendingTime; GapFills with MsgSeqNum = gap start and NewSeqNo "
         "= next stored; coverage of the range; next send number = last NewSeqNo).",
    note="Body fidelity is judged through the application id (ClOrdID) carried by each message; a final GapFill may extend "
         "beyond an explicit EndSeqNo (DESIGN.md Appendix B). Default session options (always_seqnum_assign off).",
    tech="TLA+ transcription of the replay algorithm + TLC; enumerated stores/ranges replayed on the real Session; TLC trace validation of the wire",
    ref="5.6, 6 C18")


def extras(ctx):
    """Stores = every pattern of application (stored) / admin (not stored) sends of length <= 5 after the Logon
    (number 1); ranges around every boundary."""
    out = []
    rng = random.Random(ctx.seed + 18)
    maxlen = 4 if ctx.quick else 6
    pats = [p for n in range(0, maxlen + 1) for p in itertools.product("AH", repeat=n)]
    for pat in pats:
        last = 1 + len(pat)
        ranges = [(b, e) for b in range(1, last + 3) for e in [0] + list(range(b, last + 3))]
        if ctx.quick:
            ranges = rng.sample(ranges, min(len(ranges), 6))
        for (b, e) in ranges:
            for persist in (("file",) if ctx.quick or len(pat) > 4 else ("file", "none")):
                ex = sc.Exec("C18", role="ini", persist=persist)
                ex.start()
                ex.logon_exchange()
                nid = 1
                for j, c in enumerate(pat):
                    ex.at(10 * (j + 1))           # distinct sending times so OrigSendingTime is checkable
                    if c == "A":
                        ex.send(nid); nid += 1
                    else:
                        ex.admin("heartbeat")
                ex.at(100)
                # the request's own number: in sequence, or (every third case) one or two ahead - both sides lost messages
                k = len(out) % 3
                ahead = (1 + len(out) % 2) if k == 2 else 0
                ex.recv("2", seq=ex.peer_seq + ahead if ahead else None, body=[(7, b), (16, e)])
                ex.send(nid)                       # a new message afterwards must continue from the last NewSeqNo (C16 clause)
                out.append(ex)
    return out


def run(ctx):
    hists, execs, traces = sm.run_property(ctx, "C18", ["gapfill_seq_is_next_send"], extras(ctx), limit_quick=1500)
    ctx.rule = ("transition cover of the session design (%d histories) + every stored/not-stored pattern of up to %d sends x request "
                "ranges, replayed on the real session; distinct = distinct call sequences" % (len(hists), 4 if ctx.quick else 6))


def replay(ctx, doc):
    sc.replay_case(ctx, doc)
