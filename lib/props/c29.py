"""C29 Log and store rotation keeps generations and stays in bounds
(DESIGN.md 5.8, 6; spec/Rotation.tla, MC_Rotation.tla, T_Rotation.tla; harness/src/probe_rotate.cpp)."""
import os
import random

import core
import logger_common as lc
import tlc

PROBES = [lc.rotate_probe]

MANIFEST = dict(
    text='TLC proves on the TLA+ transcription of the rotation algorithm (bookkeeping list of min(rotnum, 1024)+1 names, rename loop, rename of a missing file ignored) that generations shift (name.k holds what name.(k-1) held), at most the capped number is kept, bystander files are never touched, for every rotation count and every pre-existing generation set within the small bound (one family for logs, two for stores), and that every list index stays in bounds for all counts 0..1100 with the real cap (bookkeeping abstracted to its length); the named deviation loop_from_rotnum violates the index bound. TLC then enumerates boundary counts x pre-existing generation sets around the cap; each scenario is performed by the real FileLogger (constructor, rotate(), rotate(true), append mode) and FilePersister::initialise(purge) in a scratch directory under ASan/UBSan and libstdc++ assertions, and TLC validates every recorded before/after directory against the C29 monitor.',
    note='Trusts TLC, the probe (lists a directory before/after), the file-name -> (family, generation) mapping in lib/logger_common.py, ASan/UBSan and _GLIBCXX_ASSERTIONS for accesses outside the bookkeeping vector. Compressed logs (.gz suffix) are not exercised.',
    tech='TLA+ algorithm spec + TLC exhaustive check; TLC-enumerated scenarios replayed on the real code; TLC trace validation',
    ref='5.8, 6 C29')

QUICK_COUNTS = [0, 1, 2, 5, 1023, 1024, 1025, 1100]
BYSTANDERS = ["name.x", "name.1.bak", "name1", "aname", "store.x", "store.idx.1", "store.1.idx.bak", "unrelated"]


def files_for(kind, gens, idx_gens, ids):
    """name=content tokens for the pre-existing generations and the bystanders."""
    toks = []
    fams = [("log", gens)] if kind == "log" else [("db", gens), ("idx", idx_gens)]
    for fam, gs in fams:
        for g in gs:
            ids[0] += 1
            toks.append("%s=%d" % (lc.gen_name(kind, fam, g), ids[0]))
    for b in BYSTANDERS:
        ids[0] += 1
        toks.append("%s=%d" % (b, ids[0]))
    return toks


def scenarios(ctx, leaves, rng):
    """Probe commands.  Logs: every TLC scenario as a fresh non-append logger (constructor rotates); a seeded
    third of them also in append mode and with further rotate()/rotate(true) calls.  Stores: every TLC
    scenario with purge (data and index generations the same set), seeded ones with differing index sets
    and without purge."""
    cmds = []
    ids = [10]
    for i, sc in enumerate(leaves):
        rot, gens = sc["rotnum"], sc["gens"]
        cmds.append("log %d %d 0 c %s" % (len(cmds), rot, " ".join(files_for("log", gens, None, ids))))
        r = rng.random()
        if r < 0.15:
            cmds.append("log %d %d 1 c %s" % (len(cmds), rot, " ".join(files_for("log", gens, None, ids))))
        elif r < 0.30:
            cmds.append("log %d %d 1 cfrf %s" % (len(cmds), rot, " ".join(files_for("log", gens, None, ids))))
        elif r < 0.40:
            cmds.append("log %d %d 0 crf %s" % (len(cmds), rot, " ".join(files_for("log", gens, None, ids))))
        cmds.append("store %d %d 1 %s" % (len(cmds), rot, " ".join(files_for("store", gens, gens, ids))))
        r = rng.random()
        if r < 0.2:
            ig = [g for g in gens if rng.random() < 0.7]
            cmds.append("store %d %d 1 %s" % (len(cmds), rot, " ".join(files_for("store", gens, ig, ids))))
        elif r < 0.3:
            cmds.append("store %d %d 0 %s" % (len(cmds), rot, " ".join(files_for("store", gens, gens, ids))))
    return cmds


def run(ctx):
    inv = ["IndexInBounds", "ShiftOK", "NoInventionOK", "CapOK", "UntouchedOK", "ZeroMeansNone"]
    # 1. the algorithm: small cap, all counts and generation sets; real cap, all counts 0..1100
    for mod, cfg, props in (("MC_Rotation.tla", "MC_Rotation_small1.cfg", inv), ("MC_Rotation.tla", "MC_Rotation_small2.cfg", inv),
                            ("MC_Rotation_bounds.tla", "MC_Rotation_bounds.cfg", ["IndexInBounds for counts 0..1100", "UntouchedOK"])):
        r = tlc.check(mod, cfg, workers=8, timeout=1500)
        if not r["ok"]:
            raise core.Infra("rotation design violates %s (%s): the model is wrong" % (r["violated"], cfg))
        ctx.add_model(r, mod, cfg, props)
    for mod, cfg, want in (("MC_Rotation.tla", "MC_Rotation_smalldev.cfg", "IndexInBounds"),
                           ("MC_Rotation_bounds.tla", "MC_Rotation_boundsdev.cfg", "IndexInBounds"),
                           ("MC_Rotation.tla", "MC_Rotation_reach.cfg", "Reach_ShiftIntoCap")):
        r = tlc.check(mod, cfg, workers=4, timeout=600)
        if r["ok"] or r["violated"] != want:
            raise core.Infra("%s should violate %s but gave %s: invariants are vacuous" % (cfg, want, r["violated"]))
        ctx.extra.setdefault("deviation_witnesses", {})[cfg] = r["violated"]
    # 2. scenarios chosen by TLC: boundary counts x generation sets around the cap (each also model-checked)
    r = tlc.check("MC_Rotation.tla", "MC_Rotation_export.cfg", workers=8, timeout=1500)
    if not r["ok"]:
        raise core.Infra("export run violates %s" % r["violated"])
    ctx.add_model(r, "MC_Rotation.tla", "MC_Rotation_export.cfg", inv + ["scenario export"])
    leaves = sorted(tlc.leaves(r["out"]), key=lambda x: (x["rotnum"], x["gens"]))
    if len(leaves) < 500:
        raise core.Infra("scenario export produced only %d scenarios" % len(leaves))
    ctx.tick("model")
    rng = random.Random(ctx.seed)
    nleaves = len(leaves)
    if ctx.quick:
        # every count with every set of the low generations, a seeded half of the rest
        leaves = [s for s in leaves if all(g < 1000 for g in s["gens"]) or rng.random() < 0.5]
    else:
        # thorough: every count 0..1100 with seeded generation sets around its own cap
        for rot in range(0, 1101):
            cap = min(rot, 1024)
            for _ in range(2):
                cand = sorted(set([0, 1, 2, max(cap - 1, 0), cap, cap + 1, rot, rot + 1, rng.randint(0, 1101)]))
                leaves.append({"rotnum": rot, "gens": [g for g in cand if rng.random() < 0.6]})
    cmds = scenarios(ctx, leaves, rng)
    ctx.exhaustive = True
    execs, reports = lc.run_rotate(ctx, cmds, "c29")
    ctx.tick("probe")
    done = [(i, e) for i, e in enumerate(execs) if e is not None]
    fails, labels, info = tlc.validate_execs("T_Rotation.tla", "T_Rotation.cfg", [e for _, e in done], ctx.workdir, "c29", chunks=8)
    ctx.add_validation(info, len(done))
    for i, e in done:
        for x in e[1:]:
            abstract = (x["kind"], x["rotnum"], x["append"], x["force"], x["purge"], x["crashed"],
                        sorted((y["f"], y["g"]) for y in x["before"]), sorted((y["f"], y["g"]) for y in x["after"]))
            ctx.case(abstract, nontrivial=x["rotnum"] > 0)
    ctx.extra["design_labels"] = labels
    rep = {i: (rc, err) for i, rc, err in reports}
    seen = set()
    for f in fails:
        gi = done[f["exec"]][0]
        if (gi, f["sig"]) in seen:
            continue
        seen.add((gi, f["sig"]))
        case = {"command": cmds[gi][:400], "pos": f["pos"], "event": f["event"]}
        if gi in rep:
            case["exit"], case["stderr"] = rep[gi]
        ctx.fail(f["sig"], f["why"], case)
    ctx.tick("validate")
    ctx.rule = ("TLC enumerates counts %s x every subset of the generations {0,1,2,3,1023,1024,1025} (%d scenarios, each also "
                "model-checked with the real cap); %d of them%s are performed on the real FileLogger (fresh, append mode, "
                "rotate(), rotate(true)) and FilePersister::initialise (purge / no purge, equal and differing index sets) with 8 "
                "bystander files: %d probe scenarios; distinct = distinct (kind, count, mode, generations before, generations after)"
                % (QUICK_COUNTS, nleaves, min(len(leaves), nleaves), "" if ctx.quick else " plus two seeded generation sets for every count 0..1100",
                   len(cmds)))
    mid = len(cmds) // 2
    ctx.sample({"command": cmds[mid][:300], "trace": execs[mid]})
    ctx.sample({"command": cmds[-1][:300], "trace": execs[-1]})
    if os.environ.get("VERIF_SELFTEST") == "1" or not ctx.quick:
        selftest(ctx)
        ctx.extra["selftest"] = "a corrupted record of a good execution is rejected by the monitor"
    ctx.trusted = ["TLC", "probe_rotate (creates the files, lists the directory before and after)",
                   "file name -> (family, generation) mapping in lib/logger_common.py",
                   "ASan/UBSan and libstdc++ _GLIBCXX_ASSERTIONS for accesses outside the bookkeeping vector"]
    ctx.assumptions = ["contents are identified by a decimal id written into each pre-existing file",
                       "the documented maximum is Logger::max_rotation = 1024",
                       "where name.(k-1) did not exist, name.k may be removed or left as it was (the statement leaves room)"]


def selftest(ctx):
    """Binding self-test: swap two generations in a recorded 'after' listing; the monitor must reject."""
    import copy
    cmds = ["log 0 3 0 c name=11 name.1=12 name.2=13 other=14"]
    execs, _ = lc.run_rotate(ctx, cmds, "c29self", nproc=1)
    bad = copy.deepcopy(execs[0])
    for y in bad[1]["after"]:
        if y["f"] == "log" and y["g"] == 2:
            y["c"] = 13
    fails, _, _ = tlc.validate_execs("T_Rotation.tla", "T_Rotation.cfg", [bad], ctx.workdir, "c29self", chunks=1)
    if not any(f["why"] == "shift" for f in fails):
        raise core.Infra("self-test: a generation that was not shifted was not rejected")
