"""C22 Heartbeat and test-request supervision (spec/Heartbeat.tla, SessionMon.tla C22Step)."""
import random

import core
import session_common as sc
import session_model as sm
import tlc

PROBES = [("probe_session", "asan", None, ["utest"]), ("probe_session", "plain", None, ["utest"])]

MANIFEST = dict(
    text="TLC explores the supervision design (Heartbeat.tla: virtual clock on a one-second grid, supervision ticks "
         "after 1, 2, H-1, H, H+20% and H+20%+1 seconds, inbound Heartbeat / TestRequest, an inbound message above the expected number after which the peer is silent, application sends) for "
         "H in {5, 10}, checks that the C22 monitor accepts every behaviour of the ideal design and rejects the deviations "
         "testreq_grace_is_one_tick and no_testreq_while_resend_outstanding, and exports timelines (H in {5, 10, 30}); each is replayed on the real Session with "
         "the virtual clock (clock_gettime interposed) by calling Session::heartbeat_service at the chosen instants; the "
         "monitor judges Heartbeat when idle >= H, TestRequest after silence > H+20%, Logout only after a second such "
         "period, echo of TestReqID, Heartbeat clearing a pending TestRequest.",
    note="Whole-second grid (Appendix B). The supervision callback is invoked by the driver, not by the timer thread. "
         "'Pending' is cleared only by an inbound Heartbeat (the statement's wording).",
    tech="TLA+ supervision design spec + TLC; timelines replayed on the real Session under a virtual clock; TLC trace validation",
    ref="5.6, 6 C22")


def exec_from_hist(hist, H):
    ex = sc.Exec("C22", role="ini", persist="mem", hb=H)
    ex.start()
    ex.logon_exchange(hb=H)
    t = 0
    nid = 1
    for inp in hist:
        op = inp["op"]
        if op == "Tick":
            t += inp["dt"]
            ex.tick(t)
        elif op == "RecvHb":
            ex.recv("0")
        elif op == "RecvTestReq":
            ex.recv("1", body=[(112, "PING")])
        elif op == "Send":
            ex.send(nid)
            nid += 1
        elif op == "RecvHigh":
            ex.recv("D", seq=ex.peer_seq + 1, ident=50)     # one number is missing: the session asks for it; the peer stays silent
    return ex


def run(ctx):
    sm.check_state_machine(ctx)      # SessionStates.tla: the whole state machine; every recorded call is labelled against it
    for cfg in (("MC_Heartbeat_H5.cfg",) if ctx.quick else ("MC_Heartbeat_H5.cfg", "MC_Heartbeat_H10.cfg")):
        r = tlc.check("Heartbeat.tla", cfg, timeout=1500)
        if not r["ok"]:
            raise core.Infra("ideal supervision design rejected: %s" % r["violated"])
        ctx.add_model(r, "Heartbeat.tla", cfg, ["MonitorAccepts", "NoEarlyLogout"])
    d = tlc.check("Heartbeat.tla", "MC_Heartbeat_dev.cfg", workers=8, timeout=600)
    if d["ok"]:
        raise core.Infra("deviation testreq_grace_is_one_tick not rejected: C22 monitor vacuous")
    d = tlc.check("Heartbeat.tla", "MC_Heartbeat_dev_resend.cfg", workers=8, timeout=600)
    if d["ok"]:
        raise core.Infra("deviation no_testreq_while_resend_outstanding not rejected: C22 monitor vacuous")
    ctx.extra["deviation_witnesses"] = ["testreq_grace_is_one_tick", "no_testreq_while_resend_outstanding"]
    ctx.tick("model")
    rng = random.Random(ctx.seed + 22)
    execs, meta = [], []
    for H in (5, 10, 30):
        r = tlc.check("Heartbeat.tla", "MC_Heartbeat_export_H%d.cfg" % H, workers=1, timeout=900)
        hs = tlc.leaves(r["out"])
        if len(hs) < 1000:
            raise core.Infra("timeline export produced only %d histories" % len(hs))
        ctx.add_model(r, "Heartbeat.tla", "MC_Heartbeat_export_H%d.cfg" % H, ["timeline export"])
        n = 500 if ctx.quick else 6000
        # a third of the sample: timelines in which a sequence gap is met and the peer falls silent afterwards
        gap = [h for h in hs if any(i["op"] == "RecvHigh" for i in h)]
        rest = [h for h in hs if not any(i["op"] == "RecvHigh" for i in h)]
        if len(gap) < 100:
            raise core.Infra("only %d exported timelines contain a sequence gap" % len(gap))
        hs = rng.sample(gap, min(len(gap), n // 3)) + rng.sample(rest, min(len(rest), n - n // 3))
        for h in hs:
            execs.append(exec_from_hist(h, H))
            meta.append((H, h))
    traces, aborts = sc.run_execs(ctx, execs, "c22")
    ctx.tick("probe")
    sc.judge(ctx, execs, traces, aborts, "c22", chunks=8)
    ctx.tick("validate")
    ctx.rule = ("seeded sample (%d) of the TLC-exported supervision timelines for H in {5,10,30}, replayed on the real session "
                "under the virtual clock; distinct = distinct timelines" % len(execs))
    ctx.sample({"H": meta[3][0], "timeline": meta[3][1], "commands": execs[3].cmds[-6:]})
    ctx.trusted = ["TLC", "probe_session + virtual clock seam (clock_gettime interposition)", "lib/fixmsg.py"]
    ctx.assumptions = ["instants on a whole-second grid; supervision callback invoked synchronously"]


def replay(ctx, doc):
    sc.replay_case(ctx, doc)
