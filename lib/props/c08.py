"""C08 Numeric text conversions (DESIGN.md 5.3, 6 C08; spec/Numeric.tla, MC_Numeric.tla, T_Numeric.tla)."""
import math
import os
import random
import re

import core
import num_common as nc
import tlc

PROBES = [nc.PROBE]

MANIFEST = dict(
    text='itoa<int>, fast_atoi<int> and modp_dtoa are transcribed to TLA+ next to their meaning (canonical decimal numeral; exact decimal expansion of a binary fraction by long multiplication, correct rounding with tie detection, the set of texts with at most p fraction digits denoting the rounded value). TLC checks Atoi(Itoa(n)) = n and canonical form over boundary/dense/spread integers, and correct rounding of the modp_dtoa transcription for every x = +-(w + k/4096), k in 0..4095, w around 0, 10^k and INT_MAX, every precision 0..9 (a family on which the floating point product in the code is exact, so the transcription is the code). The real Field<int>/itoa/fast_atoi and Field<double>/modp_dtoa/fast_atof are then run on the exported families, on decimal-literal doubles (the values next to rounding midpoints), on seeded random doubles below 2^31 and on the rendered texts; TLC validates every recorded conversion by recomputing the exact decimal expansion of the double from its 12-bit limbs (trace validation), so the verdict on arbitrary doubles is also taken in TLA+.',
    note='TLA+ does not range over IEEE doubles: the model check is exhaustive only on the 12-bit dyadic family; wider doubles are seeded samples judged exactly by the monitor. Readings: exact ties accept either neighbour; trailing zeros optional; a parse is accepted if it is within half a unit of the last printed decimal place or is the double nearest to the text. The stride sweep of the int32 range against libc is a supplement that only selects inputs for the monitor. Trusts TLC, the probe, Python Fraction for double -> limbs.',
    tech='TLA+ transcription + TLC exhaustive check over bounded families; spec-exported and seeded inputs replayed on the real code under ASan/UBSan; TLC trace validation with exact rational arithmetic',
    ref='5.3, 6 C08')

PER_EXEC = 100
INT_MIN, INT_MAX = -2 ** 31, 2 ** 31 - 1


def split(v):
    lo = v & 0xffff
    return [(v - lo) // 65536, lo]


def canon(n):
    return str(n)


# ---- cases ------------------------------------------------------------------------------------------
def int_cases(rng, exported, nrand):
    vals = [x["hi"] * 65536 + x["lo"] for x in exported if x["kind"] == "int"]
    for _ in range(nrand):
        r = rng.random()
        if r < 0.4:
            vals.append(rng.randint(INT_MIN, INT_MAX))
        elif r < 0.7:
            vals.append(rng.choice([-1, 1]) * rng.randint(0, 10 ** rng.randint(1, 9)))
        else:
            vals.append(max(INT_MIN, min(INT_MAX, rng.choice([-1, 1]) * (2 ** rng.randint(0, 31)) + rng.randint(-3, 3))))
    cases = []
    for v in vals:
        cases.append({"k": "itoa", "v": v})
        cases.append({"k": "atoi", "n": v, "text": canon(v)})
    return cases


def dbl(w, num, den):
    return float(w) + num / den


def float_cases(rng, exported, nlit, nrand):
    cases = []
    for x in exported:
        if x["kind"] != "dy":
            continue
        k = x["limbs"][0] if x["limbs"] else 0
        if x["w"] == INT_MAX and k and not (k % 1024 == 0 and x["p"] in (0, 1, 9) and not x["neg"]):
            continue        # the sliver above INT_MAX is a listed finding: a handful of representatives is enough
        v = dbl(x["w"], k, 4096.0)
        cases.append({"k": "dtoa", "x": -v if x["neg"] else v, "p": x["p"]})
    # decimal literals: what users write; with q = p + 1 digits ending in 5 they sit next to a midpoint
    for _ in range(nlit):
        q = rng.randint(1, 10)
        w = rng.choice([0, 0, rng.randint(0, 9), rng.randint(0, 999), rng.randint(0, 10 ** rng.randint(3, 9)), 2147483646])
        fr = rng.randint(0, 10 ** q - 1)
        if rng.random() < 0.5:
            fr = fr - fr % 10 + 5
        v = float("%d.%0*d" % (w, q, fr))
        p = rng.choice([max(0, q - 1), max(0, q - 1), rng.randint(0, 9)])
        cases.append({"k": "dtoa", "x": v * rng.choice([1, 1, -1]), "p": min(p, 9)})
    special = [0.0, -0.0, 5e-324, 1e-300, 2.0 ** -40, 0.5, 1.5, 2.5, 0.125, 0.375, 0.99, 0.999999999, 0.9999999995,
               9.5, 99.5, 0.05, 0.15, 0.25, 0.95, 1e-9, 5e-10, 4.9e-10, 2147483647.0, 2147483646.5, 2147483646.999999,
               1073741823.5, 1e9, 999999999.9999999]
    for v in special:
        for p in range(10):
            cases.append({"k": "dtoa", "x": v, "p": p})
            if v > 0:
                cases.append({"k": "dtoa", "x": -v, "p": p})
    for _ in range(nrand):
        r = rng.random()
        if r < 0.5:
            e = rng.randint(-34, 30)
            v = math.ldexp(1.0 + rng.random(), e)
        elif r < 0.8:
            v = rng.randint(0, 10 ** rng.randint(0, 9)) + rng.random()
        else:
            # a 53-bit neighbour of a decimal midpoint
            p0 = rng.randint(0, 8)
            base = (rng.randint(0, 10 ** (p0 + 1)) * 10 + 5) / 10 ** (p0 + 2) + rng.randint(0, 10 ** rng.randint(0, 6))
            v = base
            for _ in range(rng.randint(0, 2)):
                v = math.nextafter(v, rng.choice([0.0, 1e12]))
        if v >= 2.0 ** 31:
            continue
        cases.append({"k": "dtoa", "x": v * rng.choice([1, 1, -1]), "p": rng.randint(0, 9)})
    return cases


NUM = re.compile(r"^(-?)(0|[1-9][0-9]*)(?:\.([0-9]{1,9}))?$")


def numeral(text):
    m = NUM.match(text)
    if not m or int(m.group(2)) > 2 ** 31:
        return None
    w = int(m.group(2))
    f = m.group(3) or ""
    return {"neg": m.group(1) == "-", "wh": w // 100000, "wl": w % 100000, "f": int(f) if f else 0, "d": len(f)}


def atof_cases(rng, texts, nrand):
    out = []
    seen = set()
    for t in texts:
        if t not in seen and numeral(t):
            seen.add(t)
            out.append({"k": "atof", "text": t})
    for _ in range(nrand):
        w = rng.choice([0, rng.randint(0, 99), rng.randint(0, 10 ** rng.randint(2, 9)), INT_MAX])
        d = rng.randint(0, 9)
        t = ("-" if rng.random() < 0.3 else "") + str(w) + ("." + "".join(rng.choice("0123456789") for _ in range(d)) if d else "")
        if t not in seen:
            seen.add(t)
            out.append({"k": "atof", "text": t})
    return out


def command(c):
    k = c["k"]
    if k == "itoa":
        return "itoa %d" % c["v"]
    if k == "atoi":
        return "atoi %s" % c["text"].encode().hex()
    if k == "dtoa":
        return "dtoa %s %d" % (nc.bits_of(c["x"]), c["p"])
    if k == "atof":
        return "atof %s" % c["text"].encode().hex()
    if k == "isweep":
        return "isweep %d %d %d" % (c["start"], c["stride"], c["count"])
    raise KeyError(k)


ZERO = {"huge": False, "neg": False, "wh": 0, "wl": 0, "limbs": []}


def parts(x):
    p = nc.double_parts(x)
    return {"huge": False, "neg": p["neg"], "wh": p["w"] // 100000, "wl": p["w"] % 100000, "limbs": p["limbs"]}


def parsed(bits, pre=""):
    """The double returned and its two neighbours in magnitude, exactly."""
    x = nc.from_bits(bits)
    if not math.isfinite(x) or abs(x) >= 2.0 ** 31 + 1:
        return {pre + "r": dict(ZERO, huge=True), pre + "lo": ZERO, pre + "hi": ZERO, pre + "lo8": ZERO, pre + "hi8": ZERO}
    a = abs(x)
    lo = parts(math.nextafter(a, 0.0)) if a else parts(0.0)
    lo8 = hi8 = a
    for _ in range(8):
        lo8 = math.nextafter(lo8, 0.0)
        hi8 = math.nextafter(hi8, math.inf)
    return {pre + "r": parts(x), pre + "lo": lo, pre + "hi": parts(math.nextafter(a, math.inf)), pre + "lo8": parts(lo8), pre + "hi8": parts(hi8)}


def to_event(c, ev):
    k = c["k"]
    ab = bool(ev.get("abort"))
    san = ev.get("san", "") if ab else ""
    if k == "itoa":
        h, lo = split(c["v"])
        return {"e": "Itoa", "hi": h, "lo": lo, "text": "" if ab else ev["text"], "text2": "" if ab else ev["text2"], "abort": ab, "san": san}
    if k == "atoi":
        h, lo = split(c["n"])
        e = {"e": "Atoi", "text": c["text"], "nhi": h, "nlo": lo, "abort": ab, "san": san}
        for i, (a, b) in enumerate((("hi", "lo"), ("hi2", "lo2"), ("hi3", "lo3"))):
            e["r%d" % (i + 1)] = [0, 0] if ab else [ev[a], ev[b]]
        return e
    if k == "dtoa":
        return {"e": "Dtoa", "x": nc.double_parts(c["x"]), "p": c["p"], "text": "" if ab else ev["text"],
                "text2": "" if ab else ev["text2"], "abort": ab, "san": san}
    if k == "atof":
        e = {"e": "Atof", "text": c["text"], "t": numeral(c["text"]), "abort": ab, "san": san}
        if ab:
            e.update(r=ZERO, lo=ZERO, hi=ZERO, lo8=ZERO, hi8=ZERO, r2=ZERO, lo2=ZERO, hi2=ZERO, lo82=ZERO, hi82=ZERO)
        else:
            for k, v in parsed(ev["bits"]).items():
                e[k] = v
            for k, v in parsed(ev["bits2"]).items():
                e[k + "2"] = v
        return e
    raise KeyError(k)


def run_and_judge(ctx, cases, name):
    evs = nc.run_commands(ctx, [command(c) for c in cases])
    keep = [(c, e) for c, e in zip(cases, evs) if not e.get("skipped")]
    cases = [c for c, _ in keep]
    evs = [e for _, e in keep]
    mon = [to_event(c, e) for c, e in zip(cases, evs)]
    execs = [[{"e": "Reset"}] + mon[i:i + PER_EXEC] for i in range(0, len(mon), PER_EXEC)]
    fails = nc.judge(ctx, "T_Numeric", execs, name, chunks=8)
    for c, m in zip(cases, mon):
        ctx.case(m, nontrivial=True)
    per_sig = {}
    for f in fails:
        gi = f["exec"] * PER_EXEC + f["pos"] - 1
        if f["sig"].startswith("driver:"):
            raise core.Infra("driver built an inconsistent event: %s" % mon[gi])
        per_sig[f["sig"]] = per_sig.get(f["sig"], 0) + 1
        if per_sig[f["sig"]] > 3:
            continue
        c = dict(cases[gi])
        if "x" in c:
            c["x"] = repr(c["x"])
            c["bits"] = nc.bits_of(cases[gi]["x"])
        case = {"call": c, "command": command(cases[gi]), "observed": {k: v for k, v in evs[gi].items() if k != "stderr"},
                "monitor_event": mon[gi]}
        if evs[gi].get("abort"):
            case["sanitizer_report"] = evs[gi].get("stderr", "")
        ctx.fail(f["sig"], f["why"], case)
    ctx.extra.setdefault("rejections_by_signature", {}).update(per_sig)
    return cases, evs, mon


def run(ctx):
    if os.environ.get("VERIF_SELFTEST") == "1" or not ctx.quick:
        selftest(ctx)           # binding self-test: a corrupted recorded field must be rejected
        ctx.extra["selftest"] = "corrupted field rejected"
    q = ctx.quick
    runs = [("MC_Numeric.tla", "MC_Numeric_int.cfg", None, ["ItoaCanonical", "AtoiInverse", "input export"]),
            ("MC_Numeric.tla", "MC_Numeric_dyadic.cfg" if q else "MC_Numeric_dyadic_thorough.cfg", None, ["DtoaCorrect", "MeaningSane", "input export"]),
            ("MC_Numeric.tla", "MC_Numeric_dyadic_code.cfg", None, ["DtoaCorrect (transcription with the code's deviations, values <= INT_MAX)"]),
            ("MC_Numeric.tla", "MC_Numeric_int_nosign.cfg", "AtoiInverse", []),
            ("MC_Numeric.tla", "MC_Numeric_dyadic_dev.cfg", "DtoaCorrect", []),
            ("MC_Numeric.tla", "MC_Numeric_witness_tie.cfg", "NoTieSeen", []),
            ("MC_Numeric.tla", "MC_Numeric_witness_roll.cfg", "NoRollover", [])]
    res = nc.model_runs(ctx, runs)
    ctx.exhaustive = True
    ctx.tick("model")
    exported = tlc.leaves(res[0]["out"]) + tlc.leaves(res[1]["out"])
    if sum(1 for x in exported if x["kind"] == "int") < 5000 or sum(1 for x in exported if x["kind"] == "dy") < 2000:
        raise core.Infra("input export produced only %d cases" % len(exported))
    rng = random.Random(ctx.seed)
    cases = int_cases(rng, exported, 1500 if q else 150000)
    cases += float_cases(rng, exported, 3000 if q else 150000, 2500 if q else 150000)
    # supplement: stride sweep of the int32 range against libc inside the probe (selects inputs only)
    stride = 4099 if q else 257
    total = (2 ** 32 + stride - 1) // stride
    pieces = 8
    sweeps = [{"k": "isweep", "start": INT_MIN + (ctx.seed % stride) + (i * (total // pieces)) * stride, "stride": stride,
               "count": total // pieces + (stride if i == pieces - 1 else 0)} for i in range(pieces)]
    sw = nc.run_commands(ctx, [command(c) for c in sweeps], nproc=8)
    selected = []
    swept = 0
    for c, e in zip(sweeps, sw):
        if e.get("abort"):
            selected.append(int(e.get("aux") or 0))
        elif not e.get("skipped"):
            swept += e["count"]
            selected += e["bad"]
    for v in selected:
        cases.append({"k": "itoa", "v": v})
        cases.append({"k": "atoi", "n": v, "text": canon(v)})
    ctx.extra["supplement_int32_stride_sweep"] = {"note": "itoa/fast_atoi against libc inside the probe; selects inputs for the monitor, decides nothing",
                                                  "stride": stride, "values": swept, "selected_for_monitor": selected[:20]}
    cases, evs, mon = run_and_judge(ctx, cases, "c08a")
    ctx.tick("probe+validate 1")
    # the parsing clause on the texts the code itself rendered, and on seeded numerals
    texts = [e["text"] for e in evs if e.get("e") == "Dtoa"] + [e["text"] for e in evs if e.get("e") == "Itoa"][:1000]
    if q:
        texts = rng.sample(texts, min(len(texts), 5000))
    acases = atof_cases(rng, texts, 1500 if q else 50000)
    if not q and len(acases) > 200000:
        acases = acases[:200000]
    c2, e2, m2 = run_and_judge(ctx, acases, "c08b")
    ctx.tick("probe+validate 2")
    nd = sum(1 for c in cases if c["k"] == "dtoa")
    ctx.rule = ("integers: the %d values TLC enumerated (boundaries, -1100..1100, spread) and seeded random int32, each rendered by "
                "Field<int>::print and itoa and its canonical text parsed by Field<int>, fast_atoi and set_from_raw; doubles: the "
                "exported 12-bit dyadic family, decimal literals next to rounding midpoints, special values and seeded random doubles "
                "below 2^31 (%d renderings at precisions 0..9), and %d numerals parsed by Field<double> and fast_atof; one evaluation = "
                "one conversion judged by T_Numeric" % (sum(1 for x in exported if x["kind"] == "int"), nd, len(c2)))
    picks = [next(i for i, c in enumerate(cases) if c["k"] == "itoa" and c["v"] == INT_MIN),
             next(i for i, c in enumerate(cases) if c["k"] == "dtoa" and c["p"] == 3 and c["x"] not in (0.0,)),
             len(cases) - 1]
    for i in picks:
        ctx.sample({"command": command(cases[i]), "monitor_event": mon[i]})
    ctx.trusted = ["TLC", "probe_num (moves data only)", "Python fractions.Fraction for the exact value of a double (12-bit limbs)",
                   "regular expression splitting a numeral into sign / whole / fraction (re-checked by the monitor: DecText(t) = text)", "math.nextafter for the doubles next to a parsed value",
                   "UBSan/ASan for undefined behaviour inside the conversions"]
    ctx.assumptions = ["TLA+ cannot range over IEEE doubles: exhaustive only on x = +-(w + k/4096); other doubles are samples judged exactly",
                       "exact decimal ties: either neighbour accepted; trailing zeros optional; zero may carry a sign",
                       "parse clause: accepted if within half a unit of the last printed decimal place of the text, or if no neighbouring double is closer to the text (whichever grid is coarser decides)",
                       "non-finite values and magnitudes >= 2^31 are outside the property"]
    nc.guard_truncation(ctx)


def selftest(ctx):
    """Corrupt one rendered digit and one parsed value; the monitor must reject exactly those."""
    cases = [{"k": "dtoa", "x": 12.3456, "p": 3}, {"k": "itoa", "v": -77}, {"k": "atof", "text": "12.346"}]
    evs = nc.run_commands(ctx, [command(c) for c in cases])
    mon = [to_event(c, e) for c, e in zip(cases, evs)]
    good = nc.judge(ctx, "T_Numeric", [[{"e": "Reset"}] + mon], "c08self")
    mon[0] = dict(mon[0], text="12.345")
    mon[2] = dict(mon[2], **parsed(nc.bits_of(12.3466)))
    bad = nc.judge(ctx, "T_Numeric", [[{"e": "Reset"}] + mon], "c08self")
    if good or sorted(f["pos"] for f in bad) != [1, 3]:
        raise core.Infra("C08 self-test: monitor did not single out the corrupted conversions (%s / %s)" % (good, bad))
    return True
