"""C28 Loggers write every accepted line exactly once, in order; stop returns after the last write
(DESIGN.md 5.8, 6; spec/Logger.tla, MC_Logger.tla, T_Logger.tla; harness/src/probe_logger.cpp)."""
import os
import random

import core
import logger_common as lc
import tlc

PROBES = [("probe_logger", "asan", lc.LOGGER_RUNTIME, [])]

MANIFEST = dict(
    text='TLC proves on the TLA+ design of the logger (producers, FIFO queue, the consumer loop CheckStop/TryPop/Write/Sleep, stop = RequestStop;EnqueueSentinel;Join) for 1-3 producers x 2 lines at enabled or disabled levels with stop() beginning at every point: every accepted line written exactly once, per-producer order, consecutive sequence numbers, disabled levels absent, return value <=> accepted, stop returns only after the last write (and does return); and shows that each named deviation (exit_on_stop_flag, enqueue_return_inverted) violates an invariant. TLC exports the transition cover of the same design at the grain of the consumer\'s park positions; every exported schedule is enforced on the real FileLogger threads (the probe parks the consumer in its sleep / write calls and stop() in its join by symbol interposition; a producer is parked between the two halves of its push at the FIX8_VERIF yield points of the queue, hook H1: after the ticket CAS and before the sub-queue push, or after the sub-queue push and before the publish, alternating), plus seeded free-running runs with 1-8 producer threads and stop() right after the last submit or in mid-flight. TLC validates every recorded execution (submits with return values, stop, file content) against the C28 monitor.',
    note='Trusts TLC, the probe (moves data, parses log lines), interposition of clock_nanosleep/write/pthread_join/pthread_create, ASan/UBSan. "Submitted before stop" = the submit call had returned when stop() was called. The queue is modelled at the grain C30 establishes: pushes are Reserve;Publish, pops go in ticket order and fail while the head ticket is unpublished.',
    tech='TLA+ design spec + TLC (safety and liveness); transition-cover replay on the real logger threads under controlled scheduling; free-running stress; TLC trace validation',
    ref='5.8, 6 C28')


def free_runs(rng, n):
    cmds = []
    for i in range(n):
        np_ = rng.choice([1, 1, 2, 2, 3, 4, 6, 8])
        nl = rng.choice([1, 2, 3, 5, 10, 25, 40])
        total = np_ * nl
        r = rng.random()
        # stop() immediately after the last submit (the case the statement names), or at any earlier moment
        stopafter = total if r < 0.6 else rng.randint(0, total)
        jitter = rng.choice([0, 0, 5, 50])
        cmds.append(("free", np_, nl, stopafter, rng.randint(1, 10 ** 6), jitter))
    return cmds


def run(ctx):
    # 1. the design: C28 holds for every interleaving within the bound; each deviation is visible
    inv = ["InvExactlyOnce", "InvDisabledAbsent", "InvProducerOrder", "InvSeqConsecutive", "InvRetIffAccepted",
           "InvStopComplete"]
    ideal = ["MC_Logger_p1.cfg", "MC_Logger_p2.cfg", "MC_Logger_p3_safety.cfg" if ctx.quick else "MC_Logger_p3.cfg"]
    if not ctx.quick:
        ideal.append("MC_Logger_p2x3.cfg")
    for cfg in ideal:
        r = tlc.check("MC_Logger.tla", cfg, workers=8, timeout=3000)
        if not r["ok"]:
            raise core.Infra("ideal logger design violates %s (%s): the model is wrong" % (r["violated"], cfg))
        ctx.add_model(r, "MC_Logger.tla", cfg, inv + ([] if "safety" in cfg else ["StopReturns (liveness)"]))
    # the queue at the grain of C30: a push is Reserve;Publish and a pop fails while the head ticket is unpublished
    r = tlc.check("MC_Logger.tla", "MC_Logger_p2_2ph.cfg", workers=8, timeout=3000)
    if not r["ok"]:
        raise core.Infra("ideal logger design with two-phase pushes violates %s: the model is wrong" % r["violated"])
    ctx.add_model(r, "MC_Logger.tla", "MC_Logger_p2_2ph.cfg", inv + ["StopReturns (liveness)"])
    # leaving on a failed pop after the stop request is invisible on a plain FIFO and breaks C28 on the real queue protocol
    r = tlc.check("MC_Logger.tla", "MC_Logger_dev_failedpop_1ph.cfg", workers=4, timeout=600)
    if not r["ok"]:
        raise core.Infra("MC_Logger_dev_failedpop_1ph.cfg: expected to hold on a plain FIFO, violated %s" % r["violated"])
    ctx.add_model(r, "MC_Logger.tla", "MC_Logger_dev_failedpop_1ph.cfg", ["exit_on_failed_pop_when_stopping is harmless on a plain FIFO"])
    for cfg, want in (("MC_Logger_dev_exit.cfg", "InvStopComplete"), ("MC_Logger_dev_ret.cfg", "InvRetIffAccepted"),
                      ("MC_Logger_dev_failedpop.cfg", "InvStopComplete"), ("MC_Logger_reach_2ph.cfg", "Reach_PopFailsWithBacklog"),
                      ("MC_Logger_reach.cfg", "Reach_StopWithBacklog")):
        r = tlc.check("MC_Logger.tla", cfg, workers=4, timeout=600)
        if r["ok"] or r["violated"] != want:
            raise core.Infra("%s should violate %s but gave %s: invariants are vacuous" % (cfg, want, r["violated"]))
        ctx.extra.setdefault("deviation_witnesses", {})[cfg] = r["violated"]
    ctx.tick("model")
    # 2. schedules: transition cover of the seam-grain design (one shortest schedule per (control state, step)
    #    edge), every exported prefix completed by stop() and run on its own.  quick: 2 producers x 2 enabled
    #    lines, and 1 producer x 2 lines at either level.  thorough: 2 producers x 2 lines at either level and
    #    3 producers x 2 enabled lines.
    covers = [("MC_Logger_cover_en.cfg", 2), ("MC_Logger_cover_lv.cfg", 1), ("MC_Logger_cover_2ph.cfg", 2)] if ctx.quick else \
             [("MC_Logger_cover.cfg", 2), ("MC_Logger_cover_en3.cfg", 3), ("MC_Logger_cover_2ph.cfg", 2)]
    rng = random.Random(ctx.seed)
    scheds, seen = [], set()
    nedges = 0
    for cfg, np_cover in covers:
        r = tlc.check("MC_Logger.tla", cfg, workers=1, timeout=1200)     # one worker: the export order is deterministic
        if not r["ok"]:
            raise core.Infra("cover run violates %s" % r["violated"])
        ctx.add_model(r, "MC_Logger.tla", cfg, inv + ["transition cover export"])
        prefixes = tlc.leaves(r["out"])
        if "2ph" in cfg:
            # only the schedules in which a producer sits inside its push (the others are in the plain cover);
            # quick: a seeded 500 of them
            prefixes = [h for h in prefixes if any(x["a"] == "R" for x in h)]
            if ctx.quick and len(prefixes) > 500:
                prefixes = rng.sample(prefixes, 500)
        if len(prefixes) < 50:
            raise core.Infra("schedule export %s produced only %d schedules" % (cfg, len(prefixes)))
        nedges += len(prefixes)
        for h in prefixes:
            s = lc.complete_schedule(h)
            key = lc.sched_cmd(0, np_cover, s)
            if key not in seen:                      # the same completed schedule can complete several prefixes
                seen.add(key)
                scheds.append((np_cover, s))
    cmds = [lc.sched_cmd(i, n, s) for i, (n, s) in enumerate(scheds)]
    free = free_runs(rng, 300 if ctx.quick else 3000)
    cmds += [lc.free_cmd(len(scheds) + i, *f[1:]) for i, f in enumerate(free)]
    ctx.exhaustive = True
    execs, aborts = lc.run_logger(ctx, cmds, "c28")
    ctx.tick("probe")
    judge(ctx, cmds, execs, aborts, "c28")
    ctx.tick("validate")
    ctx.rule = ("TLC enumerates every (control state, step) edge of the logger design at park-position grain (%s: %d edges, "
                "%d distinct completed schedules) and each schedule is enforced on the real FileLogger threads; plus %d seeded "
                "free-running runs (1-8 producer threads, 1-40 lines each, stop() right after the last submit or earlier); "
                "distinct = distinct (submit order, return values, file content) sequences"
                % (", ".join(c for c, _ in covers), nedges, len(scheds), len(free)))
    ctx.sample({"command": cmds[len(scheds) // 2], "trace": execs[len(scheds) // 2]})
    ctx.sample({"command": cmds[-1], "trace": (execs[-1] or [])[:14]})
    if os.environ.get("VERIF_SELFTEST") == "1" or not ctx.quick:
        selftest(ctx)
        ctx.extra["selftest"] = "a corrupted record of a good execution is rejected by the monitor"
    ctx.trusted = ["TLC", "probe_logger (moves data; parses the log lines it reads back)",
                   "symbol interposition of clock_nanosleep / write / pthread_join / pthread_create as park positions",
                   "hook H1: FIX8_VERIF yield points push.subpush / push.publish (park a producer inside its push)",
                   "ASan/UBSan for memory errors inside the logger"]
    ctx.assumptions = ["a line counts as submitted before stop iff its send() had returned when stop() was called",
                       "the inter-thread queue follows the ticket protocol of property C30 (Reserve;Publish, pop in ticket order)",
                       "one stop() per logger (a second stop(), e.g. from the destructor, joins a dead thread id and is outside the statement)"]


def judge(ctx, cmds, execs, aborts, name):
    done = [(i, e) for i, e in enumerate(execs) if e is not None]
    fails, labels, info = tlc.validate_execs("T_Logger.tla", "T_Logger.cfg", [e for _, e in done], ctx.workdir, name, chunks=8)
    ctx.add_validation(info, len(done))
    for i, e in done:
        abstract = [(x["e"], x.get("p"), x.get("k"), x.get("ret")) for x in e if x["e"] == "Submit"] + \
                   [[(y["p"], y["k"], y["n"]) for y in x["lines"]] for x in e if x["e"] == "File"]
        ctx.case(abstract, nontrivial=any(x["e"] == "Submit" and x["en"] for x in e))
    for lab, n in labels.items():
        ctx.extra.setdefault("design_labels", {})
        ctx.extra["design_labels"][lab] = ctx.extra["design_labels"].get(lab, 0) + n
    seen = set()
    for f in fails:
        gi = done[f["exec"]][0]
        key = (gi, f["sig"])
        if key in seen:
            continue
        seen.add(key)
        ctx.fail(f["sig"], f["why"], {"command": cmds[gi], "pos": f["pos"], "event": f["event"], "trace": execs[gi]})
    for at, rc, err in aborts:
        ctx.fail("probe_abort:rc%d" % rc, "memory error or crash inside the logger", {"command": cmds[at] if at < len(cmds) else None, "stderr": err})
    return fails


def selftest(ctx):
    """Binding self-test: corrupt one recorded field of a good execution; the monitor must reject."""
    cmds = ["sched 0 2 S1e S2e C C C X C C J"]
    execs, aborts = lc.run_logger(ctx, cmds, "c28self")
    import copy
    bad = copy.deepcopy(execs[0])
    for x in bad:
        if x["e"] == "File" and x["lines"]:
            x["lines"] = x["lines"][:-1]
    fails, _, _ = tlc.validate_execs("T_Logger.tla", "T_Logger.cfg", [bad], ctx.workdir, "c28self", chunks=1)
    if not any(f["why"] == "line_lost" for f in fails):
        raise core.Infra("self-test: dropping a written line from the record was not rejected")
