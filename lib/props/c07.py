"""C07 Checksum function (DESIGN.md 5.3, 6 C07; spec/Chksum.tla, MC_Chksum.tla, T_Chksum.tla)."""
import os
import random

import core
import num_common as nc
import tlc

PROBES = [nc.PROBE]

MANIFEST = dict(
    text='Message::calc_chksum (word-at-a-time sum with carry bookkeeping folded every 256 bytes, byte tail) is transcribed to TLA+ statement by statement next to its meaning ByteSum(buffer, offset, n) mod 256; TLC checks result, the set of indices read and the loop invariant (lane sums minus counted carries = byte sum so far; carry counters never spill) for every buffer of the bounded families (all short buffers over {01,80,ff} with every offset/length, every 16-byte carry pattern, patterned buffers up to 2100 bytes around every multiple of 4/8/256). The families TLC enumerated are exported and executed on the real routine, plus seeded random (buffer, offset, length) triples, with every byte outside the permitted range poisoned (ASan); TLC validates each recorded call against ByteSum (trace validation).',
    note='Reads outside the range are observed by ASan (exact allocation + manual poisoning), not modelled. Unaligned word loads are outside the property (UBSan alignment check off for the probe). Trusts TLC, the probe, the Python mirror of the closed-form buffer patterns.',
    tech='TLA+ transcription + TLC exhaustive check over bounded families; spec-exported inputs replayed on the real routine under ASan; TLC trace validation',
    ref='5.3, 6 C07')

PER_EXEC = 100


def commands(cases):
    cmds = []
    for c in cases:
        data = nc.src_bytes(c["src"])
        cmds.append("chk %s %s %d %d" % (c["mode"], data.hex() if data else "-", c["off"], c["len"]))
    return cmds


def random_cases(rng, n):
    out = []
    for i in range(n):
        r = rng.random()
        if r < 0.6:
            sz = rng.choice([rng.randint(0, 40), rng.randint(0, 300), rng.choice([7, 8, 9, 15, 16, 17, 255, 256, 257, 263, 264, 265])])
            kind = rng.random()
            if kind < 0.5:
                b = [rng.randint(0, 255) for _ in range(sz)]
            elif kind < 0.8:
                b = [rng.choice([0, 1, 127, 128, 255]) for _ in range(sz)]
            else:
                b = [rng.choice([200, 255]) for _ in range(sz)]
            src = {"kind": "lit", "bytes": b, "sz": sz}
        else:
            sz = rng.choice([rng.randint(250, 1400), rng.randint(1000, 2600), 256 * rng.randint(1, 9) + rng.randint(-9, 9)])
            src = {"kind": "pat", "pat": rng.choice(["ff", "alt", "hi", "ramp", "mix"]), "seed": rng.randint(0, 999), "sz": sz}
        off = rng.choice([0, 0, rng.randint(0, min(sz, 12)), rng.randint(0, sz)])
        rem = sz - off
        ln = rng.choice([-1, -1, rem, rng.randint(0, rem), max(0, rem - rng.randint(0, 9)), min(rem, 8 * rng.randint(0, 40))])
        out.append({"src": src, "off": off, "len": ln, "mode": rng.choice(["tight", "tight", "tight", "plain", "str"])})
    return out


def to_event(c, ev):
    e = {"e": "Chk", "mode": c["mode"], "src": c["src"], "off": c["off"], "n": c["len"]}
    if ev.get("abort"):
        e.update(ret=-1, abort=True, san=ev["san"])
    else:
        if (ev["sz"], ev["off"], ev["n"]) != (c["src"]["sz"], c["off"], c["len"]):
            raise core.Infra("probe_num answered a different call: %s for %s" % (ev, c))
        e.update(ret=ev["ret"], abort=False, san="")
    return e


def klass(c):
    return "remainder_after_offset" if c["len"] == -1 and c["off"] > 0 else ("whole_buffer" if c["len"] == -1 else "explicit_length")


def run(ctx):
    if os.environ.get("VERIF_SELFTEST") == "1" or not ctx.quick:
        selftest(ctx)           # binding self-test: a corrupted recorded field must be rejected
        ctx.extra["selftest"] = "corrupted field rejected"
    q = ctx.quick
    # 1. the transcription against its meaning, exhaustively over the bounded families; the deviation
    #    config (what the code did before the fix) must break ReadsInRange; some run must reach a fold
    runs = [("MC_Chksum.tla", "MC_Chksum_export_tiny.cfg" if q else "MC_Chksum_export_tiny_thorough.cfg", None,
             ["InvResult", "InvReads", "InvGhost", "InvLoop", "InvTail", "input export"]),
            ("MC_Chksum.tla", "MC_Chksum_export_pattern.cfg", None, ["InvResult", "InvReads", "InvGhost", "InvLoop", "InvTail", "input export"]),
            ("MC_Chksum.tla", "MC_Chksum_mid.cfg" if q else "MC_Chksum_mid_thorough.cfg", None, ["InvResult", "InvReads", "InvGhost", "InvLoop", "InvTail"]),
            ("MC_Chksum.tla", "MC_Chksum_carry.cfg" if q else "MC_Chksum_carry_thorough.cfg", None, ["InvResult", "InvReads", "InvGhost", "InvLoop", "InvTail"]),
            ("MC_Chksum.tla", "MC_Chksum_dev.cfg", "InvReads", []),
            ("MC_Chksum.tla", "MC_Chksum_witness.cfg", "NeverFolds", [])]
    if not q:
        runs.append(("MC_Chksum.tla", "MC_Chksum_tiny_thorough.cfg", None, ["InvResult", "InvReads", "InvGhost", "InvLoop", "InvTail"]))
    res = nc.model_runs(ctx, runs)
    ctx.exhaustive = True
    ctx.tick("model")
    # 2. inputs: the exported families (every one of them in mode tight; a share also plain / str), seeded random
    rng = random.Random(ctx.seed)
    cases = []
    exported = tlc.leaves(res[0]["out"]) + tlc.leaves(res[1]["out"])
    if len(exported) < 5000:
        raise core.Infra("input export produced only %d cases" % len(exported))
    for x in exported:
        cases.append({"src": x["src"], "off": x["off"], "len": x["len"], "mode": "tight"})
        if rng.random() < 0.15:
            cases.append({"src": x["src"], "off": x["off"], "len": x["len"], "mode": rng.choice(["plain", "str"])})
    nrand = 2000 if q else 100000
    cases += random_cases(rng, nrand)
    rng.shuffle(cases)          # long and short buffers evenly over the validation chunks
    evs = nc.run_commands(ctx, commands(cases))
    ctx.tick("probe")
    cases = [c for c, e in zip(cases, evs) if not e.get("skipped")]
    evs = [e for e in evs if not e.get("skipped")]
    mon = [to_event(c, e) for c, e in zip(cases, evs)]
    execs = [[{"e": "Reset"}] + mon[i:i + PER_EXEC] for i in range(0, len(mon), PER_EXEC)]
    fails = nc.judge(ctx, "T_Chksum", execs, "c07", chunks=8)
    ctx.tick("validate")
    for c, e in zip(cases, mon):
        n = c["len"] if c["len"] >= 0 else c["src"]["sz"] - c["off"]
        ctx.case((c["mode"], c["src"], c["off"], c["len"], e["ret"], e["abort"]), nontrivial=n > 0)
    per_sig = {}
    for f in fails:
        gi = f["exec"] * PER_EXEC + f["pos"] - 1
        c = cases[gi]
        per_sig[f["sig"]] = per_sig.get(f["sig"], 0) + 1
        if per_sig[f["sig"]] > 3:
            continue
        case = {"call": {"mode": c["mode"], "offset": c["off"], "len": c["len"], "size": c["src"]["sz"],
                         "buffer": c["src"] if c["src"]["kind"] == "pat" or c["src"]["sz"] <= 64 else "(literal, %d bytes)" % c["src"]["sz"]},
                "command": commands([c])[0][:400], "observed": {k: mon[gi][k] for k in ("ret", "abort", "san")}}
        if evs[gi].get("abort"):
            case["sanitizer_report"] = evs[gi].get("stderr", "")
        ctx.fail(f["sig"], f["why"], case)
    ctx.rule = ("every input TLC enumerated for the exported families (%d: all buffers up to %d bytes over {01,80,ff} with every "
                "offset/length, 1350 patterned buffers up to 2100 bytes) and %d seeded random calls, executed on the real "
                "calc_chksum with the bytes outside the range poisoned; one evaluation = one call judged by T_Chksum; "
                "non-trivial = non-empty range" % (len(exported), 5 if q else 7, nrand))
    picks = [next(i for i, c in enumerate(cases) if c["src"]["kind"] == "lit" and c["src"]["sz"] >= 5 and c["off"] > 0),
             next(i for i, c in enumerate(cases) if c["src"]["kind"] == "pat" and c["len"] == -1),
             next(i for i, c in enumerate(cases) if c["src"]["kind"] == "lit" and c["src"]["sz"] > 20)]
    for i in picks:
        ctx.sample({"call": {k: cases[i][k] for k in ("mode", "off", "len")}, "size": cases[i]["src"]["sz"],
                    "monitor_event": {k: v for k, v in mon[i].items() if k != "src"}})
    ctx.trusted = ["TLC", "probe_num (moves data only)", "ASan exact allocation + manual poisoning as the observer of out-of-range reads",
                   "Python mirror of PatByte (lib/num_common.py)"]
    ctx.assumptions = ["calls are inside the function's domain: offset <= size, offset + len <= size, len >= 0 or absent",
                       "unaligned 32-bit loads are not a defect (x86-64); UBSan alignment check disabled for the probe"]
    ctx.extra["rejections_by_signature"] = per_sig
    nc.guard_truncation(ctx)
    ctx.extra["classes"] = {k: sum(1 for c in cases if klass(c) == k) for k in ("remainder_after_offset", "whole_buffer", "explicit_length")}


def selftest(ctx):
    """Binding self-test: corrupt one recorded return value; the monitor must reject exactly that call."""
    cases = [{"src": {"kind": "lit", "bytes": [1, 2, 3, 250, 251, 9, 9, 9, 9, 9], "sz": 10}, "off": 2, "len": 7, "mode": "tight"},
             {"src": {"kind": "pat", "pat": "mix", "seed": 7, "sz": 700}, "off": 0, "len": -1, "mode": "tight"}]
    evs = nc.run_commands(ctx, commands(cases))
    mon = [to_event(c, e) for c, e in zip(cases, evs)]
    good = nc.judge(ctx, "T_Chksum", [[{"e": "Reset"}] + mon], "c07self")
    mon[1] = dict(mon[1], ret=(mon[1]["ret"] + 1) % 256)
    bad = nc.judge(ctx, "T_Chksum", [[{"e": "Reset"}] + mon], "c07self")
    if good or len(bad) != 1 or bad[0]["pos"] != 2:
        raise core.Infra("C07 self-test: monitor did not single out the corrupted call (%s / %s)" % (good, bad))
    return True
