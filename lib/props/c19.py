"""C19 Inbound messages reach the application only when in sequence (Session.tla DoRecvApp, SessionMon.tla C19Step)."""
import random

import fixmsg as F
import session_common as sc
import session_model as sm

PROBES = [("probe_session", "asan", None, ["utest"]), ("probe_session", "plain", None, ["utest"])]

MANIFEST = dict(
    text="TLC checks on the session design that the C19 monitor accepts the ideal inbound rules (deliver iff in sequence or "
         "a legitimate PossDup; too high => ResendRequest from the expected number; too low / wrong CompIDs => Logout and "
         "end; undecodable => Reject) and rejects the deviation no_logout_when_established, and exports the transition cover. "
         "Each history, plus seeded inbound sequences (numbers around the expected one, PossDup on/off, OrigSendingTime "
         "before/after, CompIDs right/wrong, corrupt messages, header values containing the text '34='), is executed on the "
         "real Session; what reaches the application callback and what is written to the socket is judged by the monitor.",
    note="The application callback applies Session::enforce first, as every fix8 application does (test/myfix.cpp). "
         "'Expected number' is the session's own before the call.",
    tech="TLA+ session design spec + TLC; transition-cover and seeded inbound histories replayed on the real Session; TLC trace validation",
    ref="5.6, 6 C19")


def extras(ctx):
    rng = random.Random(ctx.seed + 19)
    out = []
    n = 120 if ctx.quick else 1500
    for i in range(n):
        enforce = rng.random() < 0.8
        sender = rng.choice(["INI", "INI", "A34=7", "X34=9Y"])      # CompIDs containing the text "34="
        target = rng.choice(["ACC", "ACC", "B34=2"])
        ex = sc.Exec("C19", role="ini", persist=rng.choice(["mem", "file"]), sender=sender, target=target,
                     flags={"enforce": enforce})
        ex.start()
        ex.logon_exchange()
        for k in range(rng.randint(1, 6)):
            r = rng.random()
            exp = ex.peer_seq
            if r < 0.3:
                ex.recv("D", ident=k + 1)
            elif r < 0.45:
                ex.recv("D", seq=exp + rng.randint(1, 3), ident=k + 1)
            elif r < 0.6:
                lo = max(1, exp - rng.randint(1, 2))
                dup = rng.choice([True, True, False, "N"])      # "N": PossDupFlag present with value N
                orig = None
                if dup:
                    orig = ex.now + rng.choice([-5, 0, 5])
                ex.recv("D", seq=lo, possdup=dup, orig=orig, ident=k + 1)
            elif r < 0.7:
                # wrong CompIDs on an in-sequence, too-high or too-low application message or on a SequenceReset
                q = rng.choice([None, None, exp + 2, max(1, exp - 1)])
                snd, tgt = rng.choice([("EVIL", None), (None, "OTHER"), ("EVIL", "OTHER")])
                if rng.random() < 0.2:
                    ex.recv("4", seq=q, body=[(123, "Y"), (36, exp + 3)], sender=snd, target=tgt)
                else:
                    ex.recv("D", seq=q, ident=k + 1, sender=snd, target=tgt)
            elif r < 0.8:
                ex.recv("D", ident=k + 1, valid=False, why="checksum", bad_checksum=True)
            elif r < 0.88:
                # undecodable: unknown message type / missing mandatory field
                ex.recv("D", body=[(11, "p%d" % (k + 1))], ident=k + 1, valid=False, why="missing_mandatory")
            else:
                ex.recv("1", body=[(112, "X")])
        out.append(ex)
    return out


def run(ctx):
    sm.check_state_machine(ctx)      # SessionStates.tla: the whole state machine; every recorded call is labelled against it
    hists, execs, traces = sm.run_property(ctx, "C19", ["no_logout_when_established"], extras(ctx))
    ctx.rule = ("transition cover of the session design (%d histories) + seeded inbound sequences incl. CompIDs containing '34=', "
                "replayed on the real session; distinct = distinct call sequences" % len(hists))


def replay(ctx, doc):
    sc.replay_case(ctx, doc)
