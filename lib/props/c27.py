"""C27 File persister survives process crashes (spec/FileStore.tla, T_Persister.tla)."""
import random

import core
import persist_common as pc
import tlc

KEYS = [1, 2, 3]


PROBES = [("probe_persist", "asan", None, ["utest"])]

MANIFEST = dict(
    text='TLC checks the syscall-grain file-store design (FileStore.tla) under a crash between any two system calls for all store sequences up to the bound, and shows that each named deviation breaks an invariant. Every store sequence TLC explores is executed on the real FilePersister with write/lseek interposed; every system-call boundary is materialised as a disk image, reopened with a fresh FilePersister, interrogated, stored to, restarted cleanly once more and interrogated again; TLC validates each recorded execution against the C27 monitor.',
    note='Crash model of the property statement (between completed system calls, no torn writes). Trusts TLC, the syscall seam, ASan/UBSan.',
    tech='TLA+ crash-consistency design spec + TLC; exhaustive crash-point enumeration on the real code via syscall seam; TLC trace validation',
    ref='5.9, 6 C27')

def after_ops(seqs_used, inflight_hint, base_id):
    """What is asked of the reopened store: every number, the control record, last; then two further
    stores (one on a number that may have been in flight, one fresh) and their retrieval."""
    ops = [{"op": "Get", "seq": k} for k in sorted(set(seqs_used) | {1, 2, 3})]
    ops += [{"op": "GetCtrl"}, {"op": "Last"}, {"op": "Range", "from": 1, "to": 0}]
    ops += [{"op": "Put", "seq": inflight_hint, "id": base_id}, {"op": "Put", "seq": 9, "id": base_id + 1},
            {"op": "PutCtrl", "s": 77, "r": 78},
            {"op": "Get", "seq": inflight_hint}, {"op": "Get", "seq": 9}, {"op": "GetCtrl"}, {"op": "Last"}]
    # and after an orderly restart of the process that recovered: everything again (what a recovered process stores must
    # be as durable as what the first one stored)
    ops += [{"op": "ReopenAgain"}]
    ops += [{"op": "Get", "seq": k} for k in sorted(set(seqs_used) | {inflight_hint, 9})]
    ops += [{"op": "GetCtrl"}, {"op": "Last"}, {"op": "PutCtrl", "s": 81, "r": 82}, {"op": "GetCtrl"}]
    return ops


def run(ctx):
    # 1. design: the ideal file store keeps C27 under every crash point; each named deviation breaks it
    for cfg, want in (("MC_FileStore_ideal.cfg", None), ("MC_FileStore_idx.cfg", "NoAlienBytes"),
                      ("MC_FileStore_ctrl.cfg", "CompletedSurvive")):
        if ctx.quick and want:
            pass
        r = tlc.check("FileStore.tla", cfg if (ctx.quick or want) else "MC_FileStore_ideal_thorough.cfg", timeout=1500)
        if want is None:
            if not r["ok"]:
                raise core.Infra("ideal file-store design violates %s" % r["violated"])
            ctx.add_model(r, "FileStore.tla", cfg, ["CompletedSurvive", "NoAlienBytes", "CtrlIsLastCompleted"])
            ideal = r
        else:
            # vacuity guard: the invariants must be able to see the deviation
            if r["ok"]:
                raise core.Infra("deviation config %s no longer violates anything: invariants are vacuous" % cfg)
            ctx.extra.setdefault("deviation_witnesses", {})[cfg] = r["violated"]
    ctx.tick("model")
    # 2. schedules: every store sequence TLC explored (export run), executed once with the syscall seam;
    #    every snapshot is a crash point; a fresh persister is opened on each and interrogated.
    r = tlc.check("FileStore.tla", "MC_FileStore_export.cfg" if ctx.quick else "MC_FileStore_export_thorough.cfg", timeout=900)
    seqs = tlc.leaves(r["out"])
    if len(seqs) < 50:
        raise core.Infra("schedule export produced only %d sequences" % len(seqs))
    ctx.add_model(r, "FileStore.tla", "MC_FileStore_export*.cfg", ["schedule export"])
    rng = random.Random(ctx.seed)
    # shorter prefixes are covered as crash points of the longer ones; add seeded longer ones
    nrand = 40 if ctx.quick else 600
    for i in range(nrand):
        n = rng.randint(5, 9)
        used, ops = set(), []
        for j in range(n):
            if rng.random() < 0.35:
                ops.append({"op": "PutCtrl", "s": 20 + j, "r": 120 + j})
            else:
                k = rng.choice([1, 2, 3, 4, 5])
                ops.append({"op": "Put", "seq": k, "id": 30 + j})
        seqs.append(ops)
    scheds = []
    for ops in seqs:
        ops = [dict(o) for o in ops]
        for j, o in enumerate(ops):
            if o["op"] == "PutCtrl":           # keep control values small and distinct
                o["s"], o["r"] = 20 + j, 120 + j
        cmds = pc.cmds_for_ops(ops)
        used = [o["seq"] for o in ops if o["op"] == "Put"]
        # syscalls per op in the code: store = 4 (2 seeks, 2 writes) unless refused; control = 2
        seen, nsys, hints = set(), 0, []
        for o in ops:
            if o["op"] == "Put":
                if o["seq"] in seen:
                    continue
                seen.add(o["seq"])
                hints += [o["seq"]] * 4
                nsys += 4
            else:
                hints += [used[0] if used else 1] * 2
                nsys += 2
        for k in range(0, nsys + 1):
            hint = hints[k] if k < nsys else (used[-1] if used else 1)
            cmds.append("reopen %d" % k)
            cmds += pc.cmds_for_ops(after_ops(used, hint, 200 + (k % 50) * 2))
        scheds.append(("file", cmds))
    execs, memerr = pc.run_schedules(ctx, scheds, "c27", snap=True)
    ctx.tick("probe")
    # one monitor execution per crash point would repeat the prefix; the monitor handles repeated
    # Reopen{k} events inside one execution by recomputing the completed stores from k0/k1.
    pc.judge(ctx, scheds, execs, memerr, "c27")
    ctx.tick("validate")
    ncrash = 0
    ctx.sigs = set()
    import hashlib, json as _json
    for e in execs:
        if not e:
            continue
        stores = [(x["e"], x.get("seq"), x.get("ret")) for x in e if x["e"] in ("Put", "PutCtrl") and x.get("k0") != x.get("k1")]
        cuts = [i for i, x in enumerate(e) if x["e"] == "Reopen"] + [len(e)]
        for a, b in zip(cuts, cuts[1:]):
            ncrash += 1
            seg = [(x["e"], x.get("seq"), x.get("ret"), x.get("id"), x.get("k")) for x in e[a:b]]
            ctx.sigs.add(hashlib.sha1(_json.dumps([stores, seg]).encode()).hexdigest())
    ctx.evaluations = ncrash
    ctx.extra["crash_points_reopened"] = ncrash
    ctx.exhaustive = True
    ctx.rule = ("TLC (FileStore.tla) explores every interleaving of <= 4 stores/control stores with crashes between "
                "system calls; every store sequence it explores (%d) plus %d seeded longer ones is executed once on "
                "the real FilePersister with write/lseek interposed, every system-call boundary is a crash point "
                "(%d reopened in total), and a fresh FilePersister on that disk image is interrogated; distinct = "
                "distinct abstract event sequences" % (len(seqs) - nrand, nrand, ncrash))
    ctx.sample({"stores": seqs[len(seqs) // 3], "trace_head": execs[len(seqs) // 3][:30]})
    ctx.trusted = ["TLC", "probe_persist syscall seam (write/lseek interposition, file snapshots)",
                   "hex->id mapping in lib/persist_common.py", "ASan/UBSan"]
    ctx.assumptions = ["crash = loss of volatile state between two completed system calls; no torn writes, "
                       "no reordering by the OS (the property statement's crash model)"]
