"""Shared driver pieces for C26/C27: schedule -> probe commands, probe events -> monitor events."""
import json
import os
import random
import shutil

import build
import core
import tlc


def msg_bytes(i):
    """Byte string standing for message id i (distinct lengths so that aliasing shows as a size clash)."""
    return ("8=FIX.4.2\x019=%d\x0135=D\x0134=%d\x0158=%s\x0110=000\x01" % (20 + i % 9, i, "p" * (i % 9))).encode()


def cmds_for_ops(ops):
    out = []
    for o in ops:
        k = o["op"]
        if k == "Put":
            out.append("put %d %s" % (o["seq"], msg_bytes(o["id"]).hex()))
        elif k == "Get":
            out.append("get %d" % o["seq"])
        elif k == "PutCtrl":
            out.append("putc %d %d" % (o["s"], o["r"]))
        elif k == "GetCtrl":
            out.append("getc")
        elif k == "Last":
            out.append("last")
        elif k == "Nearest":
            out.append("nearest %d %d" % (o["req"], o["last"]))
        elif k == "Range":
            out.append("range %d %d" % (o["from"], o["to"]))
        elif k == "Reopen":
            out.append("reopen %s" % o["k"])
        elif k == "ReopenAgain":
            out.append("reopen again")
        else:
            raise ValueError(k)
    return out


def ident(hexs, table):
    return table.get(hexs, -1)


def to_monitor(ev, table):
    """Project one probe event onto the monitor alphabet (ids instead of bytes, call order string)."""
    e = ev["e"]
    if e == "Put":
        so = "".join({"seek_end": "E", "seek_set": "S", "write": "W"}[s["call"]] + s["f"][0] for s in ev["sys"])
        return {"e": e, "seq": ev["seq"], "id": ident(ev["hex"], table), "ret": ev["ret"], "k0": ev["k0"], "k1": ev["k1"], "so": so}
    if e == "Get":
        return {"e": e, "seq": ev["seq"], "ret": ev["ret"], "id": ident(ev["hex"], table) if ev["ret"] else 0}
    if e == "PutCtrl":
        return {"e": e, "s": ev["s"], "r": ev["r"], "ret": ev["ret"], "k0": ev["k0"], "k1": ev["k1"]}
    if e == "GetCtrl":
        # shi/rhi are the top bits of 32-bit values; fold them in as a large offset TLC can still hold
        return {"e": e, "ret": ev["ret"], "s": ev["s"] if not ev["shi"] else -ev["s"] - 1, "r": ev["r"] if not ev["rhi"] else -ev["r"] - 1}
    if e == "Range":
        return {"e": e, "from": ev["from"], "to": ev["to"], "ret": ev["ret"],
                "calls": [{"seq": c["seq"], "id": ident(c["hex"], table) if c["seq"] else 0, "nomore": c["nomore"]} for c in ev["calls"]]}
    if e in ("Last", "Nearest"):
        return dict(ev)
    if e == "Reopen":
        return {"e": e, "k": ev["k"], "ret": ev["ret"], "idxlen": ev.get("idxlen", 1)}
    if e == "Reopen2":
        return {"e": e, "ret": ev["ret"]}
    if e == "Reset":
        return {"e": e, "kind": ev["cfg"]["kind"]}
    return None


def probe_binary():
    return build.probe("probe_persist", "asan", schemas=["utest"])


def run_schedules(ctx, scheds, name, snap=False):
    """scheds: list of (kind, [command strings]).  Runs them in a handful of probe processes, returns a
    list of executions (monitor events, first is Reset) aligned with scheds."""
    binary = probe_binary()
    table = {msg_bytes(i).hex(): i for i in range(0, 400)}
    env = build.run_env()
    wd = os.path.join(ctx.workdir, name)
    shutil.rmtree(wd, ignore_errors=True)
    os.makedirs(wd)
    nproc = min(16, max(1, len(scheds) // 50))
    parts = [scheds[i::nproc] for i in range(nproc)]
    from concurrent.futures import ThreadPoolExecutor

    def one(pi):
        lines = []
        for j, (kind, cmds) in enumerate(parts[pi]):
            lines.append('reset {"kind":"%s"}' % kind)
            if kind == "file":
                lines.append("snap on" if snap else "snap off")
                lines.append("new file %s/p%d_%d" % (wd, pi, j))
            else:
                lines.append("new mem")
            lines += cmds
        lines.append("quit")
        evs, rc, err = core.run_probe(binary, "\n".join(lines) + "\n", env, timeout=900, cwd=wd)
        if rc != 0:
            # a rejection counts only if an immediate re-run repeats it (DESIGN.md section 3)
            ctx.extra["transient_probe_aborts"] = ctx.extra.get("transient_probe_aborts", 0) + 1
            evs, rc, err = core.run_probe(binary, "\n".join(lines) + "\n", env, timeout=900, cwd=wd)
        return evs, rc, err
    with ThreadPoolExecutor(max_workers=nproc) as ex:
        res = list(ex.map(one, range(nproc)))
    execs = [None] * len(scheds)
    memerr = []
    for pi, (evs, rc, err) in enumerate(res):
        cur = None
        got = []
        for ev in evs:
            if ev["e"] == "Error":
                raise core.Infra("probe_persist: %s" % ev)
            if ev["e"] == "Reset":
                cur = []
                got.append(cur)
            m = to_monitor(ev, table)
            if m is not None and cur is not None:
                cur.append(m)
        if rc != 0:
            # sanitizer report or crash: the execution in progress is the culprit
            memerr.append((pi, len(got) - 1, rc, core.san_report(err)))
        for j, ex_ in enumerate(got):
            execs[pi + j * nproc] = ex_
    shutil.rmtree(wd, ignore_errors=True)
    return execs, memerr


def judge(ctx, scheds, execs, memerr, name, nproc_of=None):
    """Hand the executions to the TLA+ monitor; turn its rejections into ctx failures."""
    done = [(i, e) for i, e in enumerate(execs) if e is not None]
    fails, labels, info = tlc.validate_execs("T_Persister.tla", "T_Persister.cfg", [e for _, e in done],
                                             ctx.workdir, name, chunks=12)
    ctx.add_validation(info, len(done))
    for i, e in done:
        abstract = [(x["e"], x.get("seq"), x.get("ret"), x.get("id"), x.get("k")) for x in e]
        ctx.case(abstract, nontrivial=any(x["e"] in ("Put", "PutCtrl") and x.get("ret") for x in e))
    for lab, n in labels.items():
        ctx.extra.setdefault("design_labels", {})
        ctx.extra["design_labels"][lab] = ctx.extra["design_labels"].get(lab, 0) + n
    seen = set()
    for f in fails:
        gi = done[f["exec"]][0]
        key = (gi, f["sig"])
        if key in seen:
            continue
        seen.add(key)
        ctx.fail(f["sig"], f["why"], {"schedule": scheds[gi][1], "kind": scheds[gi][0], "pos": f["pos"],
                                      "event": f["event"], "trace": execs[gi]})
    for pi, j, rc, err in memerr:
        ctx.fail("probe_abort:rc%d" % rc, "memory error or crash in the persister", {"stderr": err})
    return fails
