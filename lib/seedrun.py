#!/usr/bin/env python3
"""seedrun.py <patch> <PID> [<PID>...]: apply a seeded change to /repo, run the named checks (quick), undo it.
Prints one line per check: property, exit code, VIOLATION/KNOWN lines.  Never leaves /repo modified."""
import os, subprocess, sys
repo = "/repo"
args = sys.argv[1:]
if args[0] == "--repo":          # evaluate on a scratch worktree instead (VERIF_REPO), leaving /repo free
    repo = args[1]
    args = args[2:]
    os.environ["VERIF_REPO"] = repo
patch = os.path.abspath(args[0])
pids = args[1:]
here = os.path.dirname(os.path.dirname(os.path.abspath(__file__)))
assert subprocess.run(["git", "-C", repo, "diff", "--quiet"]).returncode == 0, repo + " is not clean"
subprocess.run(["git", "-C", repo, "apply", patch], check=True)
try:
    for p in pids:
        r = subprocess.run([os.path.join(here, "check"), p, "--tier", os.environ.get("VERIF_TIER", "quick")],
                           capture_output=True, text=True, cwd=here)
        lines = [l[:230] for l in r.stdout.splitlines() if l.startswith(("VIOLATION", "  why", "KNOWN-FINDING")) or " quick: " in l or " thorough: " in l]
        print("== %s exit %d" % (p, r.returncode))
        for l in lines[:14]:
            print("   " + l)
        if r.returncode == 2:
            print("   " + r.stderr[-600:])
finally:
    subprocess.run(["git", "-C", repo, "checkout", "--", "."], check=True)
