"""Warm the object cache: every probe the checks use, built from /repo's current working tree."""
import sys, os, time
sys.path.insert(0, os.path.dirname(os.path.abspath(__file__)))
import build
t = time.time()
build.f8c()
for args in [("probe_persist", "asan", None, ["utest"])]:
    name, variant, runtime, schemas = args
    print(name, build.probe(name, variant, runtime, schemas), round(time.time() - t, 1), flush=True)
