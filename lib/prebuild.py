"""Warm the object cache: every probe the checks use (each lib/props/cNN.py lists them in PROBES as
(name, variant, runtime-files-or-None, [schemas]) or as a zero-argument callable), built from /repo's
current working tree."""
import importlib, os, re, sys, time
HERE = os.path.dirname(os.path.abspath(__file__))
sys.path.insert(0, HERE)
import build
t = time.time()
build.f8c()
seen = set()
ready = set(open(os.path.join(os.path.dirname(HERE), "ready.txt")).read().split())
for f in sorted(os.listdir(os.path.join(HERE, "props"))):
    m = re.fullmatch(r"(c\d+)\.py", f)
    if not m or m.group(1).upper() not in ready:
        continue
    mod = importlib.import_module("props." + m.group(1))
    for p in getattr(mod, "PROBES", []):
        if callable(p):
            print(m.group(1), p(), round(time.time() - t, 1), flush=True)
            continue
        key = repr(p)
        if key in seen:
            continue
        seen.add(key)
        name, variant, runtime, schemas = p
        print(name, build.probe(name, variant, runtime, schemas), round(time.time() - t, 1), flush=True)
