"""Driver pieces shared by the session checks (C16-C23, C25): schedule -> probe commands, probe events ->
monitor events, counterparty message fabrication."""
import os
import shutil
from concurrent.futures import ThreadPoolExecutor

import build
import core
import fixmsg as F
import tlc

T0 = 1700000000          # virtual epoch second at which every execution starts (2023-11-14 22:13:20 UTC)
ADMIN = {"0", "1", "2", "3", "4", "5", "A"}


def probe_binary(variant="asan"):
    return build.probe("probe_session", variant, schemas=["utest"])


class Exec:
    """One execution: configuration + list of abstract steps, rendered to probe commands."""

    def __init__(self, prop, role="ini", persist="mem", sender="INI", target="ACC", hb=30, flags=None,
                 cfg_send=0, cfg_recv=0, clients=()):
        self.cfg = {"prop": prop, "role": role, "persist": persist, "sender": sender, "target": target, "hb": hb,
                    "reset": bool(flags and flags.get("reset")), "enforce": not flags or flags.get("enforce", True),
                    "always_assign": bool(flags and flags.get("always_assign")), "cfg_send": cfg_send,
                    "cfg_recv": cfg_recv, "clients": list(clients)}
        self.flags = flags or {}
        self.cmds = []
        self.ins = []       # true description of each inbound message, in order of the recv commands
        self.now = T0
        self.peer_seq = 1   # next number the fabricated counterparty would use
        self.abstract = []

    # -- commands --------------------------------------------------------------------------------
    def header(self, d):
        out = ["reset " + __import__("json").dumps(self.cfg), "clock %d 0" % T0]
        for k, v in self.flags.items():
            out.append("set %s %s" % (k, "1" if v is True else "0" if v is False else v))
        if self.cfg["clients"]:
            out.append("set clients %s" % ",".join(self.cfg["clients"]))
        out.append("new %s %s %s %s %s %d" % (self.cfg["role"], self.cfg["persist"], d, self.cfg["sender"],
                                                self.cfg["target"], self.cfg["hb"]))
        return out

    def start(self):
        self.cmds.append("start %d %d" % (self.cfg["cfg_send"], self.cfg["cfg_recv"]))
        self.abstract.append(("start",))

    def send(self, i):
        self.cmds.append("send m%d" % i)
        self.abstract.append(("send", i))

    def batch(self, ids):
        self.cmds.append("sendbatch " + " ".join("m%d" % i for i in ids))
        self.abstract.append(("batch", tuple(ids)))

    def admin(self, kind, *a):
        self.cmds.append(("sendadmin %s " % kind) + " ".join(str(x) for x in a))
        self.abstract.append(("admin", kind) + a)

    def tick(self, t):
        self.now = T0 + t
        self.cmds.append("tick %d" % self.now)
        self.abstract.append(("tick", t))

    def at(self, t):
        self.now = T0 + t
        self.cmds.append("clock %d" % self.now)

    def sendpar(self, threads, per, batch=1, mix=False):
        self.cmds.append("sendpar %d %d %d%s" % (threads, per, batch, " mix" if mix else ""))
        self.abstract.append(("sendpar", threads, per, batch, mix))

    def peerclose(self):
        self.cmds.append("peerclose")
        self.abstract.append(("peerclose",))

    def reconnect(self):
        self.cmds.append("reconnect 0 0")
        self.abstract.append(("reconnect",))

    def restart(self):
        self.cmds.append("restart")
        self.abstract.append(("restart",))

    def drop(self):
        self.cmds.append("drop")
        self.abstract.append(("drop",))

    def sidcmp(self, s1, t1, s2, t2):
        self.cmds.append("sidcmp %s %s %s %s" % (s1, t1, s2, t2))
        self.abstract.append(("sidcmp", s1, t1, s2, t2))

    def recv(self, msgtype, seq=None, body=(), possdup=False, orig=None, sending=None, sender=None, target=None,
             valid=True, why="", raw=None, ident=0, **kw):
        """Fabricate a counterparty message.  seq=None -> next peer number (and advance it)."""
        if seq is None:
            seq = self.peer_seq
            self.peer_seq += 1
        sender = self.cfg["target"] if sender is None else sender
        target = self.cfg["sender"] if target is None else target
        sending = self.now if sending is None else sending
        b = list(body)
        if msgtype == "D" and not b:
            b = F.new_order("p%d" % ident)
        wire = raw if raw is not None else F.compose(msgtype, seq, sender, target, F.ts(sending),
                                                      b, possdup, None if orig is None else F.ts(orig), **kw)
        bd = dict((str(t), v) for t, v in b)
        self.ins.append({"type": msgtype, "seq": seq, "possdup": possdup is True, "has_orig": orig is not None,
                         "orig": (orig - T0) if orig is not None else 0, "sending": sending - T0,
                         "sci": sender, "tci": target, "id": 100 + ident if ident else 0, "valid": valid, "why": why,
                         "hbint": int(bd.get("108", 0)), "reset": bd.get("141") == "Y",
                         "testreqid": str(bd.get("112", "")), "begin": int(bd.get("7", 0)), "end": int(bd.get("16", 0)),
                         "newseq": int(bd.get("36", 0)), "gapfill": bd.get("123") == "Y"})
        self.cmds.append("recv " + wire.hex())
        self.abstract.append(("recv", msgtype, seq, possdup, orig is not None, valid, sender, target,
                              tuple(sorted(bd.items())) if msgtype != "D" else ident))

    def logon_exchange(self, hb=None, seq=None, reset=False, **kw):
        """Counterparty Logon (response for an initiator, request for an acceptor)."""
        body = [(98, 0), (108, self.cfg["hb"] if hb is None else hb)]
        if reset:
            body.append((141, "Y"))
        self.recv("A", seq=seq, body=body, **kw)


def idnum(s):
    if not s:
        return 0
    try:
        return int(s[1:]) + (100 if s[0] == "p" else 0)
    except ValueError:
        return -1


def rel(ts):
    return -1 if ts is None else ts["day"] * 86400 + ts["sec"] - T0


def conv_out(o):
    return {"type": o["type"], "seq": o["seq"], "possdup": o["possdup"], "gapfill": o["gapfill"], "newseq": o["newseq"],
            "begin": o["begin"], "end": o["end"], "testreqid": o["testreqid"], "hbint": o["hbint"], "reset": o["reset"],
            "refseq": o["refseq"], "sci": o["sci"], "tci": o["tci"], "id": idnum(o["id"]), "has_orig": o["has_orig"],
            "orig": rel(o["orig"]), "sending": rel(o["sending"]), "len": o["len"], "h": o["h"]}


def conv_state(s):
    if s is None:
        return {"st": 0, "ns": 0, "nr": 0, "ctrl": [], "stored": [], "shutdown": False}
    s = dict(s)
    for k in ("ns", "nr"):          # uninitialised counters before start(): keep TLC's 32-bit integers safe
        if s[k] > 0x3fffffff:
            s[k] = -1
    return s


def to_monitor(ev, ex, ri):
    """Project a probe event onto the monitor alphabet.  ri = index of the next inbound description."""
    e = ev["e"]
    if e == "Reset":
        return {"e": "Reset", "cfg": ev["cfg"]}, ri
    if e == "New":
        return {"e": "New"}, ri
    if e == "SidCmp":
        return ev, ri
    if e == "Error":
        raise core.Infra("probe_session: %s" % ev)
    m = {"e": e, "ret": ev["ret"], "out": [conv_out(o) for o in ev["out"]],
         "delivered": [{"seq": d["seq"], "id": idnum(d["id"]), "possdup": d["possdup"]} for d in ev["delivered"]],
         "pre": conv_state(ev["pre"]), "post": conv_state(ev["post"]),
         "now": ev["now"]["day"] * 86400 + ev["now"]["sec"] - T0, "in": []}
    if e == "Start":
        m["cfg_send"], m["cfg_recv"] = ev["cfg_send"], ev["cfg_recv"]
    if e == "Recv":
        m["in"] = [ex.ins[ri]]
        m["exc"] = ev.get("exc", "")
        ri += 1
    if e == "Send":
        m["kind"] = ev["kind"]
    if e == "SendPar":
        m["threads"], m["per"], m["batch"], m["pmodel"] = ev["threads"], ev["per"], ev["batch"], ex.flags.get("pmodel", "thread")
    return m, ri


def run_execs(ctx, execs, name, variant="mix", nproc=14, per_process=None):
    """Run executions through probe_session (a few processes), return per-execution monitor events.
    variant "mix": every 8th execution under ASan+UBSan, the rest on the plain build (thread creation
    under ASan costs ~200 ms CPU per session, 5x the plain build)."""
    if variant == "mix":
        ia = [i for i in range(len(execs)) if i % 8 == 0]
        ip = [i for i in range(len(execs)) if i % 8 != 0]
        out = [None] * len(execs)
        aborts = []
        for idx, var in ((ip, "plain"), (ia, "asan")):
            if not idx:
                continue
            tr, ab = run_execs(ctx, [execs[i] for i in idx], name + "_" + var, var, nproc)
            for k, i in enumerate(idx):
                out[i] = tr[k]
            aborts += [(idx[g] if g is not None else None, rc, err) for g, rc, err in ab]
        ctx.extra["executions_under_asan"] = ctx.extra.get("executions_under_asan", 0) + len(ia)
        return out, aborts
    binary = probe_binary(variant)
    env = build.run_env(variant)
    wd = os.path.join(ctx.workdir, name)
    shutil.rmtree(wd, ignore_errors=True)
    os.makedirs(wd)
    nproc = min(nproc, max(1, len(execs) // 20)) if per_process is None else max(1, len(execs) // per_process)
    parts = [list(range(i, len(execs), nproc)) for i in range(nproc)]

    def one(pi):
        lines = []
        for j in parts[pi]:
            lines += execs[j].header("%s/s%d" % (wd, j)) + execs[j].cmds
        lines.append("quit")
        inp = "\n".join(lines) + "\n"
        evs, rc, err = core.run_probe(binary, inp, env, timeout=900, cwd=wd)
        if rc != 0:
            ctx.extra["transient_probe_aborts"] = ctx.extra.get("transient_probe_aborts", 0) + 1
            evs, rc, err = core.run_probe(binary, inp, env, timeout=900, cwd=wd)
        return evs, rc, err
    with ThreadPoolExecutor(max_workers=min(nproc, 8 if per_process else nproc)) as ex:
        res = list(ex.map(one, range(nproc)))
    out = [None] * len(execs)
    aborts = []
    for pi, (evs, rc, err) in enumerate(res):
        k = -1
        cur = None
        ri = 0
        for ev in evs:
            if ev["e"] == "Reset":
                k += 1
                cur = []
                out[parts[pi][k]] = cur
                ri = 0
            if ev["e"] == "Terminate":
                continue
            m, ri = to_monitor(ev, execs[parts[pi][k]], ri)
            cur.append(m)
        if rc != 0:
            aborts.append((parts[pi][k] if k >= 0 else None, rc, core.san_report(err)))
    shutil.rmtree(wd, ignore_errors=True)
    return out, aborts


def note_labels(ctx, labels):
    """Design-conformance labels of the monitors (state machine of SessionStates.tla): counts go to the evidence;
    they are never a verdict.  An execution family in which no recorded call conforms means the binding is broken."""
    d = ctx.extra.setdefault("design_labels", {})
    for k, n in labels.items():
        d[k] = d.get(k, 0) + n
    odd = {k: n for k, n in labels.items() if k.startswith("state_machine:unexplained")}
    if odd:
        # informational (no listed property is "the state machine"): a departure from SessionStates.tla is worth a look
        print("NOTE property=%s %d recorded calls depart from the session state machine of SessionStates.tla: %s" %
              (ctx.pid, sum(odd.values()), ", ".join("%s x%d" % (k.split(":", 2)[2], n) for k, n in sorted(odd.items())[:6])))
    if labels and not any(k == "state_machine:step_conforms" for k in labels):
        raise core.Infra("no recorded call conforms to the session state machine: SessionStates.tla is not bound to the traces")


def judge(ctx, execs, traces, aborts, name, chunks=12):
    done = [(i, t) for i, t in enumerate(traces) if t]
    fails, labels, info = tlc.validate_execs("T_Session.tla", "T_Session.cfg", [t for _, t in done], ctx.workdir, name,
                                             chunks=chunks)
    ctx.add_validation(info, len(done))
    note_labels(ctx, labels)
    for i, t in done:
        ctx.case(execs[i].abstract + [execs[i].cfg], nontrivial=len(t) > 3)
    seen = set()
    for f in fails:
        gi = done[f["exec"]][0]
        if (gi, f["sig"]) in seen:
            continue
        seen.add((gi, f["sig"]))
        ctx.fail(f["sig"], f["why"], {"cfg": execs[gi].cfg, "commands": execs[gi].cmds, "pos": f["pos"],
                                      "event": f["event"]})
    for gi, rc, err in aborts:
        ctx.fail("%s:probe_abort:rc%d" % (ctx.pid, rc), "memory error or crash in the session",
                 {"stderr": err, "commands": execs[gi].cmds if gi is not None else None})
    return fails


# ---------------------------------------------------------------------------------------------------
# Reactive driving (C20, C21): the driver is the counterparty / the network and answers what the
# session actually wrote, so commands are sent one at a time.
import json as _json
import select
import subprocess


class Live:
    """A probe_session process driven interactively: cmd() sends one command and returns its event."""
    SILENT = ("clock", "set", "outhex", "peerclose")

    def __init__(self, variant="plain", cwd=None):
        self.bin = probe_binary(variant)
        self.p = subprocess.Popen([self.bin], stdin=subprocess.PIPE, stdout=subprocess.PIPE, stderr=subprocess.PIPE,
                                  text=True, bufsize=1, env=build.run_env(variant), cwd=cwd)
        self.dead = False

    def cmd(self, line, timeout=60):
        try:
            self.p.stdin.write(line + "\n")
            self.p.stdin.flush()
        except BrokenPipeError:
            self.dead = True
            raise core.Infra("probe_session died (rc %s) before %r: %s" % (self.p.poll(), line[:50], core.san_report(self.p.stderr.read())[:3000]))
        word = line.split()[1] if line.startswith("@") else line.split()[0]
        if word in self.SILENT:
            return None
        r, _, _ = select.select([self.p.stdout], [], [], timeout)
        if not r:
            self.dead = True
            raise core.Infra("probe_session did not answer %r within %ds" % (line[:60], timeout))
        out = self.p.stdout.readline()
        if not out:
            self.dead = True
            return {"e": "Abort", "rc": self.p.wait(), "stderr": core.san_report(self.p.stderr.read())}
        ev = _json.loads(out)
        if ev["e"] == "Error":
            raise core.Infra("probe_session: %s" % ev)
        return ev

    def close(self):
        try:
            if not self.dead:
                self.p.stdin.write("quit\n")
                self.p.stdin.flush()
            self.p.wait(timeout=20)
        except Exception:
            self.p.kill()


class Peer:
    """A FIX-conformant counterparty: numbers and logs what it sends, replays application messages as PossDup and
    gap-fills administrative ones when asked."""

    def __init__(self, me="ACC", you="INI"):
        self.me, self.you = me, you
        self.next = 1
        self.log = []          # [{"seq","kind","id","sending"}]

    def emit(self, kind, now, ident=0, logon=False, hb=30):
        seq = self.next
        self.next += 1
        self.log.append({"seq": seq, "kind": kind, "id": ident, "sending": now, "logon": logon})
        if logon:
            wire = F.compose("A", seq, self.me, self.you, F.ts(now), [(98, 0), (108, hb)])
            desc = {"type": "A", "hbint": hb}
        elif kind == "app":
            wire = F.compose("D", seq, self.me, self.you, F.ts(now), F.new_order("p%d" % ident))
            desc = {"type": "D", "id": 100 + ident}
        else:
            wire = F.compose("0", seq, self.me, self.you, F.ts(now))
            desc = {"type": "0"}
        return wire, self._desc(desc, seq, now)

    def _desc(self, d, seq, now, possdup=False, orig=None):
        base = {"type": "", "seq": seq, "possdup": possdup, "has_orig": orig is not None,
                "orig": (orig - T0) if orig is not None else 0, "sending": now - T0, "sci": self.me, "tci": self.you,
                "id": 0, "valid": True, "why": "", "hbint": 0, "reset": False, "testreqid": "", "begin": 0, "end": 0,
                "newseq": 0, "gapfill": False}
        base.update(d)
        return base

    def replay(self, begin, end, now):
        """[(wire, desc)] answering ResendRequest [begin, end] (end 0 = to the latest)."""
        last = self.next - 1
        hi = last if end == 0 else min(end, last)
        out = []
        q = begin
        while q <= hi:
            e = self.log[q - 1]
            if e["kind"] == "app":
                wire = F.compose("D", q, self.me, self.you, F.ts(now), F.new_order("p%d" % e["id"]), possdup=True,
                                 orig=F.ts(e["sending"]))
                out.append((wire, self._desc({"type": "D", "id": 100 + e["id"]}, q, now, True, e["sending"])))
                q += 1
            else:
                r = q
                while r <= hi and self.log[r - 1]["kind"] != "app":
                    r += 1
                wire = F.compose("4", q, self.me, self.you, F.ts(now), [(123, "Y"), (36, r)], possdup=True,
                                 orig=F.ts(now))
                out.append((wire, self._desc({"type": "4", "gapfill": True, "newseq": r}, q, now, True, now)))
                q = r
        return out


def conv_live(ev, indesc=None, cfg=None):
    """Project one live probe event (see to_monitor) with an explicit inbound description."""
    e = ev["e"]
    if e == "Reset":
        return {"e": "Reset", "cfg": cfg if cfg is not None else ev["cfg"]}
    if e == "New":
        return {"e": "New"}
    m = {"e": e, "w": ev.get("w", "a"), "ret": ev["ret"], "out": [conv_out(o) for o in ev["out"]],
         "delivered": [{"seq": d["seq"], "id": idnum(d["id"]), "possdup": d["possdup"]} for d in ev["delivered"]],
         "pre": conv_state(ev["pre"]), "post": conv_state(ev["post"]),
         "now": ev["now"]["day"] * 86400 + ev["now"]["sec"] - T0, "in": [indesc] if indesc else []}
    if e == "Start":
        m["cfg_send"], m["cfg_recv"] = ev["cfg_send"], ev["cfg_recv"]
    if e == "Recv":
        m["exc"] = ev.get("exc", "")
    return m


def replay_case(ctx, doc):
    """--replay for the sequential session checks: run the recorded commands again and judge them."""
    case = doc["case"]
    if "commands" not in case:
        raise core.Infra("this replay file has no command list")
    ex = Exec(ctx.pid)
    ex.cfg = case["cfg"]
    ex.flags = {}
    if not case["cfg"].get("enforce", True):
        ex.flags["enforce"] = False
    ex.cmds = list(case["commands"])
    # inbound descriptions are rebuilt from the wire bytes
    import fixmsg as FM
    for c in ex.cmds:
        if c.startswith("recv "):
            wire = bytes.fromhex(c.split()[1])
            d = FM.parse(wire)
            ck = sum(wire[:wire.rfind(b"\x0110=") + 1]) % 256
            valid = d.get("10") == "%03d" % ck
            snd = FM.epoch(d["52"]) if "52" in d else T0
            ex.ins.append({"type": d.get("35", ""), "seq": int(d.get("34", 0)), "possdup": d.get("43") == "Y",
                           "has_orig": "122" in d, "orig": (FM.epoch(d["122"]) - T0) if "122" in d else 0, "sending": snd - T0,
                           "sci": d.get("49", ""), "tci": d.get("56", ""), "id": idnum(d.get("11", "")), "valid": valid,
                           "why": "" if valid else "checksum", "hbint": int(d.get("108", 0)), "reset": d.get("141") == "Y",
                           "testreqid": d.get("112", ""), "begin": int(d.get("7", 0)), "end": int(d.get("16", 0)),
                           "newseq": int(d.get("36", 0)), "gapfill": d.get("123") == "Y"})
    ex.abstract = [("replay", doc.get("sig"))]
    traces, aborts = run_execs(ctx, [ex], "replay", variant="asan", nproc=1)
    judge(ctx, [ex], traces, aborts, "replay", chunks=1)
    for e in traces[0] or []:
        print(_json.dumps({k: v for k, v in e.items() if k not in ("pre",)})[:600])
