"""Session.tla <-> real Session: model checking runs, schedule export, schedule -> probe execution."""
import random

import core
import session_common as sc
import tlc

DEVS = ["batch_last_stored_empty", "ctrl_plus1_on_noincrement", "reject_no_ctrl_update",
        "gapfill_seq_is_next_send", "no_logout_when_established"]


def check_design(ctx, prop, devs):
    """Ideal design: every monitor accepts every behaviour.  Each deviation that concerns `prop`
    must be rejected by that property's monitor (vacuity guard)."""
    cfg = "MC_Session_ideal.cfg" if ctx.quick else "MC_Session_ideal_thorough.cfg"
    r = tlc.check("Session.tla", cfg, timeout=1500)
    if not r["ok"]:
        raise core.Infra("ideal session design is rejected (%s): model or monitor wrong\n%s" % (r["violated"], r["out"][-1500:]))
    ctx.add_model(r, "Session.tla", cfg, ["MonitorsAccept (C16-C19 monitors accept the ideal design)",
                                          "CtrlEqualsCounters", "StoreWithinSent"])
    for d in devs:
        r = tlc.check("Session.tla", "MC_Session_dev_%s.cfg" % d, timeout=600, workers=8)
        if r["ok"] or r["violated"] != "MonitorsAccept":
            raise core.Infra("deviation %s is not rejected by the monitors: vacuous" % d)
        if ('p |-> "%s"' % prop) not in r["out"]:
            raise core.Infra("deviation %s is rejected, but not by the %s monitor" % (d, prop))
        ctx.extra.setdefault("deviation_witnesses", []).append(d)


STATE_FACTS = ["OnlyLiveStates", "EstablishedOnlyByLogonOrResend", "ResendSentOnlyFromContinuous", "LogoffOnlyWhenEstablished",
               "TestRequestBySilence", "LeavesTestReq", "BadIdsEnd"]
STATE_WITNESSES = ["NoRevival", "NoResendStateLostToTick", "AllReached", "EstablishedOnlyByLogon", "LeavesTestReqOnlyByHeartbeat"]


def check_state_machine(ctx):
    """SessionStates.tla (the whole session state machine at call grain): TLC checks the design facts and that the named
    oddities of the code's machine are really in it (witness configs must violate).  The same relation labels every
    recorded call in T_Session (note_labels)."""
    r = tlc.check("MC_SessionStates.tla", "MC_SessionStates.cfg", workers=8, timeout=900)
    if not r["ok"]:
        raise core.Infra("session state machine violates %s: the model is wrong" % r["violated"])
    ctx.add_model(r, "MC_SessionStates.tla", "MC_SessionStates.cfg", STATE_FACTS)
    for w in STATE_WITNESSES:
        x = tlc.check("MC_SessionStates.tla", "MC_SessionStates_witness_%s.cfg" % w, workers=2, timeout=300)
        if x["ok"] or x["violated"] != w:
            raise core.Infra("witness %s should be violated by the state machine, got %s" % (w, x["violated"]))
        ctx.extra.setdefault("state_machine_witnesses", []).append(w)


def export(ctx, limit=None):
    cfg = "MC_Session_export.cfg" if ctx.quick else "MC_Session_export_thorough.cfg"
    r = tlc.check("Session.tla", cfg, timeout=1500, workers=1)      # one worker: the exported histories are reproducible
    if not r["ok"]:
        raise core.Infra("export run rejected: %s" % r["violated"])
    hists = tlc.leaves(r["out"])
    if len(hists) < 500:
        raise core.Infra("schedule export produced only %d histories" % len(hists))
    ctx.add_model(r, "Session.tla", cfg, ["transition cover export"])
    if limit and len(hists) > limit:
        rng = random.Random(ctx.seed)
        hists = rng.sample(hists, limit)
    return hists


def exec_from_hist(prop, hist, persist="file"):
    ex = sc.Exec(prop, role="ini", persist=persist)
    nid = 1
    k = 0
    for inp in hist:
        op = inp["op"]
        k += 1
        if op == "Start":
            ex.start()
        elif op == "RecvLogon":
            ex.logon_exchange(seq=inp["seq"])
        elif op == "Send":
            ex.send(nid)
            nid += 1
        elif op == "Batch":
            ex.batch(list(range(nid, nid + inp["n"])))
            nid += inp["n"]
        elif op == "RecvApp":
            dup = inp["dup"]
            orig = None
            if dup:
                orig = ex.now if inp["origok"] else ex.now + 5
            ex.recv("D", seq=inp["seq"], possdup=dup, orig=orig, ident=k)
        elif op == "RecvTestReq":
            ex.recv("1", seq=inp["seq"], body=[(112, "PING")])
        elif op == "RecvGarbled":
            ex.recv("D", seq=inp["seq"], ident=k, valid=False, why="checksum", bad_checksum=True)
        elif op == "RecvResend":
            ex.recv("2", seq=inp["seq"], body=[(7, inp["begin"]), (16, inp["end"])])
        elif op == "Restart":
            ex.restart()
        else:
            raise ValueError(op)
    return ex


def run_property(ctx, prop, devs, extra_execs=(), limit_quick=2500, limit_thorough=25000):
    check_design(ctx, prop, devs)
    ctx.tick("model")
    hists = export(ctx, limit_quick if ctx.quick else limit_thorough)
    execs = [exec_from_hist(prop, h) for h in hists] + list(extra_execs)
    traces, aborts = sc.run_execs(ctx, execs, prop.lower())
    ctx.tick("probe")
    sc.judge(ctx, execs, traces, aborts, prop.lower())
    ctx.tick("validate")
    ctx.exhaustive = limit_quick is None if ctx.quick else False
    mid = len(hists) // 2
    if traces[mid]:
        ctx.sample({"model_history": hists[mid], "real_trace": [slim(e) for e in traces[mid][1:6]]})
    ctx.trusted = ["TLC", "probe_session (real Session + Connection over a socketpair; moves data only)",
                   "lib/fixmsg.py (counterparty message composer)", "lib/session_common.py projection", "ASan/UBSan"]
    return hists, execs, traces


def slim(e):
    out = {k: v for k, v in e.items() if k not in ("pre", "post", "out", "in")}
    if "out" in e:
        out["out"] = [{k: v for k, v in o.items() if v not in (0, "", False, -1) and k not in ("sci", "tci", "h", "len")} for o in e["out"]]
    if e.get("in"):
        out["in"] = [{k: v for k, v in i.items() if v not in (0, "", False)} for i in e["in"]]
    if "post" in e:
        out["post"] = {k: v for k, v in e["post"].items() if k != "stored"}
    return out
