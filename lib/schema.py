"""Independent reader of FIX schema XML (QuickFIX format as used by fix8's f8c).

Monitors take schema *facts* (section, position, mandatory, group membership, type, enumerated
values) from here and never from the library's generated tables, so that a defect in the compiler
or the tables cannot hide itself (DESIGN.md section 3).  Uses only xml.etree.
"""
import os
import re
import xml.etree.ElementTree as ET


class Field:
    def __init__(self, number, name, ftype, values):
        self.number, self.name, self.type, self.values = number, name, ftype, values  # values: [(enum, description)]

    def __repr__(self):
        return "Field(%d,%s,%s)" % (self.number, self.name, self.type)


class Member:
    """A field as it appears in a message/group/section: position (1-based), mandatory, nested group."""
    def __init__(self, field, required, pos, group=None):
        self.field, self.required, self.pos, self.group = field, required, pos, group   # group: [Member] or None


class Schema:
    def __init__(self, path, extra_fields_xml=None):
        self.path = path
        root = ET.parse(path).getroot()
        self.major, self.minor = root.get("major"), root.get("minor")
        self.beginstring = ("FIXT." if root.get("type") == "FIXT" else "FIX.") + "%s.%s" % (self.major, self.minor)
        self.fields = {}          # name -> Field
        self.bynum = {}           # number -> Field
        for f in root.find("fields"):
            vals = [(v.get("enum"), v.get("description")) for v in f.findall("value")]
            fld = Field(int(f.get("number")), f.get("name"), f.get("type"), vals)
            self.fields[fld.name] = fld
            self.bynum[fld.number] = fld
        self.extra_in = {}        # message name -> [(Field, required)]
        if extra_fields_xml:
            for f in ET.fromstring("<x>" + extra_fields_xml + "</x>"):
                fld = Field(int(f.get("number")), f.get("name"), f.get("type"), [])
                self.fields[fld.name] = fld
                self.bynum[fld.number] = fld
                for tok in (f.get("messages") or "").split():
                    mname, _, req = tok.partition(":")
                    self.extra_in.setdefault(mname, []).append((fld, req == "Y"))
        self.components = {}
        comps = root.find("components")
        if comps is not None:
            for c in comps:
                self.components[c.get("name")] = c
        self.header = self._members(root.find("header"))
        self.trailer = self._members(root.find("trailer"))
        self.messages = {}        # name -> dict(msgtype, admin, members)
        self.bytype = {}
        for m in root.find("messages"):
            mem = self._members(m)
            for fld, req in self.extra_in.get(m.get("name"), []):
                mem.append(Member(fld, req, len(mem) + 1))
            d = {"name": m.get("name"), "msgtype": m.get("msgtype"), "admin": m.get("msgcat") == "admin", "members": mem}
            self.messages[d["name"]] = d
            self.bytype[d["msgtype"]] = d

    def _expand(self, node, required_outer=True):
        """Flatten components: yields (xml element, effective required)."""
        for ch in node:
            if ch.tag == "component":
                comp = self.components[ch.get("name")]
                creq = ch.get("required") == "Y"
                for e, r in self._expand(comp):
                    yield e, (r and creq)
            elif ch.tag in ("field", "group"):
                yield ch, ch.get("required") == "Y"

    def _members(self, node):
        out = []
        if node is None:
            return out
        for e, req in self._expand(node):
            fld = self.fields[e.get("name")]
            grp = self._members(e) if e.tag == "group" else None
            out.append(Member(fld, req, len(out) + 1, grp))
        return out

    # ---- facts used by drivers and monitors ---------------------------------------------------
    def length_pairs(self):
        """[(LengthField, DataField)] by type: a LENGTH-typed field immediately followed by a DATA field."""
        res = []

        def walk(members):
            for a, b in zip(members, members[1:]):
                if a.field.type == "LENGTH" and b.field.type == "DATA":
                    res.append((a.field, b.field))
            for m in members:
                if m.group:
                    walk(m.group)
        walk(self.header)
        walk(self.trailer)
        for m in self.messages.values():
            walk(m["members"])
        seen, out = set(), []
        for a, b in res:
            if (a.number, b.number) not in seen:
                seen.add((a.number, b.number))
                out.append((a, b))
        return out

    def realms(self):
        return [f for f in self.bynum.values() if f.values]


UTEST_EXTRA = ("<field number='9999' name='SampleUserField'  type='STRING' messages='NewOrderSingle:N "
               "ExecutionReport:N OrderCancelRequest:Y' /> <field number='9991' name='SampleUserField2' "
               "type='STRING' messages='NewOrderSingle:N ExecutionReport:N OrderCancelRequest:Y' />")


def stock(which, repo="/repo"):
    repo = os.environ.get("VERIF_REPO", repo)
    if which == "utest":
        return Schema(os.path.join(repo, "schema", "FIX42UTEST.xml"), UTEST_EXTRA)
    if which == "fix44":
        return Schema(os.path.join(repo, "schema", "FIX44.xml"))
    raise KeyError(which)


if __name__ == "__main__":
    for w in ("utest", "fix44"):
        s = stock(w)
        print(w, s.beginstring, len(s.bynum), "fields", len(s.messages), "messages", len(s.realms()), "realms",
              [(a.name, b.name) for a, b in s.length_pairs()][:6])
