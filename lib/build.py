"""Build the probes from /repo's *current working tree*.

Objects are cached under /verif/.build/obj keyed by a hash of (source text, every header under
/repo/include and /verif/harness/src, flags), so an edit anywhere in the tree rebuilds what depends
on it and an unchanged tree costs nothing.  The prebuilt objects/libs in /repo are never used.
"""
import fcntl
import hashlib
import os
import subprocess
import sys
from concurrent.futures import ThreadPoolExecutor

REPO = os.environ.get("VERIF_REPO", "/repo")
VERIF = os.path.dirname(os.path.dirname(os.path.abspath(__file__)))
BUILD = os.path.join(VERIF, ".build")
HSRC = os.path.join(VERIF, "harness", "src")
GUARD = "FIX8_VERIF"

CXX = os.environ.get("VERIF_CXX", "g++")
BASE = ["-std=gnu++17", "-DHAVE_CONFIG_H", "-D%s=1" % GUARD, "-I" + REPO, "-I" + REPO + "/include",
        "-I" + REPO + "/runtime", "-I" + REPO + "/compiler", "-I" + HSRC, "-w", "-fno-omit-frame-pointer", "-pthread"]
VARIANTS = {
    "asan": ["-fsanitize=address,undefined", "-fno-sanitize-recover=undefined", "-fno-sanitize=alignment,vptr", "-O1", "-g1"],  # by design in fix8: misaligned 4-byte loads in calc_chksum; static_cast between same-layout Field<T,tag> typedefs of different schemas (vptr). Pass -fsanitize=alignment via defines to see the former
    "tsan": ["-fsanitize=thread", "-O1", "-g1"],
    "plain": ["-O1", "-g1"],
}
LIBS = ["-lPocoFoundation", "-lPocoNet", "-lPocoUtil", "-lz", "-ldl", "-lpthread"]

RUNTIME = ["configuration.cpp", "connection.cpp", "f8utils.cpp", "filepersist.cpp", "gzstream.cpp",
           "logger.cpp", "message.cpp", "persist.cpp", "session.cpp", "traits.cpp", "xml.cpp",
           "modp_numtoa.c"]
COMPILER = ["f8c.cpp", "f8cutils.cpp", "f8precomp.cpp"]

_hdr_hash = None


def _sha(*parts):
    h = hashlib.sha256()
    for p in parts:
        h.update(p if isinstance(p, bytes) else p.encode())
        h.update(b"\0")
    return h.hexdigest()


def _read_cfgfree(p):
    """File content; configure timestamps are dropped so that re-running configure does not
    invalidate the object cache."""
    with open(p, "rb") as fh:
        data = fh.read()
    if p.endswith(("f8config.h", "intermediate_config.h")):
        data = b"\n".join(l for l in data.split(b"\n") if b"CONFIGURE_" not in l)
    return data


def header_hash():
    """Hash of every header the probes can see (tree hash; cheap: ~250 files)."""
    global _hdr_hash
    if _hdr_hash is None:
        h = hashlib.sha256()
        roots = [os.path.join(REPO, "include"), os.path.join(REPO, "runtime"),
                 os.path.join(REPO, "compiler"), HSRC]
        for root in roots:
            for d, dirs, files in sorted(os.walk(root)):
                dirs.sort()
                if ".libs" in dirs:
                    dirs.remove(".libs")
                if ".deps" in dirs:
                    dirs.remove(".deps")
                for f in sorted(files):
                    if f.endswith((".hpp", ".h", ".tpp", ".hh")) or (root.endswith("ff") and "." not in f):
                        p = os.path.join(d, f)
                        h.update(p.encode())
                        h.update(_read_cfgfree(p))
        h.update(_read_cfgfree(os.path.join(REPO, "intermediate_config.h")))
        _hdr_hash = h.hexdigest()
    return _hdr_hash


class BuildError(Exception):
    pass


class _Lock:
    """Process-wide re-entrant file lock: concurrent checks share one object cache."""
    depth = 0
    f = None
    tl = __import__("threading").RLock()      # threads of one process build one at a time

    def __enter__(self):
        _Lock.tl.acquire()
        if _Lock.depth == 0:
            os.makedirs(BUILD, exist_ok=True)
            _Lock.f = open(os.path.join(BUILD, ".lock"), "w")
            fcntl.flock(_Lock.f, fcntl.LOCK_EX)
        _Lock.depth += 1

    def __exit__(self, *a):
        _Lock.depth -= 1
        if _Lock.depth == 0:
            fcntl.flock(_Lock.f, fcntl.LOCK_UN)
            _Lock.f.close()
        _Lock.tl.release()


def compile_obj(src, variant="asan", extra=()):
    """Compile one source file; returns the cached object path."""
    flags = BASE + VARIANTS[variant] + list(extra)
    with open(src, "rb") as fh:
        text = fh.read()
    key = _sha(text, header_hash(), " ".join(flags), src)
    out = os.path.join(BUILD, "obj", key[:2], key + ".o")
    if os.path.exists(out):
        return out
    os.makedirs(os.path.dirname(out), exist_ok=True)
    cc = CXX if not src.endswith(".c") else "gcc"
    fl = [f for f in flags if not (src.endswith(".c") and f.startswith("-std="))]
    tmp = out + ".tmp%d" % os.getpid()
    r = subprocess.run([cc] + fl + ["-c", src, "-o", tmp], capture_output=True, text=True)
    if r.returncode != 0:
        raise BuildError("compile failed: %s\n%s" % (src, r.stderr[-4000:]))
    os.replace(tmp, out)
    return out


def compile_many(srcs, variant="asan", extra=()):
    with ThreadPoolExecutor(max_workers=min(16, max(1, len(srcs)))) as ex:
        return list(ex.map(lambda s: compile_obj(s, variant, extra), srcs))


def link(name, objs, variant="asan", libs=()):
    key = _sha(*(sorted(objs) + [variant] + list(libs)))
    out = os.path.join(BUILD, "bin", "%s-%s-%s" % (name, variant, key[:16]))
    if os.path.exists(out):
        return out
    os.makedirs(os.path.dirname(out), exist_ok=True)
    fl = [f for f in VARIANTS[variant] if f.startswith("-fsanitize")]
    tmp = out + ".tmp%d" % os.getpid()
    r = subprocess.run([CXX] + fl + ["-o", tmp] + objs + list(libs) + LIBS + ["-rdynamic"],
                       capture_output=True, text=True)
    if r.returncode != 0:
        raise BuildError("link failed: %s\n%s" % (name, r.stderr[-4000:]))
    os.replace(tmp, out)
    return out


def runtime_objs(variant="asan", files=None, extra=()):
    files = RUNTIME if files is None else files
    return compile_many([os.path.join(REPO, "runtime", f) for f in files], variant, extra)


def f8c(variant="plain"):
    """The schema compiler, built from the working tree."""
    with _Lock():
        objs = compile_many([os.path.join(REPO, "compiler", f) for f in COMPILER], variant) + \
            runtime_objs(variant)
        return link("f8c", objs, variant, ["-lPocoJSON"])


UTEST_EXTRA = ("<field number='9999' name='SampleUserField'  type='STRING' messages='NewOrderSingle:N "
               "ExecutionReport:N OrderCancelRequest:Y' /> <field number='9991' name='SampleUserField2' "
               "type='STRING' messages='NewOrderSingle:N ExecutionReport:N OrderCancelRequest:Y' />")


def gen_schema(xml, prefix, ns, extra_fields=None, f8c_args=(), tag=None, second_only=True):
    """Run the freshly built f8c on a schema; returns the directory with the generated sources.
    Cached by (compiler binary, schema text, arguments)."""
    comp = f8c()
    with open(xml, "rb") as fh:
        text = fh.read()
    key = _sha(comp, text, prefix, ns, extra_fields or "", " ".join(f8c_args), str(second_only))
    out = os.path.join(BUILD, "gen", (tag or prefix) + "-" + key[:16])
    if os.path.exists(os.path.join(out, ".done")):
        return out
    os.makedirs(out, exist_ok=True)
    # -s = second pass only (no component expansion): what utests/Makefile.am uses for FIX42UTEST, which has
    # no components; schemas with components (FIX44, as built by stocklib/Makefile.am) need the full run
    cmd = [comp, "-sVp" if second_only else "-Vp", prefix, "-n", ns, "-o", out] + list(f8c_args) + [xml]
    if extra_fields:
        cmd += ["-F", extra_fields]
    env = dict(os.environ, ASAN_OPTIONS="detect_leaks=0")
    r = subprocess.run(cmd, capture_output=True, text=True, cwd=out, env=env, timeout=300)
    if r.returncode != 0:
        raise BuildError("f8c failed (%d) on %s\n%s\n%s" % (r.returncode, xml, r.stdout[-2000:], r.stderr[-2000:]))
    open(os.path.join(out, ".done"), "w").write(r.stdout)
    return out


def schema_objs(gendir, prefix, variant="asan"):
    srcs = [os.path.join(gendir, "%s_%s.cpp" % (prefix, s)) for s in ("types", "traits", "classes")]
    return compile_many(srcs, variant, ["-I" + gendir])


def stock_schema(which, variant="asan"):
    """(objects, include dir, namespace, header prefix) for FIX42UTEST ('utest') or FIX44 ('fix44')."""
    if which == "utest":
        d = gen_schema(os.path.join(REPO, "schema", "FIX42UTEST.xml"), "utest", "UTEST", UTEST_EXTRA)
        return schema_objs(d, "utest", variant), d, "UTEST", "utest"
    if which == "fix44":
        d = gen_schema(os.path.join(REPO, "schema", "FIX44.xml"), "fix44", "FIX44", second_only=False)
        return schema_objs(d, "fix44", variant), d, "FIX44", "fix44"
    raise KeyError(which)


def probe(name, variant="asan", runtime=None, schemas=(), extra_src=(), defines=(), libs=()):
    """Build harness/src/<name>.cpp against the working tree.  `schemas` is a list of stock schema
    names or (gendir, prefix, ns) triples whose generated code is linked in."""
    with _Lock():
        extra = list(defines)
        objs = []
        for s in schemas:
            if isinstance(s, str):
                o, d, ns, pfx = stock_schema(s, variant)
            else:
                d, pfx, ns = s
                o = schema_objs(d, pfx, variant)
            objs += o
            extra += ["-I" + d]
        srcs = [os.path.join(HSRC, name + ".cpp")] + [os.path.join(HSRC, s) for s in extra_src]
        objs += compile_many(srcs, variant, extra)
        objs += runtime_objs(variant, runtime)
        return link(name, objs, variant, libs)


def run_env(variant="asan"):
    env = dict(os.environ)
    env["ASAN_OPTIONS"] = "detect_leaks=0:abort_on_error=0:exitcode=97:detect_stack_use_after_return=0:allocator_may_return_null=1"
    env["UBSAN_OPTIONS"] = "print_stacktrace=1:halt_on_error=1:exitcode=97"
    env["TSAN_OPTIONS"] = "exitcode=98:halt_on_error=0:second_deadlock_stack=1:report_thread_leaks=0"
    return env


if __name__ == "__main__":
    what = sys.argv[1] if len(sys.argv) > 1 else "f8c"
    if what == "f8c":
        print(f8c())
    else:
        print(probe(what, *(sys.argv[2:3] or ["asan"])))
