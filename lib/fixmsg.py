"""Minimal FIX wire composer for fabricated counterparty messages (correct BodyLength / CheckSum)."""
SOH = "\x01"


def ts(sec_of_epoch, ms=0):
    import time
    t = time.gmtime(sec_of_epoch)
    return "%04d%02d%02d-%02d:%02d:%02d.%03d" % (t.tm_year, t.tm_mon, t.tm_mday, t.tm_hour, t.tm_min, t.tm_sec, ms)


def compose(msgtype, seq, sender, target, sending, body=(), possdup=False, orig=None, begin="FIX.4.2",
            bad_checksum=False, extra_header=(), header_first=()):
    """body / extra_header: sequences of (tag, value).  header_first: fields placed before MsgSeqNum."""
    h = [(35, msgtype)] + list(header_first) + [(49, sender), (56, target), (34, seq)]
    if possdup:
        h.append((43, "Y" if possdup is True else possdup))      # possdup="N": the flag is present but says no
    h.append((52, sending))
    if orig is not None:
        h.append((122, orig))
    h += list(extra_header)
    payload = "".join("%s=%s%s" % (t, v, SOH) for t, v in h + list(body))
    head = "8=%s%s9=%d%s" % (begin, SOH, len(payload), SOH)
    s = head + payload
    ck = sum(s.encode("latin-1")) % 256
    if bad_checksum:
        ck = (ck + 1) % 256
    return (s + "10=%03d%s" % (ck, SOH)).encode("latin-1")


def new_order(clordid):
    return [(11, clordid), (21, 1), (55, "BHP"), (54, 1), (60, "20230101-00:00:00"), (38, 100), (40, 2), (44, "47.78"), (59, 4)]


def split_stream(data):
    """Split a byte stream into complete FIX messages (8=...10=xxx<SOH>)."""
    out = []
    pos = 0
    while True:
        i = data.find(b"\x0110=", pos)
        if i < 0:
            break
        j = data.find(b"\x01", i + 1)
        if j < 0:
            break
        out.append(data[pos:j + 1])
        pos = j + 1
    return out


def parse(wire):
    """tag -> value (last occurrence) of a FIX message."""
    d = {}
    for tok in wire.decode("latin-1").split(SOH):
        if "=" in tok:
            t, v = tok.split("=", 1)
            d[t] = v
    return d


def epoch(tsv):
    import calendar
    import time
    return calendar.timegm(time.strptime(tsv[:17], "%Y%m%d-%H:%M:%S"))
