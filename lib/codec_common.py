"""Shared driver for C01 / C02 / C11 (DESIGN.md 5.1, 6; spec/Codec.tla, spec/CodecOps.tla, spec/T_Codec.tla).

Pipeline: TLC checks the codec design spec and exports every message shape with a build order (LEAF
lines); the shapes are instantiated on the real message types of FIX42UTEST and FIX44 together with
seeded structured/random messages; probe_codec builds, encodes, decodes, re-encodes, clones and
transfers each of them on the real library; TLC (T_Codec) judges every recorded execution.

All schema facts (sections, positions, mandatory flags, group membership, first fields, types,
enumerated values) come from lib/schema.py, the independent reader of the schema XML.
"""
import hashlib
import json
import os
import random
import shutil
import time
from concurrent.futures import ThreadPoolExecutor

import build
import core
import schema
import tlc

NS = {"utest": "UTEST", "fix44": "FIX44"}
PROBE = ("probe_codec", "asan", None, ["utest", "fix44"])
DERIVED = {8, 9, 35, 10}
MAXBYTES = 5200          # keep generated messages far below FIX8_MAX_MSG_LENGTH (8192): larger ones are C03's
SOH = "\x01"

_SCH = {}


def sch(name):
    if name not in _SCH:
        _SCH[name] = schema.stock(name)
    return _SCH[name]


_BIN = []


def probe_binary():
    if not _BIN:                   # build (or find in the object cache) once per check run
        _BIN.append(build.probe(*PROBE[:2], runtime=PROBE[2], schemas=PROBE[3]))
    return _BIN[0]


# ---------------------------------------------------------------------------------------------------
# schema facts for the monitor
INTS = {"INT", "LENGTH", "SEQNUM", "NUMINGROUP", "TAGNUM", "DAYOFMONTH"}
FLOATS = {"FLOAT", "QTY", "QUANTITY", "PRICE", "PRICEOFFSET", "AMT", "PERCENTAGE"}
DATES = {"UTCDATE", "UTCDATEONLY", "LOCALMKTDATE"}


def typeclass(fld):
    t = fld.type.strip().upper()
    if t in INTS:
        return "int"
    if t in FLOATS:
        return "float"
    if t == "CHAR":
        return "char"
    if t == "BOOLEAN":
        return "boolean"
    if t == "UTCTIMESTAMP":
        return "timestamp"
    if t in ("UTCTIMEONLY", "UTCTIME"):
        return "timeonly"
    if t in DATES:
        return "date"
    if t == "MONTHYEAR":
        return "monthyear"
    if t == "DATA":
        return "data"
    return "string"


def schema_json(s):
    """The schema as CodecOps expects it: container id -> first field and tag -> [position, mandatory, group id]."""
    defs = {}

    def add(cid, members):
        f = {}
        for m in members:
            g = ""
            if m.group is not None:
                g = "%s/%d" % (cid, m.field.number)
                add(g, m.group)
            f[str(m.field.number)] = [m.pos, 1 if m.required else 0, g]
        defs[cid] = {"first": members[0].field.number if members else 0, "f": f}
    add("H", s.header)
    add("T", s.trailer)
    msgs = {}
    for m in s.messages.values():
        cid = "M" + m["msgtype"]
        add(cid, m["members"])
        msgs[m["msgtype"]] = cid
        # fields injected with f8c -F (FIX42UTEST's 9999/9991) have no place in the schema XML: where f8c puts them
        # inside the body is its own choice, so their position is not judged (position 0 = anywhere in the section)
        for fld, _req in s.extra_in.get(m["name"], []):
            defs[cid]["f"][str(fld.number)][0] = 0
    types = {str(n): typeclass(f) for n, f in s.bynum.items()}
    return {"hdr": "H", "trl": "T", "msgs": msgs, "defs": defs, "types": types}


def write_schema_file(ctx):
    p = os.path.join(ctx.workdir, "codec_schema.json")
    with open(p + ".tmp", "w") as fh:
        json.dump({k: schema_json(sch(k)) for k in NS}, fh, separators=(",", ":"))
    os.replace(p + ".tmp", p)
    return p


# ---------------------------------------------------------------------------------------------------
# values per type class (canonical texts: what a correct encoder renders for the value)
BIGINT = 2147483600      # from here on fast_atoi<int>'s "10 * prefix + character" exceeds INT_MAX before '0' is subtracted
PRINTABLE = "".join(chr(c) for c in range(0x20, 0x7f))
MDAYS = [31, 28, 31, 30, 31, 30, 31, 31, 30, 31, 30, 31]


class Gen:
    """Seeded value/message generator.  neg_ok / late_ok: whether negative integers and dates after
    2038-01-19 may be used (they are first tried in isolated canary executions)."""

    def __init__(self, rng, neg_ok=False, late_ok=False, big_ok=False, hdrgrp_ok=True):
        self.rng, self.neg_ok, self.late_ok, self.big_ok, self.hdrgrp_ok = rng, neg_ok, late_ok, big_ok, hdrgrp_ok

    def date(self, late=None):
        r = self.rng
        late = self.late_ok and r.random() < 0.35 if late is None else late
        y = r.randint(2039, 2099) if late else r.choice([1970, 1971, 1999, 2000, 2024, 2037, r.randint(1970, 2037)])
        mo = r.randint(1, 12)
        leap = y % 4 == 0 and (y % 100 != 0 or y % 400 == 0)
        d = r.randint(1, MDAYS[mo - 1] + (1 if leap and mo == 2 else 0))
        if r.random() < 0.1:
            mo, d = r.choice([(1, 1), (2, 28), (12, 31), (3, 1)] + ([(2, 29)] if leap else []))
        return y, mo, d

    def tod(self):
        r = self.rng
        return r.choice([(0, 0, 0, 0), (23, 59, 59, 999), (12, 0, 0, 1),
                         (r.randint(0, 23), r.randint(0, 59), r.randint(0, 59), r.randint(0, 999))])

    def value(self, fld, late=None, neg=None, big=None):
        """(text, flags) for a field; flags in {"neg", "late", "big"}."""
        r = self.rng
        tc = typeclass(fld)
        flags = set()
        enum = [v for v, _ in fld.values if v is not None and v != ""]
        if tc == "char":
            enum = [v for v in enum if len(v) == 1]     # FIX44 lists "10".."12"/"99" for two CHAR fields: not in the type's domain
        if enum and tc in ("int", "char", "string", "boolean"):
            v = r.choice(enum)
            if tc == "int":
                try:
                    v = str(int(v))
                except ValueError:
                    pass
            return v, flags
        if tc == "int":
            t = fld.type.strip().upper()
            if t == "DAYOFMONTH":
                return str(r.randint(1, 31)), flags
            n = r.choice([0, 1, 7, 10, 42, 99, 100, 65535, 65536, 999999999, BIGINT - 1, r.randint(0, 10 ** 9)])
            want_neg = (self.neg_ok and r.random() < 0.2) if neg is None else neg
            want_big = (self.big_ok and r.random() < 0.1) if big is None else big
            if t == "INT" and want_neg:
                n = r.choice([-1, -7, -10, -42, -2147483648, -2147483647, -r.randint(1, 10 ** 9)])
                flags.add("neg")
            elif want_big:
                n = r.choice([2147483647, 2147483646, BIGINT, r.randint(BIGINT, 2147483647)])
                flags.add("big")
            return str(n), flags
        if tc == "float":
            whole = r.choice([0, 1, 9, 10, 12, 100, 99999, 1234567, 999999999, r.randint(0, 10 ** 6)])
            frac = r.choice([0, 1, 5, 10, 25, 50, 99, r.randint(0, 99)])
            sign = "-" if (r.random() < 0.15 and (whole or frac)) else ""
            if frac == 0:
                ft = "0"
            elif frac % 10 == 0:
                ft = str(frac // 10)
            else:
                ft = "%02d" % frac
            return "%s%d.%s" % (sign, whole, ft), flags
        if tc == "char":
            return r.choice(PRINTABLE[1:]), flags
        if tc == "boolean":
            return r.choice("YN"), flags
        if tc == "timestamp":
            y, mo, d = self.date(late)
            h, mi, s_, ms = self.tod()
            if y > 2037:
                flags.add("late")
            return "%04d%02d%02d-%02d:%02d:%02d.%03d" % (y, mo, d, h, mi, s_, ms), flags
        if tc == "timeonly":
            return "%02d:%02d:%02d.%03d" % self.tod(), flags
        if tc == "date":
            y, mo, d = self.date(late)
            if y > 2037:
                flags.add("late")
            return "%04d%02d%02d" % (y, mo, d), flags
        if tc == "monthyear":
            y, mo, d = self.date(late)
            if y > 2037:
                flags.add("late")
            return ("%04d%02d" % (y, mo)) if r.random() < 0.5 else ("%04d%02d%02d" % (y, mo, d)), flags
        return self.string(), flags

    def string(self):
        r = self.rng
        k = r.random()
        if k < 0.03:
            return PRINTABLE                                   # every printable byte, '=' included
        if k < 0.08:
            n = r.randint(60, 300)
        else:
            n = r.randint(1, 24)
        s = "".join(r.choice(PRINTABLE) for _ in range(n))
        if r.random() < 0.15:
            s = s[: len(s) // 2] + "=" + s[len(s) // 2:]
        return s


# ---------------------------------------------------------------------------------------------------
# messages.  A container is a list of fields [tag, text, [elements]] in schema order (the "want" tree);
# a Spec carries the tree, the build commands (an insertion order) and classification hints.
class Spec:
    def __init__(self, schname, mt, kind):
        self.sch, self.mt, self.kind = schname, mt, kind
        self.want = {"h": [], "b": [], "t": []}
        self.ops = []
        self.neg, self.late, self.big = set(), set(), set()
        self.hints = set()       # input classes present in this message that name a known weakness (signatures only)
        self.abstract = None

    def size(self):
        def sz(c):
            return sum(len(str(f[0])) + len(f[1]) + 2 + sum(sz(e) for e in f[2]) for f in c)
        return 30 + sum(sz(self.want[k]) for k in "hbt")


def _pairs(members):
    """Indices i such that members[i] is a LENGTH immediately followed by its DATA field."""
    return {i for i in range(len(members) - 1)
            if members[i].field.type.strip().upper() == "LENGTH" and members[i + 1].field.type.strip().upper() == "DATA"}


def fill(gen, spec, members, choose, counts, depth, budget, section):
    """Fields of one container in schema order.  choose(member, depth) -> include this optional member?
    counts(member, depth) -> number of elements of a group."""
    out = []
    pairs = _pairs(members)
    skip = False
    for i, m in enumerate(members):
        if skip:
            skip = False
            continue
        num = m.field.number
        if depth == 0 and section in "ht" and num in DERIVED:
            continue
        first = depth > 0 and i == 0                    # an element always starts with the group's first field
        if i in pairs:
            d = members[i + 1]
            if m.required or d.required or choose(m, depth):
                data = gen.string()
                out.append([num, str(len(data)), []])
                out.append([d.field.number, data, []])
                budget[0] -= len(data) + 20
            skip = True
            continue
        if not (m.required or first or choose(m, depth)):
            continue
        if m.group is not None:
            if section == "h" and not gen.hdrgrp_ok and not m.required:
                continue
            k = counts(m, depth) if budget[0] > 200 else 0
            els = []
            for _ in range(k):
                if budget[0] < 100:
                    break
                els.append(fill(gen, spec, m.group, choose, counts, depth + 1, budget, section))
            out.append([num, str(len(els)), els])
            if not els and typeclass(m.field) != "int":
                spec.hints.add("zero_count_in_non_int_count_field")
            if els and section == "h":
                spec.hints.add("header_group")
            budget[0] -= 8
            continue
        if budget[0] < 60 and not (m.required or first):
            continue
        text, flags = gen.value(m.field)
        if "neg" in flags:
            spec.neg.add(num)
        if "late" in flags:
            spec.late.add(num)
        if "big" in flags:
            spec.big.add(num)
        if m.field.type.strip().upper() == "LENGTH":
            spec.hints.add("length_field_without_data")
        out.append([num, text, []])
        budget[0] -= len(text) + 8
    return out


def ops_for(rng, container, path, order):
    """Build commands for one container.  order: "schema" | "reverse" | "shuffle".  A group contributes
    its count field and, per element, an "e" command followed by the element's own commands; elements
    of one group are created in index order."""
    units = []
    for f in container:
        tag, text, els = f
        units.append([("f", path, tag, text)])
        for j, el in enumerate(els):
            units.append(("el", tag, j, [("e", path, tag)] + ops_for(rng, el, "%s/%d.%d" % (path, tag, j), order)))
    if order == "reverse":
        units.reverse()
    elif order == "shuffle":
        rng.shuffle(units)
    # restore index order among the element blocks of each group
    slots = {}
    for idx, u in enumerate(units):
        if isinstance(u, tuple):
            slots.setdefault(u[1], []).append(idx)
    for tag, idxs in slots.items():
        blocks = sorted((units[i] for i in idxs), key=lambda u: u[2])
        for i, b in zip(idxs, blocks):
            units[i] = b
    out = []
    for u in units:
        out += u[3] if isinstance(u, tuple) else u
    return out


def finish(sp):
    """Hints that depend on the whole message."""
    s = sch(sp.sch)
    extra = {f.number for f, _ in s.extra_in.get(s.bytype[sp.mt]["name"], [])}
    if len(extra & {f[0] for f in sp.want["b"]}) > 1:
        sp.hints.add("fields_without_schema_position")
    return sp


def make_spec(gen, schname, mt, kind, choose, counts, order):
    s = sch(schname)
    sp = Spec(schname, mt, kind)
    budget = [MAXBYTES]
    sp.want["h"] = fill(gen, sp, s.header, choose, counts, 0, budget, "h")
    sp.want["t"] = fill(gen, sp, s.trailer, choose, counts, 0, budget, "t")
    sp.want["b"] = fill(gen, sp, s.bytype[mt]["members"], choose, counts, 0, budget, "b")
    rng = gen.rng
    parts = [ops_for(rng, sp.want[k], k, order) for k in "hbt"]
    if order == "shuffle" and rng.random() < 0.5:
        # interleave the three sections as well
        merged = []
        while any(parts):
            p = rng.choice([q for q in parts if q])
            merged.append(p.pop(0))
        sp.ops = merged
    else:
        if order == "reverse":
            parts.reverse()
        sp.ops = [o for p in parts for o in p]
    return finish(sp)


def group_depth(members):
    return max([1 + group_depth(m.group) for m in members if m.group is not None] + [0])


def structured_specs(gen, schname, per_type_random, max_count):
    """mandatory-only, all-optional and random-subset messages of every message type."""
    rng = gen.rng
    out = []
    s = sch(schname)
    for mt in sorted(s.bytype):
        out.append(make_spec(gen, schname, mt, "mandatory_only", lambda m, d: False, lambda m, d: 1, "schema"))
        out.append(make_spec(gen, schname, mt, "all_optional", lambda m, d: True,
                             lambda m, d: (2 if d == 0 else 1), rng.choice(["reverse", "shuffle"])))
        for _ in range(per_type_random):
            p = rng.choice([0.15, 0.4, 0.7])
            out.append(make_spec(gen, schname, mt, "random_subset", lambda m, d, p=p: rng.random() < p,
                                 lambda m, d: rng.choice([0, 1, 1, 2, 2, max_count]), "shuffle"))
    return out


def deep_specs(gen, schname, n):
    """Messages that follow the deepest group nesting of the schema with 1-2 elements per level."""
    rng = gen.rng
    s = sch(schname)
    types = sorted(s.bytype, key=lambda mt: -group_depth(s.bytype[mt]["members"]))
    types = [mt for mt in types if group_depth(s.bytype[mt]["members"]) >= max(1, group_depth(s.bytype[types[0]]["members"]) - 1)]
    out = []
    for i in range(n):
        mt = types[i % len(types)]
        out.append(make_spec(gen, schname, mt, "deep_groups",
                             lambda m, d: m.group is not None or rng.random() < 0.2,
                             lambda m, d: rng.choice([1, 2]), "shuffle"))
    return out


# ---------------------------------------------------------------------------------------------------
# TLC shapes -> real messages
def shape_of(hist):
    """Summarise a LEAF history of Codec.tla: which roles are present and the group structure."""
    sh = {"h50": False, "b11": False, "neg": False, "t93": False, "G": None}
    for o in hist:
        p, t = o["path"], o["tag"]
        if o["op"] == "F":
            if p == ["h"] and t == 50:
                sh["h50"] = True
            elif p == ["b"] and t == 11:
                sh["b11"], sh["neg"] = True, o["neg"]
            elif p == ["t"] and t == 93:
                sh["t93"] = True
            elif len(p) == 3 and t == 66:
                sh["G"][p[2]]["o"] = True
            elif len(p) == 5 and t == 79:
                sh["G"][p[2]]["N"][p[4]]["o"] = True
        elif o["op"] == "G":
            if p == ["b"]:
                sh["G"] = []
            else:
                sh["G"][p[2]]["N"] = []
        elif o["op"] == "E":
            if p == ["b"]:
                sh["G"].append({"o": False, "N": None})
            else:
                sh["G"][p[2]]["N"].append({"o": False})
    return sh


def instantiate(gen, hist, schname, mt):
    """A real message with the shape of a TLC history: role 34/55/67/80 = the mandatory fields of the
    container, 50/11/66/79/93 = a non-empty subset of its optional fields, 73 = one body group of the
    message type, 78 = a group nested in it.  The build order follows the history: the commands of a role are
    issued where the history adds that role.  Returns None if the type lacks the structure."""
    rng = gen.rng
    s = sch(schname)
    sh = shape_of(hist)
    body = s.bytype[mt]["members"]
    groups = [m for m in body if m.group is not None]
    G = N = None
    if sh["G"] is not None:
        if not groups:
            return None
        nested = [m for m in groups if any(x.group is not None for x in m.group)]
        need_n = any(e["N"] is not None for e in sh["G"])
        if need_n and not nested:
            return None
        G = rng.choice(nested if need_n else groups)
        if need_n:
            # an element without the nested group must be legal: if some element of the shape lacks it, it must be optional
            lacks = any(e["N"] is None for e in sh["G"])
            cand = [x for x in G.group if x.group is not None and not (lacks and x.required)]
            if not cand:
                return None
            N = rng.choice(cand)
    sp = Spec(schname, mt, "tlc_shape")
    sp.abstract = sh
    budget = [MAXBYTES]
    opt_pick = {}

    def chooser(role_on, keep_groups=()):
        def choose(m, d):
            if m.group is not None:
                return False
            return role_on and rng.random() < 0.35
        return choose
    one = lambda m, d: 1
    sp.want["h"] = fill(gen, sp, s.header, chooser(sh["h50"]), one, 0, budget, "h")
    sp.want["t"] = fill(gen, sp, s.trailer, chooser(sh["t93"]), one, 0, budget, "t")
    sp.want["b"] = fill(gen, sp, [m for m in body if m is not G], chooser(sh["b11"]), one, 0, budget, "b")
    if sh["neg"] and sh["b11"]:
        ints = [m for m in body if m.group is None and m.field.type.strip().upper() == "INT" and not m.field.values]
        if ints:
            m = rng.choice(ints)
            text, fl = gen.value(m.field, neg=True)
            sp.want["b"] = [f for f in sp.want["b"] if f[0] != m.field.number] + [[m.field.number, text, []]]
            sp.neg.add(m.field.number)
    if G is not None:
        els = []
        for e in sh["G"]:
            el = fill(gen, sp, [x for x in G.group if x is not N], chooser(e["o"]), one, 1, budget, "b")
            if N is not None and e["N"] is not None:
                nels = [fill(gen, sp, N.group, chooser(ne["o"]), one, 2, budget, "b") for ne in e["N"]]
                el.append([N.field.number, str(len(nels)), nels])
            els.append(el)
        sp.want["b"].append([G.field.number, str(len(els)), els])
    # sort containers into schema order (the want tree is compared order-insensitively anyway)
    pos = {m.field.number: m.pos for m in body}
    sp.want["b"].sort(key=lambda f: pos.get(f[0], 0))
    # build order: follow the history role by role
    by_role = {}

    def role_ops(container, path, mand_tags, gtag):
        mand, opt, grp = [], [], []
        for f in container:
            if f[0] == gtag:
                grp.append(f)
            elif f[0] in mand_tags:
                mand.append(f)
            else:
                opt.append(f)
        return mand, opt, grp

    def mand_set(members):
        st = {m.field.number for m in members if m.required}
        prs = _pairs(members)
        for i in prs:
            if members[i].required or members[i + 1].required:
                st |= {members[i].field.number, members[i + 1].field.number}
        return st
    cmds = []
    done = set()

    def emit(fields, path):
        fields = list(fields)
        rng.shuffle(fields)
        for f in fields:
            cmds.extend(ops_for(rng, [f], path, "shuffle"))
    hm, ho, _ = role_ops(sp.want["h"], "h", mand_set(s.header), None)
    bm, bo, bg = role_ops(sp.want["b"], "b", mand_set(body), G.field.number if G else None)
    tm, to_, _ = role_ops(sp.want["t"], "t", mand_set(s.trailer), None)
    if not sh["b11"]:
        bm, bo = bm + bo, []
    if not sh["h50"]:
        hm, ho = hm + ho, []
    gfirst = G.group[0].field.number if G else None
    nfirst = N.group[0].field.number if N else None
    for o in hist:
        p, t, op = o["path"], o["tag"], o["op"]
        if op == "F" and p == ["h"]:
            emit(hm if t == 34 else ho, "h")
        elif op == "F" and p == ["t"]:
            emit(tm + to_, "t")
        elif op == "F" and p == ["b"]:
            emit(bm if t == 55 else bo, "b")
        elif op == "G" and p == ["b"]:
            cmds.append(("f", "b", bg[0][0], bg[0][1]))
        elif op == "E" and p == ["b"]:
            cmds.append(("e", "b", bg[0][0]))
        elif len(p) == 3:
            el = bg[0][2][p[2]]
            path = "b/%d.%d" % (bg[0][0], p[2])
            ntag = N.field.number if N else None
            em = [f for f in el if f[0] != ntag and (f[0] == gfirst or f[0] in mand_set(G.group))]
            eo = [f for f in el if f[0] != ntag and f not in em]
            if not any(x["o"] for x in [sh["G"][p[2]]]):
                em, eo = em + eo, []
            if op == "F":
                emit(em if t == 67 else eo, path)
            elif op == "G":
                nf = [f for f in el if f[0] == ntag][0]
                cmds.append(("f", path, nf[0], nf[1]))
            elif op == "E":
                cmds.append(("e", path, ntag))
        elif len(p) == 5:
            nf = [f for f in bg[0][2][p[2]] if f[0] == N.field.number][0]
            nel = nf[2][p[4]]
            path = "b/%d.%d/%d.%d" % (bg[0][0], p[2], N.field.number, p[4])
            nm = [f for f in nel if f[0] == nfirst or f[0] in mand_set(N.group)]
            no = [f for f in nel if f not in nm]
            if not sh["G"][p[2]]["N"][p[4]]["o"]:
                nm, no = nm + no, []
            emit(nm if t == 80 else no, path)
    # the trailer's mandatory part is only CheckSum (derived); make sure every wanted field is built
    built = {(c[1], c[2]) for c in cmds if c[0] == "f"}
    for k in "hbt":
        for f in sp.want[k]:
            if (k, f[0]) not in built:
                cmds.extend(ops_for(rng, [f], k, "shuffle"))
    sp.ops = cmds
    return finish(sp)


# ---------------------------------------------------------------------------------------------------
# the design model (cached by the text of the spec files: an unchanged spec proves the same thing)
def model(ctx, cfg, props, expect_violation=False, use_cache=True, workers=8):
    files = ["Codec.tla", "CodecOps.tla", cfg]
    h = hashlib.sha256()
    for f in files:
        with open(os.path.join(tlc.SPEC, f), "rb") as fh:
            h.update(fh.read())
    h.update(str(os.path.getmtime(tlc.JAR.split(":")[0])).encode())
    cdir = os.path.join(core.BUILD, "codec_model")
    os.makedirs(cdir, exist_ok=True)
    cp = os.path.join(cdir, h.hexdigest()[:24] + ".json")
    use_cache = use_cache and ctx.quick and not os.environ.get("VERIF_NOCACHE")
    if use_cache and os.path.exists(cp):
        with open(cp) as fh:
            r = json.load(fh)
        r["cached"] = True
    else:
        r = tlc.check("Codec.tla", cfg, workers=workers, timeout=1500)
        r = {"ok": r["ok"], "violated": r["violated"], "stats": r["stats"], "wall": r["wall"], "cmd": r["cmd"],
             "leaves": tlc.leaves(r["out"]), "cached": False}
        with open(cp + ".tmp", "w") as fh:
            json.dump(r, fh)
        os.replace(cp + ".tmp", cp)
    if expect_violation:
        if r["ok"]:
            raise core.Infra("deviation config %s violates nothing: the invariants are vacuous" % cfg)
        ctx.extra.setdefault("deviation_witnesses", {})[cfg] = r["violated"]
    else:
        if not r["ok"]:
            raise core.Infra("design spec Codec.tla violates %s under %s" % (r["violated"], cfg))
        ctx.add_model(r, "Codec.tla", cfg, props)
        if r["cached"]:
            ctx.model_runs[-1]["cached_result_of_identical_spec"] = True
    return r


# ---------------------------------------------------------------------------------------------------
# wire bytes -> tokens (part of the trusted base; 20 lines)
def tokenize(raw):
    """[[tag, tag length, tag byte sum, value length, value byte sum, value as number or -1] ...]."""
    toks = []
    parts = raw.split(b"\x01")
    tail = parts.pop()
    for p in parts:
        tag, eq, val = p.partition(b"=")
        if not eq or not tag.isdigit() or len(tag) > 9:
            toks.append([-1, len(tag), sum(tag), len(val), sum(val), -1])
            continue
        iv = int(val) if (val.isdigit() and len(val) <= 9) else -1
        toks.append([int(tag), len(tag), sum(tag), len(val), sum(val), iv])
    if tail:
        toks.append([-2, 0, 0, len(tail), sum(tail), -1])
    return toks


def digest(raw):
    d = hashlib.sha256(raw).digest()
    return {"len": len(raw), "h1": int.from_bytes(d[:4], "big") >> 2, "h2": int.from_bytes(d[4:8], "big") >> 2}


# ---------------------------------------------------------------------------------------------------
# running the probe
STEPS = {"C01": ["dump built", "encode", "decode", "reencode"],
         "C02": ["dump built", "encode"],
         "C11": ["dump built", "encode", "clone", "copy", "move"],
         # every other C11 message: the source of clone / copy_legal / move_legal is the message the factory decoded
         "C11dec": ["dump built", "encode", "clone", "copy", "decode", "usedec", "clone", "copy", "move"]}


def commands(sp, prop):
    out = ["ctx %s" % NS[sp.sch], "reset {}", "new %s" % sp.mt.encode().hex()]
    for o in sp.ops:
        if o[0] == "f":
            out.append("f %s %d %s" % (o[1], o[2], o[3].encode("latin-1").hex() or "-"))
        else:
            out.append("e %s %d" % (o[1], o[2]))
    steps = STEPS[prop]
    if prop == "C11" and (len(sp.ops) + sum(len(str(o[-1])) for o in sp.ops)) % 2:
        steps = STEPS["C11dec"]
    return out + steps + ["end"]


def _run_batch(binary, env, batch, prop, wd):
    """Run specs in one process; on an abort re-run the culprit alone once and continue behind it.
    Returns {index in batch: (events | None, abort report | None)} and the number of transient aborts."""
    res, transient = {}, 0
    todo = list(range(len(batch)))
    guard = 0
    while todo:
        guard += 1
        if guard > 40:
            raise core.Infra("probe_codec keeps aborting")
        lines = []
        for i in todo:
            lines += commands(batch[i], prop)
        lines.append("quit")
        evs, rc, err = core.run_probe(binary, "\n".join(lines) + "\n", env, timeout=900, cwd=wd)
        groups, cur = [], None
        for ev in evs:
            if ev["e"] == "Error":
                raise core.Infra("probe_codec: %s" % ev)
            if ev["e"] == "Reset":
                cur = []
                groups.append(cur)
            elif cur is not None:
                cur.append(ev)
        if rc == 0:
            if len(groups) != len(todo):
                raise core.Infra("probe_codec answered %d of %d executions" % (len(groups), len(todo)))
            for i, g in zip(todo, groups):
                res[i] = (g, None)
            break
        if not groups:
            raise core.Infra("probe_codec died before the first execution (rc %d): %s" % (rc, err[-800:]))
        k = len(groups) - 1                      # the execution in progress is the culprit
        for i, g in zip(todo[:k], groups[:k]):
            res[i] = (g, None)
        culprit = todo[k]
        evs2, rc2, err2 = core.run_probe(binary, "\n".join(commands(batch[culprit], prop) + ["quit"]) + "\n", env,
                                         timeout=300, cwd=wd)
        if rc2 == 0:
            transient += 1
            res[culprit] = ([e for e in evs2 if e["e"] not in ("Reset", "Ctx")], None)
        else:
            res[culprit] = ([e for e in evs2 if e["e"] not in ("Reset", "Ctx")], core.san_report(err2, 2500) or "rc %d" % rc2)
        todo = todo[k + 1:]
    return res, transient


def run_specs(ctx, specs, prop, name, isolate=False):
    binary = probe_binary()
    env = build.run_env()
    # a small quarantine keeps the ASan allocator from touching fresh pages for every field object (10x faster)
    env["ASAN_OPTIONS"] += ":quarantine_size_mb=16"
    wd = os.path.join(ctx.workdir, name)
    shutil.rmtree(wd, ignore_errors=True)
    os.makedirs(wd)
    if isolate:                      # one process per execution (canaries: an abort must not take others along)
        nproc = min(8, max(1, len(specs)))
        parts = [[i] for i in range(len(specs))]
    else:
        nproc = min(8, max(1, len(specs) // 40))
        parts = [list(range(len(specs)))[i::nproc] for i in range(nproc)]

    def one(pi):
        return _run_batch(binary, env, [specs[i] for i in parts[pi]], prop, wd)
    with ThreadPoolExecutor(max_workers=nproc) as ex:
        outs = list(ex.map(one, range(len(parts))))
    raw = [None] * len(specs)
    for pi, (res, transient) in enumerate(outs):
        if transient:
            ctx.extra["transient_probe_aborts"] = ctx.extra.get("transient_probe_aborts", 0) + transient
        for j, v in res.items():
            raw[parts[pi][j]] = v
    shutil.rmtree(wd, ignore_errors=True)
    return raw


EXC_IDS = [("Value size too large", "value_size"), ("Unable to extract fixed width", "fixed_width"),
           ("First Field in a Repeating Group", "group_first_field"), ("Checksum", "checksum"), ("checksum", "checksum"),
           ("Missing Mandatory", "missing_mandatory"), ("Duplicate", "duplicate_field"), ("Invalid Repeating Group", "invalid_group"),
           ("Invalid Message", "invalid_message"), ("Unknown Field", "unknown_field")]


def exc_id(text):
    """Short name of the library exception a step ended with (projection of its text, for signatures)."""
    for needle, name in EXC_IDS:
        if needle in text:
            return name
    return "other"


def to_monitor(sp, evs, prop):
    """Project the probe's events of one execution onto the monitor alphabet."""
    empty = {"h": [], "b": [], "t": []}
    out = [{"e": "Reset", "prop": prop, "sch": sp.sch, "mt": sp.mt,
            "want": sp.want if prop in ("C01", "C11") else empty,
            "neg": sorted(sp.neg), "late": sorted(sp.late), "big": sorted(sp.big), "hint": "+".join(sorted(sp.hints))}]
    bad = 0
    ok = True
    for ev in evs:
        e = ev["e"]
        if e in ("New", "Field", "Element"):
            if not ev.get("ok"):
                ok = False
                bad = bad or ev.get("tag", -1)
        elif e == "Tree":
            out.append({"e": "Built", "ok": ok and ev.get("ok", False), "bad": bad,
                        "tree": ev.get("tree", empty) if prop != "C02" else empty})
        elif e in ("Encode", "Reencode", "Clone", "CloneDec"):
            m = {"e": e, "ok": bool(ev.get("ok")), "len": 0, "h1": 0, "h2": 0}
            if ev.get("ok"):
                rawb = bytes.fromhex(ev["hex"])
                m.update(digest(rawb))
                if e == "Encode":
                    m["toks"] = tokenize(rawb) if prop == "C02" else []
            elif e == "Encode":
                m["toks"] = []
            if "exc" in ev:
                m["exc"] = ev["exc"][:120]
            if e in ("Clone", "CloneDec"):
                m["tree"] = ev.get("tree", empty)
            out.append(m)
        elif e in ("Decode", "CopyLegal", "MoveLegal", "CopyLegalDec", "MoveLegalDec"):
            m = {"e": e, "ok": bool(ev.get("ok")), "tree": ev.get("tree", empty), "excid": ""}
            if "exc" in ev:
                m["exc"] = ev["exc"][:120]
                m["excid"] = exc_id(ev["exc"])
            out.append(m)
    return out


def abstract_case(sp, mon):
    """Abstract event sequence of one execution (for counting distinct non-trivial cases): message type,
    shape of the tree (tags and element counts, no values), build order of tags, outcome flags."""
    def shape(c):
        return [[f[0], [shape(e) for e in f[2]]] for f in c]
    return [sp.sch, sp.mt, sp.kind, {k: shape(sp.want[k]) for k in "hbt"}, [(o[0], o[1], o[2]) for o in sp.ops],
            [(m["e"], m.get("ok")) for m in mon[1:]]]


def validate(ctx, execs, name, chunks=8):
    """tlc.validate_execs with the SCHEMA side file in the environment (tlc.validate_execs has no env
    parameter; same splitting and bookkeeping)."""
    schema_file = write_schema_file(ctx)
    n = len(execs)
    if n == 0:
        return [], {"stats": {"distinct": 0, "generated": 0}, "wall": 0, "cmd": "", "lines": 0}
    chunks = max(1, min(chunks, n))
    bounds = [(i * n // chunks, (i + 1) * n // chunks) for i in range(chunks)]

    def one(i):
        lo, hi = bounds[i]
        path = os.path.join(ctx.workdir, "%s.%d.ndjson" % (name, i))
        flat, starts = [], []
        for ex in execs[lo:hi]:
            starts.append(len(flat))
            flat.extend(ex)
        core.write_trace(path, flat)
        v = tlc.validate("T_Codec.tla", "T_Codec.cfg", path, 1200, "3g", env={"SCHEMA": schema_file})
        if v["consumed"] != len(flat) or v["lines"] != len(flat) or v["execs"] != hi - lo:
            raise tlc.TLCError("monitor consumed %s of %d lines, %s of %d executions (%s)" % (
                v.get("consumed"), len(flat), v.get("execs"), hi - lo, path))
        out = []
        for f in v["fails"]:
            f = dict(f)
            f["pos"] = f["line"] - 1 - starts[f["exec"] - 1]
            f["exec"] = lo + f["exec"] - 1
            f["event"] = flat[f["line"] - 1]
            out.append(f)
        os.unlink(path)
        return out, v
    with ThreadPoolExecutor(max_workers=min(chunks, 6)) as ex:
        res = list(ex.map(one, range(chunks)))
    fails = []
    info = {"stats": {"distinct": 0, "generated": 0}, "wall": 0, "cmd": res[0][1]["cmd"], "lines": 0}
    for fs, v in res:
        fails += fs
        info["stats"]["distinct"] += v["stats"]["distinct"]
        info["stats"]["generated"] += v["stats"]["generated"]
        info["wall"] = max(info["wall"], v["wall"])
        info["lines"] += v["lines"]
    return fails, info


def abort_class(sp):
    return ("int_negative" if sp.neg else "date_after2038" if sp.late else "int_near_intmax" if sp.big
            else "header_group" if "header_group" in sp.hints else "unexplained")


def slim(ev):
    ev = dict(ev)
    for k in ("toks",):
        if k in ev and len(ev[k]) > 60:
            ev[k] = ev[k][:60] + ["..."]
    return ev


def case_of(sp, prop):
    """Everything needed to run this execution again (./check <ID> --replay <file>)."""
    return {"schema": sp.sch, "msgtype": sp.mt, "kind": sp.kind, "commands": commands(sp, prop), "want": sp.want,
            "neg": sorted(sp.neg), "late": sorted(sp.late), "big": sorted(sp.big), "hints": sorted(sp.hints)}


def replay(ctx, prop):
    """Re-run the single execution stored in a replay file written by a failed check."""
    with open(ctx.replay) as fh:
        case = json.load(fh)["case"]
    sp = Spec(case["schema"], case["msgtype"], case.get("kind", "replay"))
    sp.want = case["want"]
    sp.neg, sp.late, sp.big, sp.hints = set(case.get("neg", [])), set(case.get("late", [])), set(case.get("big", [])), set(case.get("hints", []))
    for c in case["commands"]:
        a = c.split()
        if a[0] == "f":
            sp.ops.append(("f", a[1], int(a[2]), "" if a[3] == "-" else bytes.fromhex(a[3]).decode("latin-1")))
        elif a[0] == "e":
            sp.ops.append(("e", a[1], int(a[2])))
    run_and_judge(ctx, [sp], prop, "replay")
    ctx.rule = "replay of one recorded execution"


def run_and_judge(ctx, specs, prop, name, isolate=False):
    """Execute the specs on the real library and let the monitor judge them.  Returns the set of indices
    of specs that failed."""
    raw = run_specs(ctx, specs, prop, name, isolate)
    ctx.tick(name + ":probe")
    mons, idx, failed = [], [], set()
    for i, (sp, r) in enumerate(zip(specs, raw)):
        if r is None:
            raise core.Infra("no result for execution %d" % i)
        evs, abort = r
        mon = to_monitor(sp, evs, prop)
        if abort is not None:
            failed.add(i)
            ctx.case(abstract_case(sp, mon) + ["abort"])
            ctx.fail("abort:%s" % abort_class(sp), "the library aborted (sanitizer report or crash) on a message the schema defines",
                     dict(case_of(sp, prop), stderr=abort))
            continue
        mons.append(mon)
        idx.append(i)
    fails, info = validate(ctx, mons, name, chunks=1 if len(mons) < 60 else max(4, len(mons) // 600))
    ctx.add_validation(info, len(mons))
    for i, mon in zip(idx, mons):
        ctx.case(abstract_case(specs[i], mon), nontrivial=len(mon) > 2)
    seen = set()
    for f in fails:
        gi = idx[f["exec"]]
        if gi in seen:
            continue
        seen.add(gi)
        failed.add(gi)
        sp = specs[gi]
        ctx.fail(f["sig"], f["why"], dict(case_of(sp, prop), event=slim(f["event"]), pos=f["pos"],
                                          trace=[slim(e) for e in mons[f["exec"]]]))
    ctx.tick(name + ":validate")
    return failed


# ---------------------------------------------------------------------------------------------------
CLASSES = {"neg": "negative_integers", "big": "integers_near_INT_MAX", "late": "dates_after_2038", "hdrgrp": "header_groups"}


def canaries(ctx, rng, prop, classes):
    """Input classes whose defects abort the sanitised library (negative integers: fast_atoi shifts a
    negative value; integers within 47 of INT_MAX: fast_atoi adds the digit character before subtracting
    '0'; dates after 2038-01-19: time_to_epoch overflows int; for clone/copy_legal a repeating group in
    the header: null group pointer) are tried first in a few small isolated executions.  A class that
    fails there is reported like any other failure and is left out of the bulk so that the rest of the
    domain stays checked; a class that passes is used everywhere.
    Returns ({class: ok}, number of canary executions)."""
    gens = {"neg": Gen(rng, neg_ok=True), "late": Gen(rng, late_ok=True), "big": Gen(rng, big_ok=True)}
    specs, cls = [], []
    for schname, mts in (("utest", ["D", "8"]), ("fix44", ["D", "AE"])):
        s = sch(schname)
        for mt in mts:
            members = s.bytype[mt]["members"]
            ints = [m for m in members if m.group is None and m.field.type.strip().upper() == "INT" and not m.field.values]
            dts = [m for m in members if m.group is None and typeclass(m.field) in ("timestamp", "date", "monthyear")]
            for pool, c in ((ints, "neg"), (ints[::-1], "big"), (dts, "late")):
                if c not in classes:
                    continue
                for m in pool[:1]:
                    sp = make_spec(Gen(rng, hdrgrp_ok=False), schname, mt, "canary_" + c, lambda x, d: False, lambda x, d: 1, "schema")
                    text, fl = gens[c].value(m.field, late=(c == "late"), neg=(c == "neg"), big=(c == "big"))
                    sp.want["b"] = [f for f in sp.want["b"] if f[0] != m.field.number] + [[m.field.number, text, []]]
                    sp.ops = [o for o in sp.ops if not (o[0] == "f" and o[1] == "b" and o[2] == m.field.number)]
                    sp.ops.append(("f", "b", m.field.number, text))
                    {"neg": sp.neg, "late": sp.late, "big": sp.big}[c].add(m.field.number)
                    specs.append(sp)
                    cls.append(c)
            if "hdrgrp" in classes and any(m.group is not None for m in s.header):
                for k in (2,):
                    sp = make_spec(Gen(rng), schname, mt, "canary_hdrgrp", lambda x, d: x.group is not None and d == 0,
                                   lambda x, d, k=k: k, "schema")
                    specs.append(sp)
                    cls.append("hdrgrp")
    failed = run_and_judge(ctx, specs, prop, "canary", isolate=True) if specs else set()
    ok = {c: not any(cls[i] == c for i in failed) for c in classes}
    ctx.extra["input_classes_used_in_bulk"] = dict({CLASSES[c]: v for c, v in ok.items()}, canary_executions=len(specs))
    return ok, len(specs)


def bulk_specs(ctx, rng, leaves, ok, n_shapes, per_type_random, n_deep, max_count):
    neg_ok = ok.get("neg", False)
    gen = Gen(rng, neg_ok, ok.get("late", False), ok.get("big", False), ok.get("hdrgrp", True))
    specs = []
    leaves = sorted(leaves, key=lambda h: json.dumps(h, sort_keys=True))
    pick = leaves if n_shapes >= len(leaves) else rng.sample(leaves, n_shapes)
    targets = []
    for schname in NS:
        s = sch(schname)
        for mt in sorted(s.bytype):
            targets.append((schname, mt))
    skipped = 0
    for hist in pick:
        if any(o["neg"] for o in hist) and not neg_ok:
            skipped += 1
            continue
        for _ in range(6):
            schname, mt = rng.choice(targets)
            sp = instantiate(gen, hist, schname, mt)
            if sp is not None:
                specs.append(sp)
                break
    for schname in NS:
        specs += structured_specs(gen, schname, per_type_random, max_count)
        specs += deep_specs(gen, schname, n_deep)
    specs = [sp for sp in specs if sp.size() < MAXBYTES + 1500]
    ctx.extra["executions_by_kind"] = {}
    for sp in specs:
        ctx.extra["executions_by_kind"][sp.kind] = ctx.extra["executions_by_kind"].get(sp.kind, 0) + 1
    if skipped:
        ctx.extra["tlc_shapes_left_to_canaries"] = skipped
    return specs


def length_sweep_specs(rng, quick=True):
    """Messages whose encoded body length sweeps across the digit-count boundaries of BodyLength (99/100/101,
    999/1000/1001) and whose total length reaches the multi-kilobyte range (checksum carry handling): a Heartbeat
    with a padded TestReqID and a News message with long text lines.  (Added after two seeded changes that manifest
    only at body length exactly 100 / 1000 and above ~2.9 KB.)"""
    gen = Gen(rng)
    out = []

    def bodylen(sp):
        def sz(c):
            return sum(len(str(f[0])) + 1 + len(f[1]) + 1 + sum(sz(e) for e in f[2]) for f in c)
        return len("35=") + len(sp.mt) + 1 + sz(sp.want["h"]) + sz(sp.want["b"]) + sz([f for f in sp.want["t"] if f[0] != 10])

    def rebuild(sp):
        parts = [ops_for(rng, sp.want[k], k, "schema") for k in "hbt"]
        sp.ops = [o for p in parts for o in p]
        return finish(sp)
    base = make_spec(gen, "utest", "0", "length_sweep", lambda m, d: False, lambda m, d: 1, "schema")
    base.want["b"] = [(112, "", [])]
    l0 = bodylen(base)
    targets = list(range(95, 106)) + list(range(995, 1006)) + ([9, 10, 11] if l0 <= 9 else [])
    if not quick:
        targets += list(range(90, 95)) + list(range(106, 130)) + list(range(980, 995)) + list(range(1006, 1030))
    for t in targets:
        if t - l0 < 1:
            continue
        sp = Spec("utest", "0", "length_sweep")
        sp.want = {"h": base.want["h"], "t": base.want["t"], "b": [(112, "x" * (t - l0), [])]}
        out.append(rebuild(sp))
    # long messages: News with k text lines
    for total in list(range(2940, 3000, 7 if quick else 2)) + list(range(4650, 4760, 11 if quick else 3)) + [6000, 7000]:
        sp = make_spec(gen, "utest", "B", "long_message", lambda m, d: False, lambda m, d: 1, "schema")
        k = 2 if total < 3500 else (3 if total < 5000 else 4)
        line = lambda n, ch: [(58, ch * n, [])]
        sp.want["b"] = [(148, "HEADLINE", []), (33, str(k), [line(10, "a") for _ in range(k)])]
        rest = total - bodylen(sp)
        per = max(1, rest // k)
        els = [line(10 + per, rng.choice("az09AZ ")) for _ in range(k)]
        sp.want["b"] = [(148, "HEADLINE", []), (33, str(k), els)]
        out.append(rebuild(sp))
    return out


def reorder(rng, sp, order):
    """The same message built in another insertion order."""
    cp = Spec(sp.sch, sp.mt, sp.kind + "_" + order)
    cp.want, cp.neg, cp.late, cp.big, cp.hints = sp.want, sp.neg, sp.late, sp.big, sp.hints
    parts = [ops_for(rng, sp.want[k], k, order) for k in "hbt"]
    if order == "reverse":
        parts.reverse()
    cp.ops = [o for p in parts for o in p]
    return cp


def selftest(ctx, prop, specs):
    """Binding self-test: corrupt one recorded field of a good execution and show the monitor rejects."""
    sample = [sp for sp in specs if sp.want["b"] and any(f[2] for f in sp.want["b"])][:3] or specs[:3]
    raw = run_specs(ctx, sample, prop, "selftest")
    mons = [to_monitor(sp, r[0], prop) for sp, r in zip(sample, raw)]
    bad = json.loads(json.dumps(mons))
    for mon in bad:
        for ev in mon:
            if prop == "C01" and ev["e"] == "Decode" and ev["tree"]["b"]:
                ev["tree"]["b"][0][1] += "x"
            if prop == "C02" and ev["e"] == "Encode" and len(ev["toks"]) > 4:
                ev["toks"][3], ev["toks"][-2] = ev["toks"][-2], ev["toks"][3]
            if prop == "C11" and ev["e"] == "CopyLegal" and ev["tree"]["b"]:
                ev["tree"]["b"] = ev["tree"]["b"][1:]
    f_good, _ = validate(ctx, mons, "selftest_good", chunks=1)
    f_bad, _ = validate(ctx, bad, "selftest_bad", chunks=1)
    ok = not f_good and len({f["exec"] for f in f_bad}) == len(bad)
    ctx.extra["selftest"] = {"good_rejected": len(f_good), "corrupted_rejected": len({f["exec"] for f in f_bad}), "of": len(bad)}
    if not ok:
        raise core.Infra("monitor self-test failed: %s" % ctx.extra["selftest"])
