"""Thin wrappers round TLC: exhaustive model checking, behaviour export, trace validation."""
import json
import os
import re
import shutil
import subprocess
import tempfile
import time

VERIF = os.path.dirname(os.path.dirname(os.path.abspath(__file__)))
SPEC = os.path.join(VERIF, "spec")
BUILD = os.path.join(VERIF, ".build")
JAR = "/opt/veriftools/tla/tla2tools.jar:/opt/veriftools/tla/CommunityModules-deps.jar"


class TLCError(Exception):
    """Infrastructure failure (parse error, evaluation error, timeout) - never a property verdict."""


def _metadir():
    os.makedirs(os.path.join(BUILD, "tlc"), exist_ok=True)
    return tempfile.mkdtemp(prefix="md", dir=os.path.join(BUILD, "tlc"))


def _run(module, cfg, workers, timeout, env=None, extra=(), heap="8g", deque=False):
    md = _metadir()
    cmd = ["timeout", str(timeout), "java", "-XX:+UseParallelGC", "-Xmx" + heap, "-Xss16m"]
    if deque:
        cmd.append("-Dtlc2.tool.queue.IStateQueue=StateDeque")
    cmd += ["-cp", JAR, "tlc2.TLC", "-noGenerateSpecTE", "-workers", str(workers), "-metadir", md, "-config", cfg] + \
        list(extra) + [module]
    e = dict(os.environ)
    e.pop("JAVA_TOOL_OPTIONS", None)
    if env:
        e.update(env)
    t = time.time()
    try:
        r = subprocess.run(cmd, cwd=SPEC, capture_output=True, text=True, env=e)
    finally:
        shutil.rmtree(md, ignore_errors=True)
    return r.returncode, r.stdout + r.stderr, time.time() - t, " ".join(cmd[2:])


_GEN = re.compile(r"(\d+) states generated, (\d+) distinct states found, (\d+) states left on queue")
_DEPTH = re.compile(r"depth of the complete state graph search is (\d+)")


def parse_stats(out):
    m = None
    for m in _GEN.finditer(out):
        pass
    st = {"generated": 0, "distinct": 0, "queue": 0, "depth": 0}
    if m:
        st = {"generated": int(m.group(1)), "distinct": int(m.group(2)), "queue": int(m.group(3)), "depth": 0}
    d = _DEPTH.search(out)
    if d:
        st["depth"] = int(d.group(1))
    return st


def leaves(out, marker="LEAF "):
    """JSON payloads printed by `PrintT(marker \\o ToJson(x))` inside the spec."""
    res = []
    for line in out.splitlines():
        line = line.strip()
        if line.startswith('"' + marker):
            try:
                s = json.loads(line)
                res.append(json.loads(s[len(marker):]))
            except Exception:
                pass
    return res


def check(module, cfg, workers=16, timeout=900, heap="16g", extra=(), env=None, expect_violation=None):
    """Exhaustive (or -simulate via extra) run.  Returns dict(ok, stats, out, wall, cmd, violated).
    A property violation of the *model* is reported in `violated` (name of the invariant/property);
    anything else non-zero raises TLCError."""
    rc, out, wall, cmd = _run(module, cfg, workers, timeout, env, extra, heap)
    st = parse_stats(out)
    violated = None
    if rc == 0:
        pass
    elif rc in (12, 13):
        m = re.search(r"Invariant (\S+) is violated|Temporal properties were violated|Action property (\S+) is violated", out)
        violated = (m.group(1) or m.group(2) or "temporal") if m else "unknown"
    elif rc == 11:
        violated = "deadlock"
    else:
        raise TLCError("TLC exit %d on %s/%s\n%s" % (rc, module, cfg, out[-3000:]))
    return {"ok": violated is None, "violated": violated, "stats": st, "out": out, "wall": wall, "cmd": "tlc " + cmd.split("tlc2.TLC ", 1)[-1]}


def coverage(out):
    """Per-action `taken` counts from a -coverage run: {action: distinct states found via it}."""
    cov = {}
    for m in re.finditer(r"<(\w+) line \d+, col \d+ to line \d+, col \d+ of module (\w+)>: (\d+):(\d+)", out):
        cov[m.group(1)] = cov.get(m.group(1), 0) + int(m.group(3))
    return cov


def validate(module, cfg, trace_path, timeout=900, heap="8g", env=None):
    """Trace validation: TLC walks the recorded ndjson with the monitor spec and writes a JSON
    verdict file (consumed lines + list of monitor failures).  Returns that verdict dict plus stats."""
    os.makedirs(os.path.join(BUILD, "tlc"), exist_ok=True)
    fd, outp = tempfile.mkstemp(prefix="verdict", suffix=".json", dir=os.path.join(BUILD, "tlc"))
    os.close(fd)
    os.unlink(outp)
    e = {"TRACE": os.path.abspath(trace_path), "OUT": outp}
    if env:
        e.update(env)
    rc, out, wall, cmd = _run(module, cfg, 1, timeout, e, (), heap)
    if rc != 0 or not os.path.exists(outp):
        raise TLCError("trace validation did not complete (exit %d) on %s with %s\n%s" % (rc, module, trace_path, out[-3000:]))
    with open(outp) as fh:
        verdict = json.load(fh)
    os.unlink(outp)
    if isinstance(verdict, list):   # JsonSerialize of a record gives an object; tolerate list form
        verdict = verdict[0]
    verdict["stats"] = parse_stats(out)
    verdict["wall"] = wall
    verdict["cmd"] = "TRACE=<trace> OUT=<verdict> tlc " + cmd.split("tlc2.TLC ", 1)[-1]
    return verdict


def sany(module):
    r = subprocess.run(["tla-sany", module], cwd=SPEC, capture_output=True, text=True)
    return r.returncode == 0 and "error" not in r.stdout.lower(), r.stdout


def validate_execs(module, cfg, execs, workdir, name, chunks=8, timeout=900, heap="4g"):
    """Validate a list of executions (each a list of events beginning with a Reset event) with the
    monitor spec, split over `chunks` parallel TLC processes.  Returns (fails, labels, info) where each
    fail carries the global execution index in 'exec' (0-based) and its event in 'event'."""
    from concurrent.futures import ThreadPoolExecutor
    import core
    n = len(execs)
    if n == 0:
        return [], {}, {"stats": {"distinct": 0, "generated": 0}, "wall": 0, "cmd": "", "lines": 0}
    chunks = max(1, min(chunks, n))
    bounds = [(i * n // chunks, (i + 1) * n // chunks) for i in range(chunks)]

    def one(i):
        lo, hi = bounds[i]
        path = os.path.join(workdir, "%s.%d.ndjson" % (name, i))
        flat = []
        starts = []
        for ex in execs[lo:hi]:
            starts.append(len(flat))
            flat.extend(ex)
        core.write_trace(path, flat)
        v = validate(module, cfg, path, timeout, heap)
        if v["consumed"] != len(flat) or v["lines"] != len(flat):
            raise TLCError("monitor consumed %s of %d lines (%s)" % (v.get("consumed"), len(flat), path))
        if v["execs"] != hi - lo:
            raise TLCError("monitor saw %s executions, expected %d (%s)" % (v.get("execs"), hi - lo, path))
        out = []
        for f in v["fails"]:
            f = dict(f)
            f["pos"] = f["line"] - 1 - starts[f["exec"] - 1]      # index of the event inside its execution
            f["exec"] = lo + f["exec"] - 1
            f["event"] = flat[f["line"] - 1]
            out.append(f)
        return out, v
    with ThreadPoolExecutor(max_workers=chunks) as ex:
        res = list(ex.map(one, range(chunks)))
    fails, labels = [], {}
    info = {"stats": {"distinct": 0, "generated": 0}, "wall": 0, "cmd": res[0][1]["cmd"], "lines": 0}
    for fs, v in res:
        fails += fs
        for lab in v.get("labels") or []:
            labels[lab["k"]] = labels.get(lab["k"], 0) + lab["n"]
        info["stats"]["distinct"] += v["stats"]["distinct"]
        info["stats"]["generated"] += v["stats"]["generated"]
        info["wall"] = max(info["wall"], v["wall"])
        info["lines"] += v["lines"]
    return fails, labels, info
