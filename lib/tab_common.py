"""Shared driver pieces for C10 (realm lookups) and C12 (lookup tables, sorted set): executions for
probe_tab, running them, projecting probe events onto the monitor alphabets of T_Realm / T_Tables.

An *execution* is a dict
    reset : the monitor's Reset event (built here from lib/schema.py facts or from a TLC history)
    cmds  : probe command lines (without the leading "reset")
    conv  : function(probe event) -> monitor event or None
    meta  : what to show in a replay file
Schema facts (realm values and descriptions, field numbers and names, message types, per-message
field sets, positions, mandatory/group flags) come from lib/schema.py only.
"""
import math
import os
import re
import struct

import build
import core
import schema
import tlc

ALIEN = -999999

INT_TYPES = {"INT", "LENGTH", "TAGNUM", "SEQNUM", "NUMINGROUP", "DAYOFMONTH"}
CHAR_TYPES = {"CHAR", "BOOLEAN"}
FLOAT_TYPES = {"FLOAT", "QTY", "PRICE", "PRICEOFFSET", "AMT", "PERCENTAGE"}


def kind_of(ftype):
    """i / c / f / s: the C++ value type behind a FIX field type (FIX data type families)."""
    t = (ftype or "").upper()
    if t in INT_TYPES:
        return "i"
    if t in CHAR_TYPES:
        return "c"
    if t in FLOAT_TYPES:
        return "f"
    return "s"


_BINARY = None


def probe_binary():
    """Built once per check (build.probe takes the build lock shared with every other check)."""
    global _BINARY
    if _BINARY is None:
        _BINARY = build.probe("probe_tab", "asan", schemas=["utest", "fix44"])
    return _BINARY


# ---- typed values <-> probe tokens <-> order keys ------------------------------------------------
def schar(b):
    """char is signed on the x86-64 Linux ABI the probes are built for: order key of byte b."""
    return b if b < 128 else b - 256


def tok(kind, v):
    if kind == "i":
        return str(v)
    if kind == "c":
        return "%02x" % v                       # v: byte value 0..255
    if kind == "f":
        return repr(float(v))
    return v.encode("latin-1").hex() or "-"    # v: str of bytes (latin-1)


def untok(kind, t):
    """Typed value of a token the probe printed (rv / pv); None if it is not a value of the type."""
    try:
        if kind == "i":
            return int(t)
        if kind == "c":
            b = bytes.fromhex(t)
            return b[0] if len(b) == 1 else None
        if kind == "f":
            return float(t)
        return bytes.fromhex(t).decode("latin-1")
    except (ValueError, IndexError):
        return None


def order_key(kind, v):
    if kind == "c":
        return schar(v)
    if kind == "s":
        return v.encode("latin-1")
    return v


class Codes:
    """Order-preserving integer codes for the values of one execution (ints: the value itself)."""
    def __init__(self, kind, values):
        self.kind = kind
        if kind == "i":
            self.map = None
        else:
            u = sorted(set(values), key=lambda v: order_key(kind, v))
            self.map = {v: i for i, v in enumerate(u)}

    def code(self, v):
        if v is None:
            return ALIEN
        if self.map is None:
            return v if -2000000000 < v < 2000000000 else ALIEN
        return self.map.get(v, ALIEN)


# ---- running executions ----------------------------------------------------------------------------
def san_kind(err):
    m = re.search(r"AddressSanitizer: ([\w-]+)", err)
    if m:
        return m.group(1)
    m = re.search(r"runtime error: ([a-z ]+)", err)
    if m:
        return "ubsan_" + m.group(1).strip().replace(" ", "_")[:40]
    return "crash"


def run_execs(ctx, execs, name, nproc=4, max_aborts=4):
    """Run the executions on the real code.  Returns (traces, aborts): traces[i] = monitor events of
    execution i (None if it did not run to its end), aborts = [(i, rc, sanitizer kind, report)].
    After an abort the remaining executions of that process are run in a fresh one (the culprit is
    skipped); after max_aborts aborts in one slice the rest of the slice is not run."""
    binary = probe_binary()
    env = build.run_env()
    from concurrent.futures import ThreadPoolExecutor
    nproc = max(1, min(nproc, len(execs) // 20 or 1))
    slices = [list(range(i, len(execs), nproc)) for i in range(nproc)]
    traces = [None] * len(execs)
    aborts = []
    notrun = []

    def one(idx):
        todo = list(idx)
        naborts = 0
        while todo:
            lines = []
            for i in todo:
                lines.append("reset {}")
                lines += execs[i]["cmds"]
            lines.append("quit")
            text = "\n".join(lines) + "\n"
            evs, rc, err = core.run_probe(binary, text, env, timeout=900)
            if rc != 0:
                ctx.extra["transient_probe_aborts"] = ctx.extra.get("transient_probe_aborts", 0)
                evs2, rc2, err2 = core.run_probe(binary, text, env, timeout=900)
                if rc2 == 0:
                    ctx.extra["transient_probe_aborts"] += 1
                evs, rc, err = evs2, rc2, err2
            chunks = []
            for ev in evs:
                if ev["e"] == "Error":
                    raise core.Infra("probe_tab: %s" % ev)
                if ev["e"] == "Reset":
                    chunks.append([])
                elif chunks:
                    chunks[-1].append(ev)
            if rc == 0 and len(chunks) != len(todo):
                raise core.Infra("probe_tab ran %d of %d executions" % (len(chunks), len(todo)))
            ndone = len(chunks) if rc == 0 else max(0, len(chunks) - 1)
            for j in range(ndone):
                ex = execs[todo[j]]
                tr = [ex["reset"]]
                for ev in chunks[j]:
                    m = ex["conv"](ev)
                    if m is not None:
                        tr.append(m)
                traces[todo[j]] = tr
            if rc == 0:
                return
            if not chunks:
                raise core.Infra("probe_tab died before the first execution (rc %d)\n%s" % (rc, core.san_report(err)))
            culprit = todo[len(chunks) - 1]
            aborts.append((culprit, rc, san_kind(err), core.san_report(err, 2500), chunks[-1][-3:]))
            naborts += 1
            todo = todo[len(chunks):]
            if naborts >= max_aborts:
                notrun.extend(todo)
                return
    with ThreadPoolExecutor(max_workers=nproc) as ex:
        list(ex.map(one, slices))
    if notrun:
        ctx.extra["executions_not_run_after_aborts"] = ctx.extra.get("executions_not_run_after_aborts", 0) + len(notrun)
    return traces, aborts


def judge(ctx, module, execs, traces, aborts, name, abstract, nontrivial, chunks=8):
    """Hand the recorded executions to the TLA+ monitor; rejections and aborts become ctx failures."""
    done = [i for i, t in enumerate(traces) if t is not None]
    fails, labels, info = tlc.validate_execs(module + ".tla", module + ".cfg", [traces[i] for i in done],
                                             ctx.workdir, name, chunks=chunks)
    ctx.add_validation(info, len(done))
    for i in done:
        ctx.case(abstract(execs[i], traces[i]), nontrivial=nontrivial(execs[i], traces[i]))
    for lab, n in labels.items():
        # "rejected:<sig>" counts every rejection (the verdict lists only the first few per signature)
        d = ctx.extra.setdefault("rejections_by_signature" if lab.startswith("rejected:") else "design_labels", {})
        lab = lab[len("rejected:"):] if lab.startswith("rejected:") else lab
        d[lab] = d.get(lab, 0) + n
    seen = {}
    for f in fails:
        gi = done[f["exec"]]
        key = (gi, f["sig"])
        seen[key] = seen.get(key, 0) + 1
        if seen[key] > 1:
            continue
        ctx.fail(f["sig"], f["why"], {"execution": execs[gi]["meta"], "commands": execs[gi]["cmds"][:3] + ["..."],
                                      "reset": _short(execs[gi]["reset"]), "pos": f["pos"], "event": _short(f["event"])})
    for i, rc, kind, rep, last in aborts:
        ctx.fail("probe_abort:%s:%s" % (execs[i]["meta"].get("class", "?"), kind),
                 "the real code aborted under ASan/UBSan (%s)" % kind,
                 {"execution": execs[i]["meta"], "commands": execs[i]["cmds"][:40], "last_events": last, "stderr": rep})
    return fails


def _short(ev, limit=1200):
    out = {}
    for k, v in ev.items():
        s = repr(v)
        out[k] = v if len(s) <= limit else s[:limit] + "..."
    return out


# ---- C10: realms -------------------------------------------------------------------------------------
def realm_exec(kind, dt, members, probes, select_cmd, meta, synth, nofield=lambda v: False):
    """members: [(typed value, description)]; probes: typed values.  Builds the execution."""
    codes = Codes(kind, [v for v, _ in members] + list(probes))
    pairs = sorted(((codes.code(v), d) for v, d in members))
    reset = {"e": "Reset", "kind": "realm", "t": kind, "dt": dt, "dom": [c for c, _ in pairs],
             "descs": [d for _, d in pairs], "src": meta.get("src", "")}
    cmds = [select_cmd] + ["rp %s%s" % (tok(kind, v), " nofield" if nofield(v) else "") for v in probes]
    vals = list(probes)
    state = {"n": 0}

    def conv(ev):
        if ev["e"] == "RealmSel":
            if not ev["has"]:
                raise core.Infra("no realm compiled for %s" % meta)
            return None
        if ev["e"] != "Realm":
            return None
        v = vals[state["n"]]
        state["n"] += 1
        m = {"e": "Realm", "v": codes.code(v), "idx": ev["idx"], "inside": ev["inside"],
             "rv": codes.code(untok(kind, ev["rv"])) if ev["inside"] else ALIEN, "desc": ev["desc"],
             "valid": ev["valid"], "field": ev["field"], "fidx": -1, "pv": ALIEN, "phas": False, "pdesc": "",
             "pshape": True, "qhas": False, "qdesc": "", "qshape": True}
        if ev["field"]:
            # synthetic realms: the field is constructed from the typed value itself (no text conversion)
            pv = v if synth else untok(kind, ev["pv"])
            m.update(fidx=ev["fidx"], pv=codes.code(pv), phas=ev["phas"], pdesc=ev["pdesc"], pshape=ev["pshape"],
                     qhas=ev["qhas"], qdesc=ev["qdesc"], qshape=ev["qshape"])
        return m
    return {"reset": reset, "cmds": cmds, "conv": conv, "meta": meta}


def xml_members(field, kind):
    """[(typed value, description)] of a realm field, or None if an XML enum is not a value of the type."""
    out = []
    for enum, desc in field.values:
        if enum is None:
            return None
        if desc is None or desc == "":
            desc = enum                        # the schema compiler's documented default
        if kind == "i":
            if not re.fullmatch(r"-?\d+", enum):
                return None
            v = int(enum)
        elif kind == "c":
            if len(enum) != 1 or ord(enum) > 255:
                return None
            v = ord(enum)
        elif kind == "f":
            try:
                v = float(enum)
            except ValueError:
                return None
        else:
            try:
                enum.encode("latin-1")
            except UnicodeError:
                return None
            v = enum
        out.append((v, desc))
    if len({v for v, _ in out}) != len(out):
        return None
    return out


def string_probes(members, rng, cap, multi):
    """All strings up to length 3 over the members' alphabet plus one foreign character (seeded sample
    of the length-3 ones above `cap`), the members and their near misses."""
    alpha = sorted({ch for v in members for ch in v if ch != " "})
    foreign = next(ch for ch in "~#!%" if ch not in alpha)
    alpha1 = alpha + [foreign]
    out = [""] + alpha1 + [a + b for a in alpha1 for b in alpha1]
    n3 = len(alpha1) ** 3
    budget = max(200, cap - len(out))
    if n3 <= budget:
        out += [a + b + c for a in alpha1 for b in alpha1 for c in alpha1]
    else:
        seen = set()
        while len(seen) < budget:
            seen.add("".join(rng.choice(alpha1) for _ in range(3)))
        out += sorted(seen)
    for v in members:
        out += [v, v + foreign, v + alpha[0], v[:-1], foreign + v, v.lower(), v.upper(), v.swapcase(), v + " "]
        if v:
            out.append(v[:-1] + chr(min(126, ord(v[-1]) + 1)))
            out.append(v[:-1] + chr(max(33, ord(v[-1]) - 1)))
    if multi and len(members) > 1:
        out += [members[0] + " " + members[1], members[-1] + " " + members[0]]
    seen, res = set(), []
    for s in out:
        if s not in seen and "\x00" not in s:
            seen.add(s)
            res.append(s)
    return res


def stock_realm_exec(which, field, rng, strcap):
    kind = kind_of(field.type)
    members = xml_members(field, kind)
    if members is None:
        return None
    mv = [v for v, _ in members]
    if kind == "c":
        probes = list(range(256))
    elif kind == "i":
        probes = list(range(min(mv) - 3, max(mv) + 4))
    elif kind == "f":
        probes = sorted(set(mv + [math.nextafter(v, math.inf) for v in mv] + [math.nextafter(v, -math.inf) for v in mv]
                            + [min(mv) - 1, max(mv) + 1]))
    else:
        probes = string_probes(mv, rng, strcap, "MULTIPLE" in field.type.upper())
    meta = {"class": "realm", "src": "%s:%d:%s" % (which, field.number, field.name), "type": field.type}
    # negative integer text is C08's concern (fast_atoi): those values are probed through RealmBase only
    return realm_exec(kind, "set", members, probes, "realm %s %d %s" % (which, field.number, kind), meta, False,
                      nofield=(lambda v: v < 0) if kind == "i" else (lambda v: False))


SYN_STR = ["b", "bb", "d", "da", "f", "g"]


def synth_value(kind, x):
    """Typed value standing for model value x (0..5), order preserving, with room between neighbours."""
    if kind == "i":
        return 2 * x - 4
    if kind == "c":
        return ord("ACEGIK"[x])
    if kind == "f":
        return 1.0 + 0.5 * x
    return SYN_STR[x]


def synth_probes(kind):
    if kind == "i":
        return list(range(-7, 10))
    if kind == "c":
        return list(range(ord("@"), ord("M"))) + [0x01, 0x7f, 0x80, 0xff]
    if kind == "f":
        ms = [1.0 + 0.5 * x for x in range(6)]
        out = set(ms)
        for v in ms:
            out |= {math.nextafter(v, math.inf), math.nextafter(v, -math.inf), v + 0.25}
        out |= {0.0, 0.75, -1.5, 99.0}
        return sorted(out)
    a = "abdfg~"
    return [""] + list(a) + [x + y for x in a for y in a] + ["bbb", "daa", "da~"]


def synth_realm_exec(kind, dt, dom):
    members = [(synth_value(kind, x), "D%d" % i) for i, x in enumerate(dom)]
    meta = {"class": "realm", "src": "synthetic:%s:%s:%s" % (kind, dt, dom)}
    sel = "synth %s %s %s" % (kind, dt, " ".join(tok(kind, v) for v, _ in members))
    return realm_exec(kind, dt, members, synth_probes(kind), sel, meta, True)


# ---- C12: tables -------------------------------------------------------------------------------------
def used_fields(sch):
    """Field numbers referenced by the header, the trailer or any message (components expanded, groups
    descended): the fields the schema compiler emits."""
    used = set()

    def walk(ms):
        for m in ms:
            used.add(m.field.number)
            if m.group:
                walk(m.group)
    walk(sch.header)
    walk(sch.trailer)
    for m in sch.messages.values():
        walk(m["members"])
    return used


# BeginString, BodyLength, CheckSum, MsgType: the schema compiler clears their mandatory flag on purpose
# (compiler/f8cutils.cpp process_special_traits: "don't check for presence"); the flag is not compared
FRAMEWORK_FIELDS = {8, 9, 10, 35}


def member_table(members, nopos=()):
    """[[fnum, mandatory, xml position, is group]] ascending by fnum; first occurrence of a field wins.
    -1 = not compared (mandatory of the framework fields; position of fields added with f8c -F, whose
    position is the compiler's business, C13)."""
    seen = {}
    for m in members:
        n = m.field.number
        if n not in seen:
            seen[n] = [n, -1 if n in FRAMEWORK_FIELDS else 1 if m.required else 0, -1 if n in nopos else m.pos,
                       1 if m.group is not None else 0]
    return [seen[k] for k in sorted(seen)]


def near_misses(s, rng, pool):
    out = {s[:-1], s + "x", s + s[-1:], "x" + s, s[1:], s.swapcase(), s.lower(), s.upper(), s + " "}
    if s:
        out.add(s[:-1] + chr(min(126, ord(s[-1]) + 1)))
        out.add(s[:-1] + chr(max(33, ord(s[-1]) - 1)))
        out.add(chr(min(126, ord(s[0]) + 1)) + s[1:])
    return [x for x in sorted(out) if x not in pool and "\x00" not in x]


def hexs(s):
    return s.encode("latin-1").hex() or "-"


def passthrough(ev):
    return ev if ev["e"] in ("Scan", "Lookup", "Traits") else None


def field_table_execs(which, sch):
    used = sorted(used_fields(sch))
    names = [sch.bynum[k].name for k in used]
    rsz = []
    for k in used:
        f = sch.bynum[k]
        mem = xml_members(f, kind_of(f.type)) if f.values else None
        rsz.append(len(mem) if mem is not None else -1)      # -1: XML enums do not fit the type; not compared
    out = []
    for tab in ("flu", "be"):
        reset = {"e": "Reset", "kind": "ftab", "tab": tab, "keys": used, "names": names, "rsz": rsz}
        cmds = ["scan %s %s %d %d" % (which, tab, lo, min(65535, lo + 8191)) for lo in range(0, 65536, 8192)]
        if tab == "be":
            # keys beyond 16 bits for the 32-bit keyed table: aliases of present keys and extremes
            wide = [(1, used[0]), (1, used[-1]), (1, 35), (65535, 35), (32768, 8), (2, 0), (0, 35), (0, 0), (65535, 65535)]
            cmds += ["lookbe %s %d %d" % (which, hi, lo) for hi, lo in wide]

        def conv(ev, rsz_by={k: r for k, r in zip(used, rsz)}):
            if ev["e"] == "Scan":
                # realm sizes of fields whose XML enums do not fit the type are not compared
                ev = dict(ev, hits=[[h[0], h[1], h[2], -1 if rsz_by.get(h[0]) == -1 else h[3]] for h in ev["hits"]])
                return ev
            return ev if ev["e"] == "Lookup" else None
        out.append({"reset": reset, "cmds": cmds, "conv": conv,
                    "meta": {"class": "ftab", "src": "%s:%s" % (which, tab), "fields": len(used)}})
    return out


def string_table_execs(which, sch, rng, quick):
    out = []
    # message table: msgtype -> name; the library also keeps the header and trailer under these two keys
    mt = {m["msgtype"]: m["name"] for m in sch.messages.values()}
    mt["header"] = "header"
    mt["trailer"] = "trailer"
    keys = sorted(mt)
    probes = list(keys) + [""]
    for k in keys:
        probes += near_misses(k, rng, mt)
    probes = list(dict.fromkeys(probes))
    out.append({"reset": {"e": "Reset", "kind": "stab", "tab": "bme", "keys": keys, "vals": [mt[k] for k in keys]},
                "cmds": ["lookbme %s %s" % (which, hexs(p)) for p in probes], "conv": passthrough,
                "meta": {"class": "stab", "src": "%s:bme" % which, "probes": len(probes)}})
    rm = {v: k for k, v in mt.items()}
    keys = sorted(rm)
    probes = list(keys) + [""]
    for k in keys:
        probes += near_misses(k, rng, rm)
    probes = list(dict.fromkeys(probes))
    out.append({"reset": {"e": "Reset", "kind": "stab", "tab": "rbme", "keys": keys, "vals": [rm[k] for k in keys]},
                "cmds": ["rbme %s %s" % (which, hexs(p)) for p in probes], "conv": passthrough,
                "meta": {"class": "stab", "src": "%s:rbme" % which, "probes": len(probes)}})
    used = used_fields(sch)
    rf = {sch.bynum[k].name: k for k in used}
    unused = [f.name for f in sch.bynum.values() if f.number not in used]
    keys = sorted(rf)
    probes = list(keys) + [""] + unused
    sample = keys if not quick else rng.sample(keys, min(len(keys), 250))
    for k in sample:
        probes += near_misses(k, rng, rf)
    probes = list(dict.fromkeys(probes))
    out.append({"reset": {"e": "Reset", "kind": "stab", "tab": "rbe", "keys": keys, "vals": [rf[k] for k in keys]},
                "cmds": ["rbe %s %s" % (which, hexs(p)) for p in probes], "conv": passthrough,
                "meta": {"class": "stab", "src": "%s:rbe" % which, "probes": len(probes)}})
    return out


def traits_execs(which, sch, maxdepth=3):
    out = []
    extra = {f.number for lst in sch.extra_in.values() for f, _ in lst}

    def add(label, sel, members, path, depth):
        out.append({"reset": {"e": "Reset", "kind": "traits", "fields": member_table(members, extra)},
                    "cmds": ["traits %s %s%s" % (which, sel, "".join(" %d" % g for g in path))], "conv": passthrough,
                    "meta": {"class": "traits", "src": "%s:%s%s" % (which, label, "".join("/%d" % g for g in path))}})
        if depth < maxdepth:
            done = set()
            for m in members:
                if m.group is not None and m.field.number not in done:
                    done.add(m.field.number)
                    add(label, sel, m.group, path + [m.field.number], depth + 1)
    add("header", "header", sch.header, [], 0)
    add("trailer", "trailer", sch.trailer, [], 0)
    for m in sch.messages.values():
        add(m["msgtype"], hexs(m["msgtype"]), m["members"], [], 0)
    return out


def set_exec(variant, hist):
    """hist: TLC history [ {op:New, reserve, init:[keys]}, {op:Ins,k,p} | {op:Find,k} | {op:Clear} ... ]"""
    new = hist[0]
    init = [[k, 100 + k] for k in new["init"]]
    cmds = ["set %s %d %s" % (variant, new["reserve"], " ".join("%d:%d" % (k, p) for k, p in init))]
    for o in hist[1:]:
        if o["op"] == "Ins":
            cmds.append("ins %d %d" % (o["k"], o["p"]))
        elif o["op"] == "Find":
            cmds.append("find %d" % o["k"])
        else:
            cmds.append("clear")

    def conv(ev):
        return ev if ev["e"] in ("Ins", "Find", "Clear") else None
    cls = "set:%s:%s" % (variant, "zero_reserve_empty" if new["reserve"] == 0 and not init else "reserve")
    return {"reset": {"e": "Reset", "kind": "set", "variant": variant, "reserve": new["reserve"], "init": init},
            "cmds": cmds, "conv": conv, "meta": {"class": cls, "history": hist}}
