"""Shared driver for C13 / C14 (DESIGN.md 5.4, 6; spec/SchemaOps.tla, spec/SchemaComp.tla, spec/MC_SchemaComp.tla,
spec/MC_SchemaHash.tla, spec/T_SchemaComp.tla, harness/src/probe_meta.cpp).

Pipeline: TLC checks the schema-construction design spec (exhaustively for small universes, by simulation for
the full one) and exports every completed schema as an *abstract schema state*; each chosen state is rendered
as FIX XML, compiled by the freshly built f8c, the generated C++ is compiled and linked with probe_meta
(= probe_codec + a metadata dump); TLC judges (i) the metadata dump against the abstract schema state
(T_SchemaComp) and (ii) round trips of messages of that schema (T_Codec, via lib/codec_common.py with schema
facts read from the rendered XML by lib/schema.py).

The XML renderer below is part of the trusted base (a pure function of the abstract state, 40 lines).
"""
import hashlib
import json
import os
import random
import shutil
import subprocess
import time
from concurrent.futures import ThreadPoolExecutor
from xml.sax.saxutils import quoteattr

import build
import codec_common as cc
import core
import schema
import tlc

PROBE = ("probe_meta", "asan", None, [])
SPEC_FILES = ["SchemaOps.tla", "SchemaComp.tla", "MC_SchemaComp.tla", "MC_SchemaHash.tla"]
GEN_FLAGS = ["-O0", "-g0"]      # generated code: uninstrumented and unoptimised (5 CPU-s per schema instead of 20)
SETUP = {"DeclField", "DeclPair", "AddMessage", "AddAdminMessage", "AddComponent"}


# ---------------------------------------------------------------------------------------------------
# TLC: design models, exported schemas
def _spec_hash(extra):
    h = hashlib.sha256()
    for f in SPEC_FILES + list(extra):
        p = os.path.join(tlc.SPEC, f)
        if os.path.exists(p):
            with open(p, "rb") as fh:
                h.update(fh.read())
    h.update(str(os.path.getmtime(tlc.JAR.split(":")[0])).encode())
    return h


def model(ctx, module, cfg, props, sim=None, expect=None, workers=4, cache=True, timeout=1500):
    """One TLC run of a design model.  sim=(num, depth, seed) runs -simulate.  expect = name of the invariant
    that must be violated (vacuity guard / deviation witness).  Quick tier reuses the result of an identical
    spec (cached by the text of the spec files).  Returns dict(ok, violated, stats, leaves, skel, ...)."""
    h = _spec_hash([cfg])
    h.update(repr(sim).encode())
    cdir = os.path.join(core.BUILD, "schemacomp_model")
    os.makedirs(cdir, exist_ok=True)
    cp = os.path.join(cdir, h.hexdigest()[:24] + ".json")
    use_cache = cache and ctx.quick and not os.environ.get("VERIF_NOCACHE")
    if use_cache and os.path.exists(cp):
        with open(cp) as fh:
            r = json.load(fh)
        r["cached"] = True
    else:
        extra = []
        if sim:
            extra = ["-simulate", "num=%d" % sim[0], "-depth", str(sim[1]), "-seed", str(sim[2])]
        r = tlc.check(module, cfg, workers=1 if sim else workers, timeout=timeout, heap="8g", extra=extra)
        if sim:
            import re
            m = re.search(r"(\d+) states checked, (\d+) traces generated", r["out"])
            if m:
                r["stats"] = {"generated": int(m.group(1)), "distinct": int(m.group(1)), "queue": 0, "depth": sim[1]}
        skel = tlc.leaves(r["out"], "SKEL ")
        r = {"ok": r["ok"], "violated": r["violated"], "stats": r["stats"], "wall": r["wall"], "cmd": r["cmd"],
             "leaves": tlc.leaves(r["out"]), "skel": skel[0] if skel else None, "cached": False}
        if ctx.quick:
            with open(cp + ".tmp", "w") as fh:
                json.dump(r, fh)
            os.replace(cp + ".tmp", cp)
    label = cfg + (" (-simulate num=%d depth=%d seed=%d)" % sim if sim else "")
    if expect:
        if r["violated"] != expect:
            raise core.Infra("vacuity guard: %s should violate %s, got %s" % (label, expect, r["violated"]))
        ctx.extra.setdefault("deviation_witnesses", {})[label] = r["violated"]
        ctx.add_model(r, module, label, ["must violate " + expect])
    else:
        if not r["ok"]:
            raise core.Infra("design spec %s violates %s under %s: the model is wrong" % (module, r["violated"], label))
        ctx.add_model(r, module, label, props)
    if r.get("cached"):
        ctx.model_runs[-1]["cached_result_of_identical_spec"] = True
    return r


def full_schema(skel, leaf):
    """Skeleton + what the behaviour added = the abstract schema state S of SchemaOps."""
    fields = [dict(f) for f in skel["fields"]]
    for f in fields:
        if f["num"] == 35:
            f["vals"] = leaf["mtvals"]
    return {"fields": fields + leaf["fields"], "hdr": skel["hdr"], "trl": skel["trl"],
            "msgs": skel["msgs"] + leaf["msgs"], "comps": leaf["comps"]}


def schema_id(S):
    return hashlib.sha1(json.dumps(S, sort_keys=True).encode()).hexdigest()[:12]


# ---------------------------------------------------------------------------------------------------
# abstract schema -> FIX XML (QuickFIX format as read by f8c)
def _entries(items, ind, out):
    pad = " " * ind
    for e in items:
        req = "Y" if e["r"] else "N"
        if e["k"] == "f":
            out.append("%s<field name=%s required='%s' />" % (pad, quoteattr(e["_name"]), req))
        elif e["k"] == "c":
            out.append("%s<component name=%s required='%s' />" % (pad, quoteattr(e["c"]), req))
        else:
            out.append("%s<group name=%s required='%s'>" % (pad, quoteattr(e["_name"]), req))
            _entries(e["sub"], ind + 1, out)
            out.append("%s</group>" % pad)


def render_xml(S):
    names = {f["num"]: f["name"] for f in S["fields"]}

    def named(items):
        return [dict(e, _name=names.get(e["n"], "?"), sub=named(e["sub"])) for e in items]
    out = ["<?xml version='1.0' encoding='ISO-8859-1'?>", "<fix major='4' type='FIX' servicepack='0' minor='2'>", " <header>"]
    _entries(named(S["hdr"]), 2, out)
    out += [" </header>", " <messages>"]
    for m in S["msgs"]:
        out.append("  <message name=%s msgcat='%s' msgtype=%s>" % (quoteattr(m["name"]), "admin" if m["admin"] else "app", quoteattr(m["mt"])))
        _entries(named(m["items"]), 3, out)
        out.append("  </message>")
    out += [" </messages>", " <trailer>"]
    _entries(named(S["trl"]), 2, out)
    out += [" </trailer>", " <components>"]
    for c in S["comps"]:
        out.append("  <component name=%s>" % quoteattr(c["name"]))
        _entries(named(c["items"]), 3, out)
        out.append("  </component>")
    out += [" </components>", " <fields>"]
    for f in S["fields"]:
        if f["vals"]:
            out.append("  <field number='%d' name=%s type='%s'>" % (f["num"], quoteattr(f["name"]), f["type"]))
            for v in f["vals"]:
                out.append("   <value enum=%s description=%s />" % (quoteattr(v[0]), quoteattr(v[1])))
            out.append("  </field>")
        else:
            out.append("  <field number='%d' name=%s type='%s' />" % (f["num"], quoteattr(f["name"]), f["type"]))
    out += [" </fields>", "</fix>", ""]
    return "\n".join(out)


# ---------------------------------------------------------------------------------------------------
# features of a schema (for choosing a diverse family and for the abstract case)
def features(leaf):
    """Construction actions used and structural classes present (what a compiler defect could hinge on)."""
    fs = {h for h in leaf["hist"] if h not in SETUP}
    comps = {c["name"]: c["items"] for c in leaf["comps"]}
    types = {f["num"]: f for f in leaf["fields"]}

    def walk(items, depth, incomp):
        nums = [e["n"] for e in items if e["k"] != "c"]
        if nums != sorted(nums):
            fs.add("document_order_differs_from_number_order" + ("_in_group" if depth else ""))
        for e in items:
            if e["k"] == "g":
                fs.add("depth%d" % (depth + 1))
                fs.add("group_%s" % ("mandatory" if e["r"] else "optional"))
                if incomp:
                    fs.add("group_in_component")
                if not e["sub"][0]["r"]:
                    fs.add("first_member_optional")
                walk(e["sub"], depth + 1, incomp)
            elif e["k"] == "c":
                where = "_in_group" if depth else ""
                fs.add("component_%s%s" % ("required" if e["r"] else "optional", where))
                for ce in comps.get(e["c"], []):
                    if ce["r"] and not e["r"]:
                        fs.add("optional_component_with_mandatory_%s%s" % ("group" if ce["k"] == "g" else "field", where))
                    if ce["k"] == "c":
                        # a component inside a component: does the inner one bring mandatory members, and how are the two referenced
                        inner_mand = any(x["r"] and x["k"] != "c" for x in comps.get(ce["c"], []))
                        fs.add("%s_component%s_inside_%s_component%s" % ("required" if ce["r"] else "optional",
                                                                        "_with_mandatory_member" if inner_mand else "",
                                                                        "required" if e["r"] else "optional", where))
            else:
                fs.add("field_%s%s" % ("mandatory" if e["r"] else "optional", "_in_group" if depth else ""))
                f = types.get(e["n"])
                if f and f["vals"]:
                    fs.add("realm_%s" % f["type"])
    for m in leaf["msgs"]:
        if m["admin"]:
            fs.add("admin_message")
        walk(m["items"], 0, False)
    for c in leaf["comps"]:
        walk(c["items"], 0, True)
    used = set()

    def nums(items):
        for e in items:
            if e["k"] != "c":
                used.add(e["n"])
            nums(e["sub"])
    for m in leaf["msgs"]:
        nums(m["items"])
    for c in leaf["comps"]:
        nums(c["items"])
    if any(f["num"] not in used for f in leaf["fields"]):
        fs.add("unused_field")
    fs.add("msgs%d" % len(leaf["msgs"]))
    return fs


def choose(rng, leaves, n, max_with=None):
    """n leaves: a greedy set cover of the features (each round the leaf that adds most uncovered features, then
    most uncovered feature pairs; ties by seeded order), then seeded random ones.  `max_with` = (feature set,
    limit): at most `limit` chosen leaves may have one of these features."""
    leaves = sorted(leaves, key=lambda l: json.dumps(l, sort_keys=True))
    rng.shuffle(leaves)
    if len(leaves) > 6000:                       # the cover is computed on a seeded sample of a large family
        leaves = leaves[:6000]
    feats = [features(l) for l in leaves]
    picked, limited = [], 0
    taken = set()

    def allowed(i):
        return i not in taken and not (max_with and feats[i] & max_with[0] and limited >= max_with[1])

    def take(i):
        nonlocal limited
        picked.append(i)
        taken.add(i)
        if max_with and feats[i] & max_with[0]:
            limited += 1
    for pairs in (False, True):
        keysets = [({(a,) for a in fs} if not pairs else {(a, b) for a in fs for b in fs if a < b}) for fs in feats]
        covered = set()
        for i in picked:
            covered |= keysets[i]
        while len(picked) < n:
            best, gain = None, 0
            for i, ks in enumerate(keysets):
                if allowed(i):
                    g = len(ks - covered)
                    if g > gain:
                        best, gain = i, g
            if best is None:
                break
            covered |= keysets[best]
            take(best)
    for i in range(len(leaves)):
        if len(picked) >= n:
            break
        if allowed(i):
            take(i)
    return [leaves[i] for i in picked]


# ---------------------------------------------------------------------------------------------------
# f8c, C++ compiler, linker
_BASE = []


def base_objects():
    """Objects every per-schema binary shares: the probe and the sanitised runtime (built once, cached)."""
    if not _BASE:
        with open(os.path.join(build.HSRC, "probe_codec.cpp"), "rb") as fh:
            pc = hashlib.sha256(fh.read()).hexdigest()[:16]      # probe_meta.cpp #includes probe_codec.cpp
        with build._Lock():
            build.f8c()
            po = build.compile_obj(os.path.join(build.HSRC, "probe_meta.cpp"), "asan", ["-DPROBE_CODEC_TEXT=0x%s" % pc])
            ro = build.runtime_objs("asan")
        _BASE.append([po] + ro)
    return _BASE[0]


class Built:
    def __init__(self, S, sid):
        self.S, self.sid = S, sid
        self.prefix, self.ns = "v" + sid, "V" + sid.upper()
        self.xml = self.gendir = self.binary = None
        self.f8c_ok = self.cxx_ok = self.link_ok = False
        self.log = ""
        self.f8c_out = ""


def build_schema(S, workdir):
    """Render, run f8c, compile its output, link with probe_meta.  Never raises for a failure of f8c or of the
    generated code: that is an observation (Compile event), not an infrastructure problem."""
    b = Built(S, schema_id(S))
    b.times = {}
    t0 = time.time()
    xdir = os.path.join(workdir, "xml")
    os.makedirs(xdir, exist_ok=True)
    b.xml = os.path.join(xdir, b.prefix + ".xml")
    with open(b.xml, "w") as fh:
        fh.write(render_xml(S))
    try:
        b.gendir = build.gen_schema(b.xml, b.prefix, b.ns, second_only=False)
        b.f8c_ok = True
        b.times["f8c"] = round(time.time() - t0, 1)
        with open(os.path.join(b.gendir, ".done")) as fh:
            b.f8c_out = fh.read()
    except build.BuildError as e:
        b.log = str(e)[-1500:]
        return b
    except subprocess.TimeoutExpired:
        b.log = "f8c timed out"
        return b
    # a compiler or linker failure is believed only if it repeats (a loaded machine can kill a compiler process)
    for attempt in (1, 2):
        try:
            objs = [build.compile_obj(os.path.join(b.gendir, "%s_%s.cpp" % (b.prefix, s)), "plain", ["-I" + b.gendir] + GEN_FLAGS)
                    for s in ("types", "traits", "classes")]
            b.cxx_ok = True
            b.times["cxx"] = round(time.time() - t0, 1)
            break
        except build.BuildError as e:
            b.log = str(e)[-1500:]
    if not b.cxx_ok:
        return b
    for attempt in (1, 2):
        try:
            b.binary = build.link("probe_meta_" + b.sid, objs + base_objects(), "asan")
            b.link_ok = True
            b.times["link"] = round(time.time() - t0, 1)
            break
        except build.BuildError as e:
            b.log = str(e)[-1500:]
    b.objs = objs
    return b


def discard(b, keep_objects):
    """Remove the per-schema build output (binary and generated sources always; objects unless the tier keeps
    them as a warm cache)."""
    if b.binary and os.path.exists(b.binary):
        os.unlink(b.binary)
    if not keep_objects:
        for o in getattr(b, "objs", []):
            if os.path.exists(o):
                os.unlink(o)
        if b.gendir:
            shutil.rmtree(b.gendir, ignore_errors=True)


# ---------------------------------------------------------------------------------------------------
# messages of a generated schema (round trips judged by T_Codec)
def register(b):
    """Make the schema known to lib/codec_common.py under its prefix (facts from the rendered XML)."""
    cc._SCH[b.prefix] = schema.Schema(b.xml)
    cc.NS[b.prefix] = b.ns


def message_specs(rng, b, per_type_random, n_deep, max_count, only=None):
    gen = cc.Gen(rng)
    s = cc.sch(b.prefix)
    specs = cc.structured_specs(gen, b.prefix, per_type_random, max_count)
    user = [mt for mt in sorted(s.bytype) if len(mt) > 1]
    if any(cc.group_depth(s.bytype[mt]["members"]) for mt in user):
        specs += cc.deep_specs(gen, b.prefix, n_deep)
    if only is not None:
        specs = [sp for sp in specs if sp.mt in only]
    else:
        # the session messages of the skeleton are the same in every schema: mandatory-only and all-optional suffice
        specs = [sp for sp in specs if len(sp.mt) > 1 or sp.kind in ("mandatory_only", "all_optional")]
    return specs


def run_meta(b):
    evs, rc, err = core.run_probe(b.binary, "", build.run_env(), timeout=120, args=["meta", b.ns])
    if rc != 0:                         # re-run once before believing an abort
        evs, rc, err = core.run_probe(b.binary, "", build.run_env(), timeout=120, args=["meta", b.ns])
    if rc != 0 and not any(e["e"] == "MEnd" for e in evs):
        rep = core.san_report(err, 1500)
        evs = [e for e in evs if e["e"] != "Error"] + [{"e": "MAbort", "rc": rc, "what": rep[:300]}]
    return evs


def run_messages(b, specs, wd):
    env = build.run_env()
    env["ASAN_OPTIONS"] += ":quarantine_size_mb=16"
    os.makedirs(wd, exist_ok=True)
    res, transient = cc._run_batch(b.binary, env, specs, "C01", wd)
    return [res.get(i) for i in range(len(specs))], transient


def process(job):
    """Everything that needs the per-schema binary, for one schema (runs in a worker thread)."""
    S, rng_seed, opts, workdir = job
    t0 = time.time()
    b = build_schema(S, workdir)
    out = {"b": b, "meta": [], "specs": [], "raw": [], "transient": 0, "t_build": time.time() - t0}
    if b.link_ok:
        out["meta"] = run_meta(b)
        b.times["meta"] = round(time.time() - t0, 1)
        register(b)
        rng = random.Random(rng_seed)
        out["specs"] = message_specs(rng, b, opts["per_type_random"], opts["n_deep"], opts["max_count"], opts.get("only"))
        out["raw"], out["transient"] = run_messages(b, out["specs"], os.path.join(workdir, "run_" + b.sid))
        shutil.rmtree(os.path.join(workdir, "run_" + b.sid), ignore_errors=True)
        b.times["messages"] = round(time.time() - t0, 1)
    discard(b, opts["keep_objects"])
    out["t_total"] = time.time() - t0
    return out


def meta_exec(b, evs):
    return [{"e": "Reset", "id": b.sid, "schema": b.S},
            {"e": "Compile", "f8c": b.f8c_ok, "cxx": b.cxx_ok, "link": b.link_ok}] + evs


def abstract_schema(S):
    """Shape of a schema without names: for counting distinct cases."""
    def shape(items):
        return [[e["k"], e["n"], e["r"], e["c"], shape(e["sub"])] for e in items]
    return [[(f["num"], f["type"], len(f["vals"])) for f in S["fields"] if f["num"] > 123 or f["num"] in (100, 101)],
            [(m["mt"], m["admin"], shape(m["items"])) for m in S["msgs"] if len(m["mt"]) > 1],
            [(c["name"], shape(c["items"])) for c in S["comps"]]]


def judge(ctx, prop, leaves_with_kind, skel, opts, name):
    """Build every schema (<= 8 at a time), dump metadata, run round trips, let the two monitors judge.
    leaves_with_kind: [(kind, leaf)].  Returns per-schema summaries."""
    base_objects()
    workdir = os.path.join(ctx.workdir, name)
    shutil.rmtree(workdir, ignore_errors=True)
    os.makedirs(workdir)
    saved_ns = dict(cc.NS)
    cc.NS.clear()                       # the SCHEMA side file of T_Codec then holds the generated schemas only
    jobs, seen = [], set()
    for i, (kind, leaf) in enumerate(leaves_with_kind):
        S = full_schema(skel, leaf)
        sid = schema_id(S)
        if sid in seen:
            continue
        seen.add(sid)
        jobs.append((kind, leaf, (S, "%d:%s" % (ctx.seed, sid), opts, workdir)))
    try:
        with ThreadPoolExecutor(max_workers=opts.get("parallel", 8)) as ex:
            outs = list(ex.map(lambda j: process(j[2]), jobs))
        ctx.tick(name + ":build+run")
        # ---- (i) metadata against the abstract schema state
        mexecs = [meta_exec(o["b"], o["meta"]) for o in outs]
        mfails, _labels, info = tlc.validate_execs("T_SchemaComp.tla", "T_SchemaComp.cfg", mexecs, ctx.workdir, name + "_meta",
                                                  chunks=min(6, max(1, len(mexecs) // 8)), heap="3g")
        ctx.add_validation(info, len(mexecs))
        ctx.tick(name + ":validate_meta")
        attributed = {}                 # (schema id, msgtype) -> attribution of a group whose traits are another definition's
        summaries = []
        by_exec = {}
        for f in mfails:
            by_exec.setdefault(f["exec"], []).append(f)
        for xi, ((kind, leaf, job), o) in enumerate(zip(jobs, outs)):
            b = o["b"]
            fs = sorted(features(leaf))
            ctx.case(["meta", kind, abstract_schema(b.S), [e["e"] for e in mexecs[xi][1:4]]], nontrivial=b.link_ok)
            summaries.append({"id": b.sid, "kind": kind, "features": fs, "f8c": b.f8c_ok, "cxx": b.cxx_ok, "link": b.link_ok,
                              "t_cumulative": b.times, "messages": len(o["specs"]),
                              "meta_fails": [f["sig"] for f in by_exec.get(xi, [])]})
            if o["transient"]:
                ctx.extra["transient_probe_aborts"] = ctx.extra.get("transient_probe_aborts", 0) + o["transient"]
            for f in by_exec.get(xi, []):
                ev = f["event"]
                if "traits_of_another_definition" in f["sig"]:
                    attributed[(b.sid, ev.get("mt"))] = f["sig"].split("traits_of_another_definition_of_the_count_field:")[1]
                ctx.fail(f["sig"], f["why"], {"schema_id": b.sid, "kind": kind, "features": fs, "hist": leaf["hist"], "leaf": leaf,
                                              "event": ev, "log": b.log, "xml": render_xml(b.S)})
        # ---- (ii) round trips judged by the codec monitor
        mons, where = [], []
        for xi, o in enumerate(outs):
            b = o["b"]
            for sp, r in zip(o["specs"], o["raw"]):
                if r is None:
                    raise core.Infra("no result for a message of schema %s" % b.sid)
                evs, abort = r
                mon = cc.to_monitor(sp, evs, "C01")
                if abort is not None:
                    ctx.case(["rt", b.sid] + cc.abstract_case(sp, mon) + ["abort"])
                    ctx.fail("roundtrip_abort:" + attributed.get((b.sid, sp.mt), "unexplained"),
                             "the library aborted on a message of a generated schema",
                             dict(cc.case_of(sp, "C01"), schema_id=b.sid, stderr=abort, leaf=jobs[xi][1], xml=render_xml(b.S)))
                    continue
                mons.append(mon)
                where.append((xi, sp))
                mons.append(cc.to_monitor(sp, evs, "C02"))      # the same encoding judged for wire well-formedness
                where.append((xi, sp))
        rfails, rinfo = cc.validate(ctx, mons, name + "_rt", chunks=max(1, min(6, len(mons) // 400)))
        ctx.add_validation(rinfo, len(mons))
        for (xi, sp), mon in zip(where, mons):
            ctx.case(["rt", abstract_schema(outs[xi]["b"].S)] + cc.abstract_case(sp, mon)[1:], nontrivial=len(mon) > 2)
        seen_exec = set()
        for f in rfails:
            if f["exec"] in seen_exec:
                continue
            seen_exec.add(f["exec"])
            xi, sp = where[f["exec"]]
            b = outs[xi]["b"]
            att = attributed.get((b.sid, sp.mt))
            sig = ("roundtrip_of_message_whose_group_has_%s:" % att if att else "") + f["sig"]
            summaries[xi].setdefault("rt_fails", []).append(sig)
            ctx.fail(sig, f["why"], dict(cc.case_of(sp, "C01"), schema_id=b.sid, kind=jobs[xi][0], event=cc.slim(f["event"]), pos=f["pos"],
                                         trace=[cc.slim(e) for e in mons[f["exec"]]], leaf=jobs[xi][1], xml=render_xml(b.S)))
        ctx.tick(name + ":validate_roundtrips")
        ctx.extra.setdefault("schemas", []).extend(summaries)
        ctx.extra["messages_round_tripped"] = ctx.extra.get("messages_round_tripped", 0) + len(mons) // 2
        return summaries, outs, mexecs
    finally:
        cc.NS.clear()
        cc.NS.update(saved_ns)
        shutil.rmtree(workdir, ignore_errors=True)


def selftest(ctx, mexecs):
    """Binding self-test: corrupt recorded fields of good metadata dumps and show the monitor rejects each."""
    good = [ex for ex in mexecs if any(e["e"] == "MEnd" for e in ex)][:4]
    if not good:
        raise core.Infra("self-test: no complete metadata dump")
    bad = []
    for k, ex in enumerate(good):
        ex = json.loads(json.dumps(ex))
        for e in ex:
            if k % 4 == 0 and e["e"] == "MMsg" and len(e["mt"]) > 1 and e["tr"]:
                e["tr"][0][3] = 1 - e["tr"][0][3]                       # a mandatory flag
                break
            if k % 4 == 1 and e["e"] == "MMsg" and len(e["tr"]) > 1 and e["mt"] == "header":
                e["tr"][0][2], e["tr"][-1][2] = e["tr"][-1][2], e["tr"][0][2]    # two positions
                break
            if k % 4 == 2 and e["e"] == "MField" and e["num"] == 35:
                e["vals"] = e["vals"][1:]                               # an enumerated value
                break
            if k % 4 == 3 and e["e"] == "MMsg" and e["mt"] == "A":
                e["admin"] = False                                      # the admin flag
                break
        bad.append(ex)
    f_bad, _l, _i = tlc.validate_execs("T_SchemaComp.tla", "T_SchemaComp.cfg", bad, ctx.workdir, "selftest_bad", chunks=1, heap="3g")
    rejected = len({f["exec"] for f in f_bad})
    ctx.extra["selftest"] = {"corrupted_rejected": rejected, "of": len(bad), "sigs": sorted({f["sig"] for f in f_bad})}
    if rejected != len(bad):
        raise core.Infra("monitor self-test failed: %s" % ctx.extra["selftest"])
