"""Check context: verdict rule, known findings, evidence, exit codes (DESIGN.md section 4)."""
import hashlib
import json
import os
import re
import subprocess
import sys
import time

VERIF = os.path.dirname(os.path.dirname(os.path.abspath(__file__)))
BUILD = os.path.join(VERIF, ".build")
FINDINGS = os.path.join(VERIF, "known_findings.json")


class Infra(Exception):
    """Something other than the property went wrong (build, TLC, probe plumbing): exit 2, no verdict."""


def load_findings(pid):
    with open(FINDINGS) as fh:
        doc = json.load(fh)
    out = [f for f in doc.get("findings", []) if f["property"] == pid]
    # findings.d/*.json: same format, staged by the builders of a module until merged into the main file
    d = os.path.join(VERIF, "findings.d")
    if os.path.isdir(d):
        for fn in sorted(os.listdir(d)):
            if fn.endswith(".json"):
                with open(os.path.join(d, fn)) as fh:
                    out += [f for f in json.load(fh).get("findings", []) if f["property"] == pid]
    return out


class Ctx:
    def __init__(self, pid, tier, seed, replay=None):
        self.pid, self.tier, self.seed, self.replay = pid, tier, seed, replay
        self.t0 = time.time()
        self.states = 0
        self.transitions = 0
        self.model_runs = []          # [{spec, cfg, states, transitions, wall, props}]
        self.evaluations = 0          # executions of the real code judged by a monitor
        self.traces = 0               # traces handed to TLC trace validation
        self.sigs = set()             # distinct non-trivial abstract executions
        self.samples = []
        self.failures = []            # [{sig, why, case}]
        self.known_hit = {}           # finding id -> count
        self.checker_cmds = []
        self.trusted = []
        self.assumptions = []
        self.rule = ""
        self.extra = {}
        self.exhaustive = False
        self.findings = load_findings(pid)
        self.workdir = os.path.join(BUILD, "work", pid)
        os.makedirs(self.workdir, exist_ok=True)
        self.quick = tier == "quick"

    # ---- bookkeeping -------------------------------------------------------------------------
    def add_model(self, res, spec, cfg, props=()):
        """Record an exhaustive/simulation TLC run of a design spec (res from tlc.check)."""
        st = res["stats"]
        self.states += st["distinct"]
        self.transitions += st["generated"]
        self.model_runs.append({"spec": spec, "cfg": cfg, "distinct_states": st["distinct"],
                                "states_generated": st["generated"], "depth": st["depth"],
                                "wall_s": round(res["wall"], 2), "properties": list(props)})
        self.checker_cmds.append(res["cmd"])

    def add_validation(self, verdict, ntraces):
        self.traces += ntraces
        st = verdict.get("stats", {})
        self.extra.setdefault("validation_states", 0)
        self.extra["validation_states"] += st.get("distinct", 0)
        if verdict.get("cmd") and verdict["cmd"] not in self.checker_cmds:
            self.checker_cmds.append(verdict["cmd"])

    def case(self, abstract, nontrivial=True, n=1):
        """Count one judged execution; `abstract` is its abstract event sequence (hashable via json)."""
        self.evaluations += n
        if nontrivial:
            h = hashlib.sha1(json.dumps(abstract, sort_keys=True, default=str).encode()).hexdigest()
            self.sigs.add(h)

    def tick(self, what):
        now = time.time()
        self.extra.setdefault("phases_s", []).append([what, round(now - getattr(self, "_tk", self.t0), 1)])
        self._tk = now

    def sample(self, x, limit=3):
        if len(self.samples) < limit:
            self.samples.append(x)

    def fail(self, sig, why, case):
        """A monitor rejected an execution.  `sig` identifies the failing input class / call site /
        history shape (used only to decide known finding vs new violation)."""
        self.failures.append({"sig": sig, "why": why, "case": case})

    # ---- verdict --------------------------------------------------------------------------------
    def _match(self, f):
        for k in self.findings:
            for pat in k["signatures"]:
                if re.fullmatch(pat, f["sig"]):
                    return k
        return None

    def finish(self, write_evidence=True):
        new = []
        known = {}
        for f in self.failures:
            k = self._match(f)
            if k is None:
                new.append(f)
            else:
                known.setdefault(k["id"], [k, 0])
                known[k["id"]][1] += 1
        from collections import Counter
        self.extra["rejection_signatures"] = dict(Counter(f["sig"] for f in self.failures))
        for kid, (k, n) in sorted(known.items()):
            print("KNOWN-FINDING: property=%s %s: %s (%d executions)" % (self.pid, kid, k["what"], n))
        rc = 0
        paths = []
        rdir = os.path.join(VERIF, "replay", self.pid)
        if os.path.isdir(rdir):
            for f in os.listdir(rdir):
                os.unlink(os.path.join(rdir, f))
        if new:
            os.makedirs(rdir, exist_ok=True)
            seen = set()
            for f in new:
                if f["sig"] in seen and len(seen) >= 1:
                    continue
                seen.add(f["sig"])
                if len(paths) >= 5:
                    break
                p = os.path.join(rdir, "%d_%d.json" % (self.seed, len(paths)))
                with open(p, "w") as fh:
                    json.dump({"property": self.pid, "sig": f["sig"], "why": f["why"], "case": f["case"]}, fh, indent=1, default=str)
                paths.append(p)
                print("VIOLATION property=%s replay=%s" % (self.pid, p))
                print("  why: %s | sig: %s" % (f["why"], f["sig"]))
            rc = 1
        if write_evidence:
            self.write_evidence(len(new), known)
        return rc

    def write_evidence(self, nviol, known):
        cov = {
            "states": self.states,
            "transitions": self.transitions,
            "traces_validated_against_impl": self.traces,
            "evaluations": self.evaluations,
            "distinct_nontrivial": len(self.sigs),
            "rule": self.rule,
            "samples": self.samples or [{"note": "no execution sampled"}],
            "checker_cmd": " ; ".join(self.checker_cmds[:6]),
            "trusted_base": self.trusted,
            "exhaustive": self.exhaustive,
            "model_runs": self.model_runs,
            "known_findings_hit": {k: v[1] for k, v in known.items()},
        }
        cov.update(self.extra)
        ev = {"property_id": self.pid, "tier": self.tier, "seed": self.seed, "level": "model_checking",
              "coverage": cov, "assumptions": self.assumptions,
              "wall_s": round(time.time() - self.t0, 2), "violations": nviol}
        os.makedirs(os.path.join(VERIF, "evidence"), exist_ok=True)
        p = os.path.join(VERIF, "evidence", self.pid + ".json")
        with open(p + ".tmp", "w") as fh:
            json.dump(ev, fh, indent=1, default=str)
        os.replace(p + ".tmp", p)


def run_probe(binary, commands, env, timeout=600, cwd=None, args=()):
    """Feed ndjson commands on stdin, collect ndjson events from stdout.  Returns (events, rc, stderr)."""
    inp = "".join(json.dumps(c) + "\n" for c in commands) if not isinstance(commands, str) else commands
    try:
        r = subprocess.run([binary] + list(args), input=inp, capture_output=True, text=True, env=env, timeout=timeout,
                           cwd=cwd, errors="replace")
    except subprocess.TimeoutExpired as e:
        raise Infra("probe timed out: %s" % binary)
    evs = []
    for line in r.stdout.splitlines():
        if line.startswith("{"):
            try:
                evs.append(json.loads(line))
            except Exception:
                raise Infra("probe printed a malformed event: %r" % line[:200])
    return evs, r.returncode, r.stderr


def san_report(err, limit=5000):
    """The sanitizer report inside a probe's stderr (head of it), or the tail of stderr."""
    for key in ("ERROR: AddressSanitizer", "runtime error:", "WARNING: ThreadSanitizer", "ERROR: LeakSanitizer"):
        i = err.find(key)
        if i >= 0:
            return err[max(0, i - 200):i + limit]
    return err[-limit:]


def write_trace(path, events):
    with open(path, "w") as fh:
        for e in events:
            fh.write(json.dumps(e, separators=(",", ":")) + "\n")
    return path
