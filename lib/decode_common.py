"""Shared driver pieces for C03-C06 (decoder side of the codec): schema rendering for the TLA+ acceptor,
typed value generation, wire composition / tokenisation, projection of probe_decode events onto the
monitor alphabet of spec/T_Decode.tla.  Nothing here decides a property: the acceptor and all
comparisons live in spec/Decode.tla / spec/T_Decode.tla."""
import json
import os
import random
import re
from concurrent.futures import ThreadPoolExecutor
from decimal import Decimal, InvalidOperation

import build
import core
import schema as schema_mod
import tlc

SOH = b"\x01"
PROBE = ("probe_decode", "asan", None, ["utest", "fix44"])
SCHEMAS = {"utest": "u", "fix44": "f"}

INT_TYPES = {"INT", "LENGTH", "SEQNUM", "NUMINGROUP", "DAYOFMONTH"}
FLOAT_TYPES = {"FLOAT", "PRICE", "QTY", "QUANTITY", "AMT", "PRICEOFFSET", "PERCENTAGE"}

_cache = {}


def stock(which):
    if which not in _cache:
        _cache[which] = schema_mod.stock(which)
    return _cache[which]


def probe_binary():
    return build.probe(*PROBE[:2], runtime=PROBE[2], schemas=PROBE[3])


# ---- schema -> JSON for Decode.tla ------------------------------------------------------------------
class Rendered:
    """scopes (1-based ids) of one schema in the shape Decode.tla expects, plus per-scope member lists."""

    def __init__(self, which):
        self.which = which
        self.s = stock(which)
        self.scopes = []          # [{f:{key:{m,g}}, first}]
        self.members = []         # per scope id-1: [Member]
        self.hdr = self._scope(self.s.header, "")
        self.trl = self._scope(self.s.trailer, "")
        self.msgs = {}
        self.bad = {}             # message type -> reason it is not used (ambiguous positions)
        hk = set(self.scopes[self.hdr - 1]["f"])
        tk = set(self.scopes[self.trl - 1]["f"])
        if hk & tk:
            raise core.Infra("header and trailer share tags")
        for name, m in self.s.messages.items():
            sid = self._scope(m["members"], "")
            why = self._ambiguous(sid, [hk | tk])
            if why:
                self.bad[m["msgtype"]] = why
            self.msgs[m["msgtype"]] = sid
        why = self._ambiguous(self.hdr, [tk])
        if why:
            raise core.Infra("header scope ambiguous: " + why)

    def _scope(self, members, first):
        sid = len(self.scopes) + 1
        sc = {"f": {}, "first": first}
        self.scopes.append(sc)
        self.members.append(members)
        for m in members:
            g = 0
            if m.group:
                g = self._scope(m.group, str(m.group[0].field.number))
            sc["f"][str(m.field.number)] = {"m": bool(m.required), "g": g}
        return sid

    def _ambiguous(self, sid, outer):
        """None if every group scope below sid is disjoint from all enclosing key sets."""
        keys = set(self.scopes[sid - 1]["f"])
        for o in outer:
            if keys & o:
                return "scope %d shares %s with an enclosing scope" % (sid, sorted(keys & o)[:3])
        for k, info in self.scopes[sid - 1]["f"].items():
            if info["g"]:
                why = self._ambiguous(info["g"], outer + [keys])
                if why:
                    return why
        return None

    def as_json(self):
        return {"scopes": self.scopes, "hdr": self.hdr, "trl": self.trl, "msgs": self.msgs}


def rendered(which):
    key = ("r", which)
    if key not in _cache:
        _cache[key] = Rendered(which)
    return _cache[key]


def write_schema_file(workdir):
    p = os.path.join(workdir, "decode_schema.json")
    with open(p, "w") as fh:
        json.dump({w: rendered(w).as_json() for w in SCHEMAS}, fh, separators=(",", ":"))
    return p


# ---- values ----------------------------------------------------------------------------------------
def ftype(s, tag):
    f = s.bynum.get(tag)
    return f.type.strip() if f else None


def typed_value(s, tag, rng, variant=0):
    """A well-formed value of the field's type whose text the library renders back unchanged."""
    f = s.bynum[tag]
    t = f.type.strip()
    if f.values and t not in ("BOOLEAN",) and not (t in INT_TYPES and variant):
        vals = [v for v, _ in f.values if v and (t != "CHAR" or len(v) == 1)]   # FIX44 MiscFeeType: CHAR with "10".."12"
        if vals:
            return vals[rng.randrange(len(vals))].encode()
    if t in INT_TYPES:
        return str(rng.choice([1, 7, 42, 300, 65536, 1234567])).encode()
    if t in FLOAT_TYPES:
        return rng.choice(["12.5", "0.25", "100", "7.75", "99.5"]).encode()
    if t == "CHAR":
        return rng.choice(["A", "z", "7"]).encode()
    if t == "BOOLEAN":
        return rng.choice(["Y", "N"]).encode()
    if t == "UTCTIMESTAMP":
        return ("2024%02d%02d-%02d:%02d:%02d.%03d" % (rng.randint(1, 12), rng.randint(1, 28), rng.randint(0, 23),
                                                     rng.randint(0, 59), rng.randint(0, 59), rng.randint(0, 999))).encode()
    if t == "UTCTIMEONLY":
        return ("%02d:%02d:%02d.%03d" % (rng.randint(0, 23), rng.randint(0, 59), rng.randint(0, 59), rng.randint(0, 999))).encode()
    if t in ("UTCDATEONLY", "UTCDATE", "LOCALMKTDATE"):
        return ("2024%02d%02d" % (rng.randint(1, 12), rng.randint(1, 28))).encode()
    if t == "MONTHYEAR":
        return ("2024%02d" % rng.randint(1, 12)).encode()
    if t == "CURRENCY":
        return rng.choice([b"USD", b"EUR"])
    if t == "EXCHANGE":
        return rng.choice([b"XNYS", b"XASX"])
    if t == "COUNTRY":
        return rng.choice([b"US", b"AU"])
    if t == "DATA":
        return rng.choice([b"abc", b"raw data", b"x"])
    # STRING, MULTIPLEVALUESTRING, ...
    return ("s%d%s" % (tag, rng.choice(["", " a=b", "-Q"]))).encode()


def canon(s, tag, raw):
    """Value-preserving normal form of a field text (used on both sides of every comparison): integers
    without leading zeros / plus sign, decimals without trailing zeros, timestamps with milliseconds."""
    t = ftype(s, tag) if tag is not None else None
    try:
        txt = raw.decode("ascii")
    except UnicodeDecodeError:
        txt = None
    if txt is not None and t in INT_TYPES and re.fullmatch(r"[+]?\d{1,15}", txt):
        return str(int(txt)).encode()
    if txt is not None and t in FLOAT_TYPES and re.fullmatch(r"[+-]?\d{1,12}(\.\d{0,9})?", txt):
        try:
            d = Decimal(txt).normalize()
            return format(d, "f").encode() if d != 0 else b"0"
        except InvalidOperation:
            return raw
    if txt is not None and t == "UTCTIMESTAMP" and re.fullmatch(r"\d{8}-\d\d:\d\d:\d\d", txt):
        return (txt + ".000").encode()
    if txt is not None and t == "UTCTIMEONLY" and re.fullmatch(r"\d\d:\d\d:\d\d", txt):
        return (txt + ".000").encode()
    return raw


def safe(b):
    """Byte string -> text that survives JSON and TLC unchanged (printable ASCII verbatim, else hex)."""
    if all(0x20 <= c < 0x7f and c not in (0x22, 0x5c) for c in b):
        return b.decode("ascii")
    return "x:" + b.hex()


def tagkey(raw):
    """Canonical key of a tag text: its decimal text if it is a positive number without leading zeros."""
    try:
        t = raw.decode("ascii")
    except UnicodeDecodeError:
        return "?" + raw.hex()
    if re.fullmatch(r"[1-9]\d{0,17}", t):
        return t
    return "?" + t


def tagnum(raw):
    k = tagkey(raw)
    return int(k) if not k.startswith("?") else None


# ---- message trees ---------------------------------------------------------------------------------
# node = (tag:int, value:bytes, elems or None); elems = [[node...], ...]
def gen_members(s, members, rng, popt=0.35, depth=0, nelem=(1, 2), skip=(), force=(), values=None):
    """force: tags included even if optional; values: {tag: bytes} overriding the generated value (for a
    data field its Length partner follows the override)."""
    values = values or {}
    out = []
    i = 0
    while i < len(members):
        m = members[i]
        tag = m.field.number
        nxt = members[i + 1] if i + 1 < len(members) else None
        t = m.field.type.strip()
        if tag in skip:
            i += 1
            continue
        if t == "LENGTH" and nxt is not None and nxt.field.type.strip() == "DATA":
            if m.required or nxt.required or tag in force or nxt.field.number in force or rng.random() < popt:
                data = values.get(nxt.field.number, None)
                if data is None:
                    data = typed_value(s, nxt.field.number, rng)
                out.append((tag, str(len(data)).encode(), None))
                out.append((nxt.field.number, data, None))
            i += 2
            continue
        take = m.required or (depth > 0 and i == 0) or tag in force or rng.random() < popt
        if take:
            if m.group:
                n = rng.randint(*nelem) if depth < 3 else 1
                elems = [gen_members(s, m.group, rng, popt * 0.6, depth + 1, nelem, (), force, values) for _ in range(n)]
                out.append((tag, str(n).encode(), elems))
            elif t == "DATA":
                pass            # data without its length field: leave out
            else:
                out.append((tag, values.get(tag) or typed_value(s, tag, rng), None))
        i += 1
    return out


def gen_message(s, mt, rng, popt=0.35):
    """(header nodes without 8/9/35, body nodes, trailer nodes without 10) of a conforming message."""
    md = s.bytype[mt]
    h = gen_members(s, s.header, rng, popt * 0.5, skip=(8, 9, 35))
    b = gen_members(s, md["members"], rng, popt)
    t = gen_members(s, s.trailer, rng, popt * 0.5, skip=(10,))
    return h, b, t


def flatten_nodes(nodes):
    """nodes -> [(tag bytes, value bytes)] in wire order."""
    out = []
    for tag, val, elems in nodes:
        out.append((str(tag).encode(), val))
        for el in elems or []:
            out += flatten_nodes(el)
    return out


def wire(tokens):
    return b"".join(t + b"=" + v + SOH for t, v in tokens)


def compose(begin, mt, tokens, bad_checksum=False, no_trailer=False):
    """tokens: [(tag bytes, value bytes)] after MsgType and before CheckSum -> (bytes, all tokens)."""
    payload = wire([(b"35", mt.encode())] + tokens)
    head = wire([(b"8", begin.encode()), (b"9", str(len(payload)).encode())])
    s = head + payload
    ck = sum(s) % 256
    if bad_checksum:
        ck = (ck + 1) % 256
    alltoks = [(b"8", begin.encode()), (b"9", str(len(payload)).encode()), (b"35", mt.encode())] + tokens
    if no_trailer:
        return s, alltoks
    ct = (b"10", ("%03d" % ck).encode())
    return s + wire([ct]), alltoks + [ct]


def tokenize(s, data):
    """Wire bytes -> [(tag bytes, value bytes)]; a Length field immediately followed by the data field the schema
    pairs it with gives that data field exactly that many bytes."""
    out = []
    i, n = 0, len(data)
    want = None
    want_for = None        # the data field the last Length field is paired with in the schema (only that one is cut by length)
    pairmap = {a.number: b.number for a, b in s.length_pairs()}
    while i < n:
        eq = data.find(b"=", i)
        if eq < 0:
            out.append((data[i:], None))
            break
        tag = data[i:eq]
        tn = tagnum(tag)
        if want is not None and tn is not None and tn == want_for and eq + 1 + want < n and data[eq + 1 + want:eq + 2 + want] == SOH:
            val = data[eq + 1:eq + 1 + want]
            i = eq + 2 + want
        else:
            end = data.find(SOH, eq + 1)
            if end < 0:
                out.append((tag, data[eq + 1:]))
                break
            val = data[eq + 1:end]
            i = end + 1
        out.append((tag, val))
        want = None
        if tn is not None and tn in pairmap and re.fullmatch(rb"\d{1,6}", val):
            want, want_for = int(val), pairmap[tn]
    return out


# ---- projection onto the monitor alphabet -----------------------------------------------------------
def _paired(s):
    """Length fields that the schema pairs with a data field."""
    key = ("paired", id(s))
    if key not in _cache:
        _cache[key] = {a.number for a, b in s.length_pairs()}
    return _cache[key]


def tok_events(s, tokens):
    """[(tag, value)] -> token records of Decode.tla (+ raw tag text `r`, type class `t` for labels)."""
    out = []
    for tag, val in tokens:
        tn = tagnum(tag)
        k = tagkey(tag)
        val = val if val is not None else b""
        ft = ftype(s, tn) if tn is not None else None
        v = canon(s, tn, val) if tn is not None and tn in s.bynum else val
        vt = v.decode("latin-1")
        rec = {"k": k, "v": safe(v), "c": int(vt) if re.fullmatch(r"\d{1,9}", vt) else 0,
               "k16": str(tn % 65536) if tn is not None else k, "r": safe(tag),
               "t": ("len" if tn in _paired(s) else "lone") if (ft == "LENGTH" and tn != 9) else ("data" if ft == "DATA" else "")}
        out.append(rec)
    return out


def flat_tree(s, ev, prefix=""):
    """Retained field tree of a Decode event -> [{p, k, v}] with the path format of Decode.tla."""
    out = []

    def walk(nodes, path):
        for tag, hexv, elems in nodes:
            out.append({"p": path, "k": str(tag), "v": safe(canon(s, tag, bytes.fromhex(hexv)))})
            for i, el in enumerate(elems):
                walk(el, "%s/%d.%d" % (path, tag, i + 1))
    for sec in ("h", "b", "t"):
        walk(ev.get(prefix + sec, []), sec)
    return out


def flat_nodes(s, h, b, t):
    """Requested message tree -> [{p, k, v}] (same format as flat_tree)."""
    out = []

    def walk(nodes, path):
        for tag, val, elems in nodes:
            out.append({"p": path, "k": str(tag), "v": safe(canon(s, tag, val))})
            for i, el in enumerate(elems or []):
                walk(el, "%s/%d.%d" % (path, tag, i + 1))
    walk(h, "h")
    walk(b, "b")
    walk(t, "t")
    return out


def result_class(ev):
    """ok | exc | abort:<how> from a Decode/Encode/Abort event."""
    if ev is None:
        return "lost"
    if ev["e"] == "Abort":
        return "abort:" + ev["how"]
    r = ev.get("res")
    if r == "ok":
        return "ok"
    if r in ("f8exc", "stdexc"):
        return "exc"
    return "otherexc"


# ---- running the probe ------------------------------------------------------------------------------
def _lane(binary, env, part, limit_ms, timeout):
    """Run the commands of one lane; when the probe dies (sanitizer report, crash, watchdog) the command
    in flight gets an Abort event and a fresh probe continues behind it."""
    out, pos, restarts = {}, 0, 0
    while pos < len(part):
        lines = ["limit %d" % limit_ms] + [c for _, c in part[pos:]] + ["quit"]
        evs, rc, err = core.run_probe(binary, "\n".join(lines) + "\n", env, timeout=timeout)
        cur, done = None, 0
        for ev in evs:
            if ev["e"] == "Error":
                raise core.Infra("probe_decode: %s" % ev)
            if ev["e"] == "Begin":
                cur = ev["id"]
                out[cur] = []
            elif ev["e"] == "End":
                done += 1
                cur = None
            elif cur is not None:
                out[cur].append(ev)
        if rc == 0 and done == len(part) - pos:
            break
        if pos + done >= len(part):
            raise core.Infra("probe_decode exited %d after its last command: %s" % (rc, err[-800:]))
        cid = part[pos + done][0]
        how = "sanitizer" if (rc == 97 or "Sanitizer" in err or "runtime error:" in err) else ("timeout" if rc == 98 else "crash")
        out.setdefault(cid, [])
        out[cid] = [e for e in out[cid] if e["e"] != "Timeout"] + \
            [{"e": "Abort", "id": cid, "how": how, "rc": rc, "report": core.san_report(err, 3000)}]
        pos += done + 1
        restarts += 1
    return out, restarts


def run_cmds(ctx, cmds, nproc=8, limit_ms=10000, timeout=1200):
    """cmds: list of (id, command string).  Returns {id: [events]}.  An input on which the probe aborted is
    re-run once on its own (longer watchdog) and the abort is believed only if it repeats."""
    binary = probe_binary()
    env = build.run_env()
    nproc = max(1, min(nproc, len(cmds) // 20 or 1))
    parts = [cmds[i::nproc] for i in range(nproc)]
    with ThreadPoolExecutor(max_workers=nproc) as ex:
        res = list(ex.map(lambda p: _lane(binary, env, p, limit_ms, timeout), parts))
    out = {}
    for o, _ in res:
        out.update(o)
    # a sanitizer report is its own evidence; what is re-run is an abort without one (watchdog, crash)
    aborted = [(i, c) for i, c in cmds if any(e["e"] == "Abort" and e["how"] != "sanitizer" for e in out.get(i, []))]
    if aborted:
        with ThreadPoolExecutor(max_workers=min(8, len(aborted))) as ex:
            again = list(ex.map(lambda ic: _lane(binary, env, [ic], limit_ms * 3, timeout)[0], aborted))
        for (i, _), o in zip(aborted, again):
            if not any(e["e"] == "Abort" for e in o.get(i, [])):
                ctx.extra["transient_probe_aborts"] = ctx.extra.get("transient_probe_aborts", 0) + 1
                out[i] = o[i]
    ctx.extra["probe_aborts"] = ctx.extra.get("probe_aborts", 0) + sum(
        1 for i, _ in cmds if any(e["e"] == "Abort" for e in out.get(i, [])))
    return out


def san_kind(report):
    """(kind, innermost fix8 function) of a sanitizer report: ('asan:stack-buffer-overflow', 'extract_element')."""
    m = re.search(r"ERROR: AddressSanitizer: ([\w-]+)", report)
    kind = "asan:" + m.group(1) if m else None
    if kind is None:
        m = re.search(r"runtime error: ([a-z -]+?)(?: of| by|:| -?\d|$)", report)
        kind = "ubsan:" + m.group(1).strip().replace(" ", "_") if m else "unknown"
    fn = "unknown"
    for f in re.findall(r"#\d+ 0x\w+ in ([^\n]+)", report):
        m = re.search(r"FIX8::(?:\w+::)*(\w+)(?:<[^(]*>)?\(", f)
        if m:
            fn = m.group(1)
            break
    if fn == "unknown":          # no stack in the report: fall back on the source file of the report line
        m = re.search(r"([\w.]+\.(?:hpp|cpp|h|c)):\d+:\d+: runtime error", report)
        if m:
            fn = m.group(1)
    return kind, fn


def dec_cmd(i, which, mode, nochk, data):
    return "dec %s %s %s %d %s" % (i, SCHEMAS[which], mode, 1 if nochk else 0, data.hex() or "-")


def enc_items(nodes):
    out = []
    for tag, val, elems in nodes:
        out.append("F%d=%s" % (tag, val.hex() or "-"))
        if elems is not None:
            out.append("G%d" % tag)
            for el in elems:
                out.append("E")
                out += enc_items(el)
                out.append("e")
            out.append("g")
    return out


def enc_cmd(i, which, mt, h, b, t, decode=True, replace=()):
    """replace: [(tag, new value bytes)] applied to the decoded message before it is encoded and decoded again."""
    items = ["H"] + enc_items(h) + ["B"] + enc_items(b) + ["T"] + enc_items(t) + (["D"] if decode else []) + \
        ["R%d=%s" % (tg, v.hex() or "-") for tg, v in replace]
    return "enc %s %s %s %s" % (i, SCHEMAS[which], mt, " ".join(items))


def validate(ctx, execs, name, chunks=8):
    os.environ["DECODE_SCHEMA"] = write_schema_file(ctx.workdir)
    return tlc.validate_execs("T_Decode.tla", "T_Decode.cfg", execs, ctx.workdir, name, chunks=chunks, timeout=1500, heap="6g")


# ---- instantiation of the small schema's token alphabet (MC_Decode.tla) on real message types ------
def _plain(m):
    return not m.group and m.field.type.strip() not in ("LENGTH", "DATA", "NUMINGROUP")


class Roles:
    """Which real tags play Hm Ho Bm Bo G Gf Go N Nf No To U W for one message type."""

    def __init__(self, which, mt):
        self.which, self.mt = which, mt
        self.s = s = stock(which)
        md = s.bytype[mt]
        mem = md["members"]
        self.Hm, self.Ho = 52, 50
        self.hfill = [m for m in s.header if m.required and m.field.number not in (8, 9, 35, 52)]
        self.Bm = next((m for m in mem if m.required and _plain(m)), None)
        self.Bo = next((m for m in mem if not m.required and _plain(m) and not m.field.values), None) or \
            next((m for m in mem if not m.required and _plain(m)), None)
        self.G = self.Go = self.N = self.No = None
        best = None
        for m in mem:
            if not m.group or not _plain(m.group[0]):
                continue
            go = next((x for x in m.group[1:] if _plain(x) and not x.required), None)
            nest = None
            for x in m.group[1:]:
                if x.group and _plain(x.group[0]):
                    no = next((y for y in x.group[1:] if _plain(y)), None)
                    if no is not None:
                        nest = (x, no)
                        break
            score = (nest is not None, go is not None)
            if go is not None and (best is None or score > best[0]):
                best = (score, m, go, nest)
        if best:
            _, self.G, self.Go, nest = best
            if nest:
                self.N, self.No = nest
        unknown = [t for t in (5001, 5003, 40000, 65535, 2 ** 32 + 5001, 10 ** 19 + 7) if t not in s.bynum]
        self.U = unknown
        self.ok = self.Bm is not None and self.Bo is not None

    def supports(self, names):
        if not self.ok:
            return False
        if any(n in ("G1", "G2", "Gf", "Go") for n in names) and self.G is None:
            return False
        if any(n in ("N1", "Nf", "No") for n in names) and self.N is None:
            return False
        return True

    def instantiate(self, names, rng):
        """Abstract token names (after MsgType) -> (wire bytes, tokens, byte sum before CheckSum)."""
        s = self.s
        tv = lambda tag: (str(tag).encode(), typed_value(s, tag, rng))
        out = [tv(m.field.number) for m in self.hfill]
        body_fill = None
        post = None          # tokens after the checksum token
        chk = None
        for a in names:
            dst = out if post is None else post
            if a not in ("Hm", "Ho", "U", "W") and body_fill is None:
                skip = {self.Bm.field.number} | ({self.G.field.number} if self.G else set())
                md = s.bytype[self.mt]
                body_fill = flatten_nodes(gen_members(s, [m for m in md["members"] if m.required and m.field.number not in skip],
                                                      rng, popt=0.0, nelem=(1, 1)))
                dst += body_fill
            if a == "Hm":
                dst.append(tv(self.Hm))
            elif a == "Ho":
                dst.append(tv(self.Ho))
            elif a == "Bm":
                dst.append(tv(self.Bm.field.number))
            elif a == "Bo":
                dst.append(tv(self.Bo.field.number))
            elif a in ("G1", "G2"):
                dst.append((str(self.G.field.number).encode(), a[1].encode()))
            elif a == "Gf":
                dst.append(tv(self.G.group[0].field.number))
                keep = {self.G.group[0].field.number, self.Go.field.number} | ({self.N.field.number} if self.N else set())
                dst += flatten_nodes(gen_members(s, [m for m in self.G.group if m.required and m.field.number not in keep],
                                                 rng, popt=0.0, depth=1, nelem=(1, 1)))
            elif a == "Go":
                dst.append(tv(self.Go.field.number))
            elif a == "N1":
                dst.append((str(self.N.field.number).encode(), b"1"))
            elif a == "Nf":
                dst.append(tv(self.N.group[0].field.number))
                keep = {self.N.group[0].field.number, self.No.field.number}
                dst += flatten_nodes(gen_members(s, [m for m in self.N.group if m.required and m.field.number not in keep],
                                                 rng, popt=0.0, depth=2, nelem=(1, 1)))
            elif a == "No":
                dst.append(tv(self.No.field.number))
            elif a == "To":
                dst += [(b"93", b"3"), (b"89", b"sig")]
            elif a == "U":
                dst.append((str(rng.choice(self.U)).encode(), b"unk"))
            elif a == "W":
                # a tag that equals a legal field of this position modulo 2^16, 2^32 or 2^64 (number conversions that wrap)
                dst.append((str(rng.choice([65536, 65536, 2 ** 32, 2 ** 64]) + self.Bo.field.number).encode(),
                            typed_value(s, self.Bo.field.number, rng)))
            elif a in ("Cok", "Cbad"):
                chk = a
                post = []
        return compose2(s.beginstring, self.mt, out, chk, post or [])


def compose2(begin, mt, tokens, chk, post=()):
    """8/9/35 + tokens [+ CheckSum (chk = 'Cok' | 'Cbad') + post] -> (bytes, all tokens, byte sum before CheckSum)."""
    payload = wire([(b"35", mt.encode())] + tokens)
    head = [(b"8", begin.encode()), (b"9", str(len(payload)).encode())]
    pre = wire(head) + payload
    sm = sum(pre) % 256
    allt = head + [(b"35", mt.encode())] + tokens
    if chk is None:
        return pre, allt, sm
    ct = (b"10", ("%03d" % (sm if chk == "Cok" else (sm + 1) % 256)).encode())
    return pre + wire([ct]) + wire(list(post)), allt + [ct] + list(post), sm


def strict_event(s, tokens, sm, ev, wf=True):
    """Monitor event of one strict decode."""
    rc = result_class(ev)
    return {"e": "Strict", "toks": tok_events(s, tokens), "sum": sm, "wf": wf, "res": rc,
            "flat": flat_tree(s, ev) if rc == "ok" else [],
            "exc": (ev.get("cls", "") + ":" + ev.get("what", ""))[:120] if rc == "exc" else ""}
