"""Shared driver pieces for C28 (probe_logger) and C29 (probe_rotate): build, run, project events."""
import os
import re
import shutil
from concurrent.futures import ThreadPoolExecutor

import build
import core

LOGGER_RUNTIME = ["logger.cpp", "f8utils.cpp"]
ROTATE_RUNTIME = ["logger.cpp", "f8utils.cpp", "filepersist.cpp", "persist.cpp"]


def logger_probe():
    return build.probe("probe_logger", "asan", runtime=LOGGER_RUNTIME, schemas=[])


# ---- C28 ---------------------------------------------------------------------------------------------
def complete_schedule(prefix):
    """A TLC-exported schedule prefix, completed so that it ends with stop() returning: stop() is called if it
    was not, the consumer is stepped until it must have finished, stop() joins."""
    s = [dict(x) for x in prefix]
    acts = [x["a"] for x in s]
    inpush = set()
    for x in s:
        if x["a"] == "R":
            inpush.add(x["p"])
        elif x["a"] == "P":
            inpush.discard(x["p"])
    if "J" in acts:
        return s + [{"a": "P", "p": p, "en": 0} for p in sorted(inpush)]
    if "X" not in acts:
        s.append({"a": "X", "p": 0, "en": 0})
    nen = sum(1 for x in s if x["a"] in ("S", "R") and x["en"])
    if inpush:
        # the consumer polls while a producer still sits inside its push, then the producer finishes
        s += [{"a": "C", "p": 0, "en": 0}] * 2
        s += [{"a": "P", "p": p, "en": 0} for p in sorted(inpush)]
    s += [{"a": "C", "p": 0, "en": 0}] * (nen + 2)
    s.append({"a": "J", "p": 0, "en": 0})
    return s


def sched_cmd(i, np_, sched):
    toks = []
    for x in sched:
        if x["a"] in ("S", "R"):
            toks.append("%s%d%s" % (x["a"], x["p"], "e" if x["en"] else "d"))
        elif x["a"] == "P":
            toks.append("P%d" % x["p"])
        else:
            toks.append(x["a"])
    return "sched %d %d %s" % (i, np_, " ".join(toks))


def free_cmd(i, np_, nl, stopafter, seed, jitter):
    return "free %d %d %d %d %d %d" % (i, np_, nl, stopafter, seed, jitter)


def to_monitor(ev):
    e = ev["e"]
    if e == "Reset":
        return {"e": e, "mode": ev["mode"], "np": ev["np"], "sched": ev["sched"]}
    if e == "Submit":
        return {"e": e, "p": ev["p"], "k": ev["k"], "en": ev["en"], "ret": ev["ret"], "t0": ev["t0"], "t1": ev["t1"]}
    if e == "File":
        return {"e": e, "lines": [{"n": x["n"], "p": x["p"], "k": x["k"]} for x in ev["lines"]], "bad": ev["bad"]}
    if e in ("Stop", "Late", "Parks"):
        return dict(ev)
    return None


def run_logger(ctx, cmds, name, nproc=8, batch=250):
    """cmds: list of probe command lines (one execution each).  Returns the executions (monitor events)
    aligned with cmds and a list of probe aborts [(first cmd index of the batch, rc, report)]."""
    binary = logger_probe()
    env = build.run_env()
    wd = os.path.join(ctx.workdir, name)
    shutil.rmtree(wd, ignore_errors=True)
    os.makedirs(wd)
    batches = [(i, cmds[i:i + batch]) for i in range(0, len(cmds), batch)]

    def one(b):
        start, cs = b
        text = "dir %s/b%d\n" % (wd, start) + "\n".join(cs) + "\nquit\n"
        evs, rc, err = core.run_probe(binary, text, env, timeout=600, cwd=wd)
        if rc != 0 and rc != 3:       # 3 = the probe's watchdog: a stop() that never returned (already recorded)
            ctx.extra["transient_probe_aborts"] = ctx.extra.get("transient_probe_aborts", 0) + 1
            evs, rc, err = core.run_probe(binary, text, env, timeout=600, cwd=wd)
        return start, len(cs), evs, rc, err
    with ThreadPoolExecutor(max_workers=nproc) as ex:
        res = list(ex.map(one, batches))
    execs = [None] * len(cmds)
    aborts = []
    for start, n, evs, rc, err in res:
        got, cur = [], None
        for ev in evs:
            if ev["e"] == "Error":
                raise core.Infra("probe_logger: %s" % ev)
            if ev["e"] == "Reset":
                cur = []
                got.append(cur)
            m = to_monitor(ev)
            if m is not None and cur is not None:
                cur.append(m)
        complete = [g for g in got if g and g[-1]["e"] == "Late"]
        for j, g in enumerate(complete):
            execs[start + j] = g
        if rc != 0:
            aborts.append((start + len(complete), rc, core.san_report(err)))
        elif len(complete) != n:
            raise core.Infra("probe_logger: %d of %d executions completed without an abort" % (len(complete), n))
    shutil.rmtree(wd, ignore_errors=True)
    return execs, aborts


# ---- C29 ---------------------------------------------------------------------------------------------
ASSERT_FLAGS = ["-D_GLIBCXX_ASSERTIONS"]     # vector::operator[] beyond size() aborts instead of reading on


def rotate_probe():
    """probe_rotate and the runtime files it links, all compiled with libstdc++ assertions on top of ASan/UBSan:
    an index beyond the rotation bookkeeping is then an abort whatever the heap happens to hold."""
    with build._Lock():
        objs = build.compile_many([os.path.join(build.HSRC, "probe_rotate.cpp")], "asan", ASSERT_FLAGS)
        objs += build.runtime_objs("asan", ROTATE_RUNTIME, ASSERT_FLAGS)
        return build.link("probe_rotate", objs, "asan")


_GEN = {"log": [(re.compile(r"name"), "log", 0), (re.compile(r"name\.([1-9][0-9]*)"), "log", None)],
        "store": [(re.compile(r"store"), "db", 0), (re.compile(r"store\.idx"), "idx", 0),
                  (re.compile(r"store\.([1-9][0-9]*)"), "db", None), (re.compile(r"store\.([1-9][0-9]*)\.idx"), "idx", None)]}


def gen_name(kind, fam, g):
    if kind == "log":
        return "name" if g == 0 else "name.%d" % g
    base = "store" if g == 0 else "store.%d" % g
    return base + (".idx" if fam == "idx" else "")


def classify(kind, name, others):
    """File name -> (family, generation); every name that is not <base> or <base>.<k> is a bystander."""
    for rx, fam, g in _GEN[kind]:
        m = rx.fullmatch(name)
        if m:
            k = g if g is not None else int(m.group(1))
            if k < 2 ** 30:
                return fam, k
    return "other", others.setdefault(name, len(others) + 1)


def rotate_to_monitor(ev):
    others = {}
    out = {"e": "Rotate", "kind": ev["kind"], "rotnum": ev["rotnum"], "append": ev["append"], "force": ev["force"],
           "purge": ev.get("purge", False), "crashed": ev.get("crashed", False), "crash": ev.get("crash", "")}
    for side in ("before", "after"):
        lst = []
        for x in ev.get(side, []):
            fam, g = classify(ev["kind"], x["name"], others)
            lst.append({"f": fam, "g": g, "c": x["c"]})
        out[side] = lst
    return out


def classify_abort(rc, err):
    if "__n < this->size()" in err or "Assertion '__n <" in err:
        return "vector_index"
    if "AddressSanitizer" in err or "runtime error:" in err:
        return "asan"
    return "other"


def run_rotate(ctx, cmds, name, nproc=8):
    """cmds: probe command lines, one scenario each.  A scenario during which the process dies is recorded as a
    crashed Rotate event (built from the probe's Begin event) and the probe is restarted on the rest.
    Returns executions aligned with cmds (each: Reset + one Rotate event per rotation call)."""
    binary = rotate_probe()
    env = build.run_env()
    wd = os.path.join(ctx.workdir, name)
    shutil.rmtree(wd, ignore_errors=True)
    os.makedirs(wd)
    parts = [list(range(i, len(cmds), nproc)) for i in range(nproc)]
    reports = []

    def one(pi):
        idx = parts[pi]
        out = {}
        pos = 0
        while pos < len(idx):
            text = "dir %s/p%d\n" % (wd, pi) + "\n".join(cmds[i] for i in idx[pos:]) + "\nquit\n"
            evs, rc, err = core.run_probe(binary, text, env, timeout=900, cwd=wd)
            got, cur, begin = [], None, None
            for ev in evs:
                if ev["e"] == "Error":
                    raise core.Infra("probe_rotate: %s" % ev)
                if ev["e"] == "Reset":
                    cur = [{"e": "Reset", "kind": ev["kind"]}]
                    got.append(cur)
                    begin = None
                elif ev["e"] == "Begin":
                    begin = ev
                elif ev["e"] == "Rotate":
                    cur.append(rotate_to_monitor(ev))
                    begin = None
            if rc == 0:
                if len(got) != len(idx) - pos:
                    raise core.Infra("probe_rotate: %d of %d scenarios ran" % (len(got), len(idx) - pos))
                for j, g in enumerate(got):
                    out[idx[pos + j]] = g
                break
            # the process died inside scenario len(got)-1 (after its Begin event)
            if not got or begin is None:
                raise core.Infra("probe_rotate died outside a rotation call (rc %s)\n%s" % (rc, err[-2000:]))
            crash = dict(begin)
            crash.update({"crashed": True, "crash": classify_abort(rc, err), "after": []})
            got[-1].append(rotate_to_monitor(crash))
            reports.append((idx[pos + len(got) - 1], rc, core.san_report(err, 1500)))
            for j, g in enumerate(got):
                out[idx[pos + j]] = g
            pos += len(got)
        return out
    with ThreadPoolExecutor(max_workers=nproc) as ex:
        res = list(ex.map(one, range(nproc)))
    execs = [None] * len(cmds)
    for o in res:
        for i, g in o.items():
            execs[i] = g
    shutil.rmtree(wd, ignore_errors=True)
    return execs, reports
