---------------------------- MODULE MC_XmlAttr ----------------------------
(* The attribute sub-machine (XmlElement::ParseAttrs, Xml!AStep) explored over attribute text; one      *)
(* input per (state, character class) is printed for replay (wrapped into a tag by the driver).         *)
EXTENDS Xml, Json

CONSTANTS MaxLen
VARIABLES a, as, last

AAlphabet == {47, 42, 32, 61, 34, 39, 97, 98, 92, 38}      \*  / * sp = " ' a b \ &
AInit0 == a = AInit /\ as = <<>> /\ last = [st |-> "", c |-> 0]
ANext == /\ a.err = "" /\ Len(as) < MaxLen
         /\ \E c \in AAlphabet : a' = AStep(a, c, {}) /\ as' = Append(as, c) /\ last' = [st |-> a.st, c |-> c]
AView == [st |-> a.st, err |-> a.err, te |-> a.tag = <<>>, com |-> a.com, n |-> Cardinality(a.attrs),
          dup |-> \E p \in a.attrs : p[1] = a.tag, bad |-> \E i \in DOMAIN a.tag : a.tag[i] \in {BS, SQ, DQ, EQ},
          doc |-> a.tag = <<100,111,99,112,97,116,104>>]
AEdge == PrintT("LEAF " \o ToJson([inp |-> as, st |-> last.st, c |-> last.c]))
AStates == {"ews", "oc0", "tag", "es", "oq", "value"}
ATotal == /\ a.st \in AStates /\ a.err \in {"", "illegal_char", "attr_redefined"}
          /\ LET r == ParseAttrs(as, {}) IN r.err \in {"", "illegal_char", "attr_redefined"}
          /\ \A p \in a.attrs : \A q \in a.attrs : p[1] = q[1] => p = q        \* a map: one value per name
ABound == Cardinality(a.attrs) <= 2
=============================================================================
