------------------------------ MODULE T_Numeric ------------------------------
(* Trace monitor for C08.  One line = one conversion performed by the real code:                    *)
(*   Itoa{hi, lo, text, text2, abort}          Field<int>::print / itoa<int> of v = hi * 65536 + lo  *)
(*   Atoi{text, nhi, nlo, r1, r2, r3, abort}   Field<int>(text), fast_atoi<int>, set_from_raw; the   *)
(*                                             driver claims text = Canon(n); the monitor checks it  *)
(*   Dtoa{x, p, text, text2, abort}            Field<double>(x, p)::print / modp_dtoa; x = [neg, w,  *)
(*                                             limbs] is the exact value of the double               *)
(*   Atof{text, t, r, lo, hi, r2, lo2, hi2, abort}   Field<double>(text) / fast_atof; t = [neg, wh,  *)
(*                                             wl, f, d] is the numeral (checked: DecText(t) = text), *)
(*                                             r the exact value of the double returned, lo / hi the  *)
(*                                             doubles next to it (in magnitude), lo8 / hi8 the 8th   *)
(*                                             neighbours (used only to classify a rejection)         *)
(* The expected texts / values are recomputed here (Numeric.tla) from those small integers.  A call  *)
(* stopped by UBSan/ASan (abort) did not deliver the demanded result and is rejected.               *)
(* Readings that cannot raise a false alarm: on an exact decimal tie either neighbour is accepted;  *)
(* trailing fraction zeros may or may not be printed; a zero result may carry the sign; "within half *)
(* a unit in the last place" holds if the value is within half a unit of the last printed decimal   *)
(* place of the text *or* is the double nearest to the text (whichever grid is coarser decides).    *)
EXTENDS Common, Numeric

VARIABLES l, fails, nexec

Ev == TraceLog[l]

IntOf(h, lo) == h * 65536 + lo
Res(e, f) == IntOf(e[f][1], e[f][2])

IntClass(v) == IF v = MinInt32 THEN "int_min" ELSE IF v < 0 THEN "negative" ELSE IF v = 0 THEN "zero" ELSE "positive"

DtoaClass(x, p) == IF x.w = MaxInt32 /\ ~LimbsZero(x.limbs) THEN "above_int_max"
                   ELSE IF NearMidpoint(x, p) THEN "next_to_midpoint"
                   ELSE IF CmpHalf(DecExpand(x.limbs, p).rest) = "eq" THEN "exact_tie"
                   ELSE "ordinary"
DtoaKind(x, p, text) == IF OtherNeighbour(x, p, text) THEN "wrong_neighbour" ELSE "other_text"

Bad(why, sig) == [ok |-> FALSE, why |-> why, sig |-> sig]
Good == [ok |-> TRUE, why |-> "", sig |-> ""]

MonStep(e) ==
    CASE e.e = "Itoa" ->
           LET v == IntOf(e.hi, e.lo) IN
           IF e.abort THEN Bad("rendering stopped by the sanitizer: " \o e.san, "itoa:" \o IntClass(v) \o ":undefined_behaviour")
           ELSE IF e.text = Canon(v) /\ e.text2 = Canon(v) THEN Good
           ELSE Bad("text is not the canonical decimal of the integer", "itoa:" \o IntClass(v) \o ":not_canonical")
      [] e.e = "Atoi" ->
           LET n == IntOf(e.nhi, e.nlo) IN
           IF Canon(n) # e.text THEN Bad("driver: text is not the canonical text of n", "driver:atoi")
           ELSE IF e.abort THEN Bad("parse stopped by the sanitizer: " \o e.san, "atoi:" \o IntClass(n) \o ":undefined_behaviour")
           ELSE IF Res(e, "r1") = n /\ Res(e, "r2") = n /\ Res(e, "r3") = n THEN Good
           ELSE Bad("canonical text does not parse back to the integer", "atoi:" \o IntClass(n) \o ":wrong_value")
      [] e.e = "Dtoa" ->
           IF e.abort THEN Bad("rendering stopped by the sanitizer: " \o e.san,
                               "dtoa:" \o DtoaClass(e.x, e.p) \o ":undefined_behaviour")
           ELSE IF AcceptText(e.x, e.p, e.text) /\ AcceptText(e.x, e.p, e.text2) THEN Good
           ELSE Bad("text is not the correctly rounded decimal with at most p fraction digits",
                    "dtoa:" \o DtoaClass(e.x, e.p) \o ":" \o
                       DtoaKind(e.x, e.p, IF AcceptText(e.x, e.p, e.text) THEN e.text2 ELSE e.text))
      [] e.e = "Atof" ->
           IF DecText(e.t) # e.text THEN Bad("driver: t is not the numeral in text", "driver:atof")
           ELSE IF e.abort THEN Bad("parse stopped by the sanitizer: " \o e.san, "atof:undefined_behaviour")
           ELSE IF e.r.huge \/ e.r2.huge THEN Bad("parsed value is not a finite number below 2^31 + 1", "atof:huge")
           ELSE IF AcceptParse(e.r, e.lo, e.hi, e.t) /\ AcceptParse(e.r2, e.lo2, e.hi2, e.t) THEN Good
           ELSE LET bad == IF AcceptParse(e.r, e.lo, e.hi, e.t) THEN [r |-> e.r2, lo |-> e.lo2, hi |-> e.hi2, lo8 |-> e.lo82, hi8 |-> e.hi82]
                           ELSE [r |-> e.r, lo |-> e.lo, hi |-> e.hi, lo8 |-> e.lo8, hi8 |-> e.hi8]
                    grid == IF DoubleGridCoarser(bad.r, bad.hi, e.t) THEN "double_grid_coarser" ELSE "decimal_grid_coarser"
                IN Bad("parsed value is neither within half a unit of the last printed decimal place nor the nearest double",
                       "atof:" \o grid \o ":" \o (IF Between(bad.lo8, bad.hi8, e.t) THEN "few_ulps_off" ELSE "far_off"))
      [] OTHER -> Good

Init == l = 1 /\ fails = <<>> /\ nexec = 0
Next ==
    \/ /\ l <= NLines
       /\ LET r == MonStep(Ev) IN
          fails' = IF r.ok THEN fails
                   ELSE Append(fails, [line |-> l, exec |-> nexec, why |-> r.why, sig |-> r.sig])
       /\ nexec' = IF Ev.e = "Reset" THEN nexec + 1 ELSE nexec
       /\ l' = l + 1
    \/ /\ l = NLines + 1
       /\ WriteVerdict(l - 1, fails, nexec)
       /\ l' = l + 1
       /\ UNCHANGED <<fails, nexec>>
=============================================================================
