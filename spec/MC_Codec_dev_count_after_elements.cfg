CONSTANTS
  MaxEl = 1
  NegInts = FALSE
  Dev = {"count_after_elements"}
SPECIFICATION Spec
INVARIANT PositionOrdered
INVARIANT WireWellFormed
INVARIANT RoundTrip
INVARIANT CloneSame
VIEW View
CHECK_DEADLOCK FALSE
