CONSTANTS
  NQ = 2
  NProd = 2
  NCons = 2
  NPush = 2
  NPop = 2
  Dev = {"no_published_check"}
INIT InitX
NEXT NextX
INVARIANT PoppedExactlyOnce
CHECK_DEADLOCK FALSE
