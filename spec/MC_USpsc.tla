----------------------------- MODULE MC_USpsc -----------------------------
(* Model checking of USpsc.tla, and export of operation-grain schedules: every sequence of complete *)
(* push / pop calls (no interleaving inside a call) up to a length, for replay on a real            *)
(* ff::uSWSR_Ptr_Buffer with SegSize slots per ring (probe_mpmc `uspsc`).                            *)
EXTENDS USpsc
Bound == fresh <= NSeg + 1
=============================================================================
