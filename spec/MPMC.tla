------------------------------- MODULE MPMC -------------------------------
(* The protocol of ff::uMPMC_Ptr_Queue (include/fix8/ff/mpmc/MPMCqueues.hpp, push/pop) at the      *)
(* grain of its shared-memory accesses, as a deterministic step function                           *)
(*      StepT(c, s, t)  =  the state after thread t performs its next atomic step in state s       *)
(* shared by the model checker (MC_MPMC) and the trace spec (T_MPMC).  A program counter value is  *)
(* the label of the FIX8_VERIF_YIELD point the thread is parked at, i.e. the access it performs    *)
(* next:                                                                                           *)
(*   push:  push.read_ticket   pw  = preadP                                                        *)
(*          push.read_seq      seq = seqP[pw & mask]; retry unless pw = seq                         *)
(*          push.cas           CAS(preadP, pw, pw+1); retry on failure      <- slot reservation    *)
(*          push.subpush       sub-queue[pw & mask].push(data)   (uSWSR_Ptr_Buffer, ubuffer.hpp)   *)
(*          push.publish       seqP[pw & mask] = pw + mask + 1; return true                        *)
(*   pop:   pop.read_ticket    pr  = preadC                                                        *)
(*          pop.read_seq       seq = seqC[pr & mask]; retry unless pr = seq                         *)
(*          pop.check_pub      if seqP[pr & mask] <= seq return false   ("empty")                  *)
(*          pop.cas            CAS(preadC, pr, pr+1); retry on failure                             *)
(*          pop.subpop         sub-queue[pr & mask].pop(data)                                      *)
(*          pop.release        seqC[pr & mask] = pr + mask + 1; return true                        *)
(* The sub-queues are single-writer/single-reader FIFOs; the protocol is what makes their use      *)
(* exclusive, so they are modelled as sequences with atomic push/pop and exclusivity is an         *)
(* invariant (SlotExclusive) instead of an assumption.  Atomics are sequentially consistent.       *)
(*                                                                                                 *)
(* c = [nq, np, nc, npush, npop, dev]: sub-queues (mask+1), producers 1..np, consumers             *)
(* np+1..np+nc, operations per thread, named deviations (used only to show the invariants bite).   *)
(* Elements are numbered p*100+k (k-th push of producer p).                                        *)
(* Ghost fields (never read by the protocol steps): resv (element by reserved ticket), got         *)
(* (element obtained by claimed pop ticket, 0 = not yet, -1 = sub-queue was empty), done (tickets  *)
(* whose push returned = "fully pushed"), bad (step-local property breaches), out (what the last   *)
(* step returned to its caller).                                                                   *)
EXTENDS Naturals, Integers, Sequences, FiniteSets, TLC

Elem(p, k) == p * 100 + k
ProdOf(e) == e \div 100

MThreads(c) == 1..(c.np + c.nc)
MIsProd(c, t) == t <= c.np
MSlots(c) == 0..(c.nq - 1)
Quota(c, t) == IF MIsProd(c, t) THEN c.npush ELSE c.npop
FirstPc(c, t) == IF Quota(c, t) = 0 THEN "done" ELSE IF MIsProd(c, t) THEN "push.read_ticket" ELSE "pop.read_ticket"

NoOut == [op |-> "none"]

MInit(c) ==
    [tickP |-> 0, tickC |-> 0,
     seqP |-> [i \in MSlots(c) |-> i], seqC |-> [i \in MSlots(c) |-> i],
     sub |-> [i \in MSlots(c) |-> <<>>],
     pc |-> [t \in MThreads(c) |-> FirstPc(c, t)],
     tk |-> [t \in MThreads(c) |-> 0],
     n |-> [t \in MThreads(c) |-> 0],
     resv |-> <<>>, got |-> <<>>, done |-> {}, bad |-> {}, out |-> NoOut]

\* the thread has completed an operation: count it and move to the next one (or stop)
Finish(c, s, t, out) ==
    LET n2 == s.n[t] + 1 IN
    [s EXCEPT !.n[t] = n2, !.out = out,
              !.pc[t] = IF n2 >= Quota(c, t) THEN "done"
                        ELSE IF MIsProd(c, t) THEN "push.read_ticket" ELSE "pop.read_ticket"]

StepT(c, s0, t) ==
    LET s == [s0 EXCEPT !.out = NoOut]
        l == s.pc[t]
        k == s.tk[t]
        i == k % c.nq
        e == Elem(t, s.n[t] + 1)
        early == "publish_early" \in c.dev
    IN
    CASE l = "push.read_ticket" -> [s EXCEPT !.tk[t] = s.tickP, !.pc[t] = "push.read_seq"]
      [] l = "push.read_seq" ->
            IF s.seqP[i] = k \/ "no_seqP_check" \in c.dev
            THEN [s EXCEPT !.pc[t] = "push.cas"] ELSE [s EXCEPT !.pc[t] = "push.read_ticket"]
      [] l = "push.cas" ->
            IF s.tickP = k
            THEN [s EXCEPT !.tickP = k + 1, !.resv = Append(s.resv, e),
                           !.pc[t] = IF early THEN "push.publish" ELSE "push.subpush"]
            ELSE [s EXCEPT !.pc[t] = "push.read_ticket"]
      [] l = "push.subpush" ->
            LET s1 == [s EXCEPT !.sub[i] = Append(s.sub[i], e)] IN
            IF early THEN Finish(c, [s1 EXCEPT !.done = s.done \cup {k}], t, [op |-> "push", val |-> e])
            ELSE [s1 EXCEPT !.pc[t] = "push.publish"]
      [] l = "push.publish" ->
            LET s1 == [s EXCEPT !.seqP[i] = k + c.nq] IN
            IF early THEN [s1 EXCEPT !.pc[t] = "push.subpush"]
            ELSE Finish(c, [s1 EXCEPT !.done = s.done \cup {k}], t, [op |-> "push", val |-> e])
      [] l = "pop.read_ticket" -> [s EXCEPT !.tk[t] = s.tickC, !.pc[t] = "pop.read_seq"]
      [] l = "pop.read_seq" ->
            IF s.seqC[i] = k THEN [s EXCEPT !.pc[t] = "pop.check_pub"] ELSE [s EXCEPT !.pc[t] = "pop.read_ticket"]
      [] l = "pop.check_pub" ->
            IF s.seqP[i] <= k /\ "no_published_check" \notin c.dev
            THEN \* reports "empty"; the property allows it only if the element at the head of the
                 \* queue (lowest unclaimed ticket) has not been fully pushed at this moment
                 \* (the stricter reading "no unclaimed element at all is fully pushed" is recorded only
                 \* when asked for: the protocol does not meet it, see MC_MPMC_strict.cfg)
                 Finish(c, [s EXCEPT !.bad = s.bad
                                \cup (IF s.tickC \in s.done THEN {"empty_head_published"} ELSE {})
                                \cup (IF "strict_empty_ghost" \in c.dev /\ \E j \in s.done : j >= s.tickC
                                      THEN {"empty_any_published"} ELSE {})],
                        t, [op |-> "pop", ok |-> FALSE, val |-> 0])
            ELSE [s EXCEPT !.pc[t] = "pop.cas"]
      [] l = "pop.cas" ->
            IF s.tickC = k
            THEN [s EXCEPT !.tickC = k + 1, !.got = Append(s.got, 0), !.pc[t] = "pop.subpop"]
            ELSE [s EXCEPT !.pc[t] = "pop.read_ticket"]
      [] l = "pop.subpop" ->
            IF s.sub[i] = <<>>
            THEN [s EXCEPT !.got[k + 1] = -1, !.bad = s.bad \cup {"subpop_empty"}, !.pc[t] = "pop.release"]
            ELSE [s EXCEPT !.got[k + 1] = Head(s.sub[i]), !.sub[i] = Tail(s.sub[i]), !.pc[t] = "pop.release"]
      [] l = "pop.release" ->
            Finish(c, [s EXCEPT !.seqC[i] = k + c.nq], t, [op |-> "pop", ok |-> TRUE, val |-> s.got[k + 1]])
      [] OTHER -> s

AllDone(c, s) == \A t \in MThreads(c) : s.pc[t] = "done"

\* ---- the property, over the ghost fields --------------------------------------------------------
\* TicketOrder: the pop that claimed ticket k obtains the element whose push reserved ticket k
\* ("elements are popped in the order their pushes completed their slot reservation")
TicketOrderOf(s) == \A k \in DOMAIN s.got : s.got[k] # 0 => (k <= Len(s.resv) /\ s.got[k] = s.resv[k])
\* PoppedExactlyOnce: no element obtained twice, nothing obtained that was not pushed, and nothing
\* lost: an element is either still in its sub-queue, or obtained, or its push/pop is in flight
InSub(c, s, e) == \E i \in MSlots(c) : \E j \in DOMAIN s.sub[i] : s.sub[i][j] = e
PushInFlight(c, s, k) == \E t \in MThreads(c) : MIsProd(c, t) /\ s.tk[t] = k - 1 /\
                            s.pc[t] \in {"push.subpush", "push.publish"} /\ ~InSub(c, s, s.resv[k])
PoppedOnceOf(c, s) ==
    /\ \A j, k \in DOMAIN s.got : (j # k /\ s.got[j] # 0 /\ s.got[k] # 0) => s.got[j] # s.got[k]
    /\ \A k \in DOMAIN s.got : s.got[k] # 0 => \E j \in DOMAIN s.resv : s.resv[j] = s.got[k]
    /\ \A k \in DOMAIN s.resv :
          LET e == s.resv[k]
              obtained == \E j \in DOMAIN s.got : s.got[j] = e
          IN /\ (InSub(c, s, e) \/ obtained \/ PushInFlight(c, s, k))
             /\ ~(InSub(c, s, e) /\ obtained)
    /\ \A i \in MSlots(c) : \A a, b \in DOMAIN s.sub[i] : a # b => s.sub[i][a] # s.sub[i][b]
EmptyOkOf(s) == "empty_head_published" \notin s.bad
SubPopOkOf(s) == "subpop_empty" \notin s.bad
\* the protocol's reason for being: a sub-queue has at most one writer and one reader at a time
SlotExclusiveOf(c, s) ==
    \A t, u \in MThreads(c) : (t # u /\ s.tk[t] % c.nq = s.tk[u] % c.nq) =>
        /\ ~(s.pc[t] \in {"push.subpush", "push.publish"} /\ s.pc[u] \in {"push.subpush", "push.publish"})
        /\ ~(s.pc[t] \in {"pop.subpop", "pop.release"} /\ s.pc[u] \in {"pop.subpop", "pop.release"})
=============================================================================
