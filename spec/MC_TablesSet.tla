----------------------------- MODULE MC_TablesSet -----------------------------
(* The insertable sorted set of Tables.tla as a state machine over operation histories.           *)
(*  - SetLike / IterValid / NoLeak / InBounds are checked for every history up to MaxOps from      *)
(*    every initial configuration (reserve value x initial static array).                          *)
(*  - abs is the specification-level set (a function key -> payload) evolving by plain set         *)
(*    semantics; SetLike ties the array to it after every step.                                    *)
(*  - With VIEW (MC_TablesSet_cover.cfg) the run enumerates every (array state, operation) pair    *)
(*    once and prints one shortest history reaching it; without VIEW (MC_TablesSet_all.cfg) it     *)
(*    prints every history up to MaxOps.  The driver replays the printed histories on both real    *)
(*    presorted_set variants.                                                                      *)
EXTENDS Tables, Json

CONSTANTS Keys, Reserves, Inits, MaxOps, Dev
VARIABLES s, res, abs, last, hist

vars == <<s, res, abs, last, hist>>
\* initial static arrays (key sequences) a configuration may start from (cfg: Inits <- ...)
InitsNone == {<<>>}
InitsTwo == {<<>>, <<2, 4>>}
InitsAll == {<<>>, <<2>>, <<2, 4>>}
EmptyFn == [x \in {} |-> 0]
NoRes == [op |-> "none", k |-> 0, ok |-> TRUE, it |-> [gen |-> 0, pos |-> 0]]

\* initial static arrays: payload 100 + key
InitArr(ks) == [i \in DOMAIN ks |-> [k |-> ks[i], p |-> 100 + ks[i]]]
AbsOf(a) == [x \in Elems(KeysOf(a)) |-> a[CHOOSE i \in DOMAIN a : a[i].k = x].p]

Init ==
    \E r \in Reserves, ks \in Inits :
        /\ res = r
        /\ s = IF ks = <<>> THEN NewEmpty(r, Dev) ELSE NewFrom(InitArr(ks), r, Dev)
        /\ abs = AbsOf(InitArr(ks))
        /\ last = NoRes
        /\ hist = <<[op |-> "New", reserve |-> r, init |-> ks]>>

Ops == [op : {"Ins"}, k : Keys] \cup [op : {"Find"}, k : Keys] \cup [op : {"Clear"}]

Next ==
    /\ Len(hist) <= MaxOps
    /\ \E o0 \in Ops :
        LET o == IF o0.op = "Ins" THEN [op |-> "Ins", k |-> o0.k, p |-> Len(hist)] ELSE o0
            a == SetApply(s, res, o, Dev)
        IN /\ s' = a.st
           /\ res' = res
           /\ abs' = CASE o.op = "Ins" -> IF o.k \in DOMAIN abs THEN abs ELSE (o.k :> o.p) @@ abs
                       [] o.op = "Clear" -> EmptyFn
                       [] OTHER -> abs
           /\ last' = [op |-> o.op, k |-> IF o.op = "Clear" THEN 0 ELSE o.k, ok |-> a.res.ok, it |-> a.res.it]
           /\ hist' = Append(hist, o)

\* ---- C12 on the design -------------------------------------------------------------------------
SetLike ==
    /\ IsStrictlySorted(KeysOf(s.arr))                                   \* sorted, unique keys
    /\ AbsOf(s.arr) = abs                                                \* exactly the set's elements, first payload kept
    /\ Len(s.arr) <= s.cap \/ s.oob
ResultsRight ==
    /\ last.op = "Ins" => (last.ok <=> (hist[Len(hist)].p = abs[last.k]))   \* accepted iff it was new
    /\ last.op = "Find" => (last.ok <=> last.k \in DOMAIN abs)
    /\ last.op = "Find" /\ last.ok => s.arr[last.it.pos + 1].k = last.k
IterValid ==
    last.op = "Ins" /\ last.ok => /\ last.it.gen = s.gen                 \* points into the current array
                                  /\ s.arr[last.it.pos + 1].k = last.k   \* at the inserted element
NoLeak == s.live = (IF s.gen = 0 THEN {} ELSE {s.gen})
InBounds == ~s.oob

\* ---- export ------------------------------------------------------------------------------------
Edge == PrintT("LEAF " \o ToJson(hist))
View == <<KeysOf(s.arr), s.cap, s.gen # 0, res>>
=============================================================================
