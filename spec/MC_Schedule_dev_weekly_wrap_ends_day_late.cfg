CONSTANTS
  D = 6
  Offs <- OffsZero
  Dev = {"weekly_wrap_ends_day_late"}
INIT MCInit
NEXT MCNext
INVARIANT Follows
CHECK_DEADLOCK FALSE
