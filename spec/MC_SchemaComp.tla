---------------------------- MODULE MC_SchemaComp ----------------------------
(* Model-checking / simulation instances of SchemaComp: the universes of declarable fields.         *)
EXTENDS SchemaComp

PickAll(X) == X
PickOne(X) == IF X = {} THEN {} ELSE {RandomElement(X)}

Opt(t, vals) == [type |-> t, vals |-> vals]
IntVals == << <<"1", "ONE">>, <<"2", "TWO">>, <<"7", "SEVEN">> >>
CharVals == << <<"A", "ALPHA">>, <<"B", "BRAVO">>, <<"z", "ZULU">> >>
StrVals == << <<"AB", "ALPHA_BRAVO">>, <<"C", "CHARLIE">>, <<"XYZ", "XRAY">> >>
BoolVals == << <<"N", "NO">>, <<"Y", "YES">> >>
FloatVals == << <<"1.5", "ONE_HALF">>, <<"2.25", "TWO_QUARTER">> >>
DayVals == << <<"1", "FIRST">>, <<"15", "IDES">>, <<"31", "LAST">> >>

\* small universe (exhaustive): one field per type class, one of them with enumerated values
SmallOptions(i) == CASE i = 1 -> {Opt("STRING", <<>>)}
                     [] i = 2 -> {Opt("INT", IntVals)}
                     [] i = 3 -> {Opt("PRICE", <<>>)}
                     [] OTHER -> {Opt("CHAR", <<>>)}

\* full universe (simulation): every supported type, with enumerated values where the compiler supports them
\* (LENGTH/DATA come as a pair and are placed by the renderer's pair rule: see PairOptions)
PlainTypes == {"INT", "TAGNUM", "SEQNUM", "NUMINGROUP", "DAYOFMONTH", "FLOAT", "QTY", "QUANTITY", "PRICE", "PRICEOFFSET", "AMT",
               "PERCENTAGE", "CHAR", "BOOLEAN", "STRING", "MULTIPLEVALUECHAR", "MULTIPLECHARVALUE", "MULTIPLESTRINGVALUE",
               "MULTIPLEVALUESTRING", "COUNTRY", "CURRENCY", "EXCHANGE", "MONTHYEAR", "UTCTIMESTAMP", "UTCTIME", "UTCTIMEONLY",
               "UTCDATE", "UTCDATEONLY", "LOCALMKTDATE", "XMLDATA", "PATTERN", "LANGUAGE", "TENOR", "RESERVED100PLUS",
               "RESERVED1000PLUS", "RESERVED4000PLUS"}
FullOptions(i) == { Opt(t, <<>>) : t \in PlainTypes }
                  \cup { Opt(t, IntVals) : t \in {"INT", "SEQNUM", "TAGNUM", "NUMINGROUP"} } \cup { Opt("DAYOFMONTH", DayVals) }
                  \cup { Opt("CHAR", CharVals), Opt("BOOLEAN", BoolVals) }
                  \cup { Opt(t, StrVals) : t \in {"STRING", "MULTIPLEVALUESTRING", "CURRENCY", "EXCHANGE"} }
                  \cup { Opt(t, FloatVals) : t \in {"FLOAT", "PRICE", "QTY", "AMT"} }

Seq2 == <<201, 202>>
Seq3 == <<201, 202, 203>>
Msgs1 == <<"UA">>
Seq4 == <<201, 202, 203, 204>>
Seq10 == <<201, 5002, 203, 64000, 205, 206, 1207, 208, 209, 210>>
Counts1 == <<301>>
Counts2 == <<301, 302>>
Counts3 == <<301, 302, 303>>
Counts4 == <<301, 20302, 303, 304>>
Msgs2 == <<"UA", "UB">>
Msgs3 == <<"UA", "UB", "UC">>
Comps1 == <<"CompA">>
Comps2 == <<"CompA", "CompB">>
Comps0 == <<>>
Pairs0 == <<>>
Pairs1 == <<220>>

\* C14: the declarable numbers are a solved collision {a, b} vs {c, d} (MC_SchemaHash); plain strings
PlainOptions(i) == {Opt("STRING", <<>>)}
=============================================================================
