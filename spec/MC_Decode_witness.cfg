CONSTANTS
  MaxLen = 11
  Lenient = FALSE
  Dev = {}
INIT Init
NEXT Next
INVARIANT Reach_NestedAccepted
CHECK_DEADLOCK FALSE
