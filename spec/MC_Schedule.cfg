CONSTANTS
  D = 8
  Offs <- OffsQuick
  Dev = {}
INIT MCInit
NEXT MCNext
INVARIANT Follows
INVARIANT ShapesAgree
CHECK_DEADLOCK FALSE
