CONSTANTS
  D = 6
  Offs <- OffsQuick
  Dev = {}
INIT MCInit
NEXT MCNext
INVARIANT Follows
INVARIANT ShapesAgree
CHECK_DEADLOCK FALSE
