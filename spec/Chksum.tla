------------------------------- MODULE Chksum -------------------------------
(* C07.  Message::calc_chksum (include/fix8/message.hpp, the 64-bit "steroid" variant) transcribed *)
(* statement by statement next to what it is supposed to compute:                                   *)
(*        ByteSum(buffer, offset, n) mod 256     reading only the bytes offset .. offset+n-1,       *)
(* where n is the given length or, when no length is given (-1), the remainder of the buffer.       *)
(*                                                                                                  *)
(* The code adds the buffer to a 32-bit accumulator one little-endian word at a time; the four byte *)
(* lanes of the accumulator are four running byte sums that spill carries into their left           *)
(* neighbours.  The carries into bits 8, 16, 24 are recovered (expected_overflow xor actual) and     *)
(* counted in the lanes of `overflowtmp`, which is folded into `overflow` every 256 bytes so that    *)
(* its own lanes never spill.  At the end the lanes are added up (collapse) and the carry count is   *)
(* subtracted; the up to seven bytes left over are added one by one as (signed) chars.               *)
(*                                                                                                  *)
(* The transcription is a step function on a record `st` (one step per loop iteration), so that     *)
(* MC_Chksum.tla can model-check it as a state machine and the trace monitor can run it to          *)
(* completion on recorded inputs.  `src` describes the buffer: a literal byte sequence or a named   *)
(* pattern of a given size, so that kilobyte buffers do not have to live in the state.              *)
EXTENDS Naturals, Integers, Sequences, FiniteSets, TLC, ChksumU32

\* ---- buffers ---------------------------------------------------------------------------------------
\* closed-form patterns (mirrored by lib/num_common.py pat_byte)
PatByte(pat, seed, i) ==
    CASE pat = "ff"   -> 255
      [] pat = "alt"  -> IF i % 2 = 0 THEN 255 ELSE 1
      [] pat = "hi"   -> 128
      [] pat = "ramp" -> (i + seed) % 256
      [] pat = "mix"  -> ((i * i * 31 + i * (seed * 17 + 5) + seed * 101) \div 7) % 256

Lit(bytes) == [kind |-> "lit", bytes |-> bytes, sz |-> Len(bytes)]
Pat(pat, seed, sz) == [kind |-> "pat", pat |-> pat, seed |-> seed, sz |-> sz]
\* byte at 0-based index i; an index outside the buffer reads as 0 (the model notes the read, see rdHi)
Byte(src, i) == IF i < 0 \/ i >= src.sz THEN 0
                ELSE IF src.kind = "lit" THEN src.bytes[i + 1] ELSE PatByte(src.pat, src.seed, i)

\* ---- the mathematical meaning ---------------------------------------------------------------------
RangeLen(src, off, len) == IF len = -1 THEN src.sz - off ELSE len
\* sum of the n bytes from index off on.  Two nested recursions (64 bytes at a time) rather than one, so
\* that the depth of TLC's evaluation stack stays small for kilobyte buffers.
ByteSum(src, off, n) ==
    LET RECURSIVE Block(_, _, _)
        Block(i, to, acc) == IF i >= to THEN acc ELSE Block(i + 1, to, acc + Byte(src, i))
        RECURSIVE Blocks(_, _)
        Blocks(i, acc) == IF i >= off + n THEN acc
                          ELSE LET to == IF i + 64 < off + n THEN i + 64 ELSE off + n
                               IN Blocks(to, acc + Block(i, to, 0))
    IN Blocks(off, 0)
Expected(src, off, len) == ByteSum(src, off, RangeLen(src, off, len)) % 256

\* the call is inside the function's domain: the range lies in the buffer
InDomain(src, off, len) == off >= 0 /\ off <= src.sz /\ len >= -1 /\ (len >= 0 => off + len <= src.sz)

\* ---- the code -------------------------------------------------------------------------------------
OverflowMask == U32(256 + 1, 256)         \* 1<<8 | 1<<16 | 1<<24
Collapse(x) == Add32(Add32(x, Shr8(x)), Add32(Shr16(x), Shr24(x)))     \* fix8pro_collapse_int32

\* rdLo / rdHi: lowest / highest buffer index read so far (-1 = none); acc: true sum of the bytes
\* consumed so far.  Both are ghosts: the code does not have them.
Begin(src, off, len) ==
    [src |-> src, off |-> off, len |-> len, pc |-> "start", ii |-> 0, elen |-> 0, eeii |-> 0,
     ret |-> U32Zero, overflow |-> U32Zero, overflowtmp |-> U32Zero, result |-> -1,
     rdLo |-> -1, rdHi |-> -1, acc |-> 0]

NoteRead(st, lo, hi) == [st EXCEPT !.rdLo = IF st.rdLo = -1 \/ lo < st.rdLo THEN lo ELSE st.rdLo,
                                   !.rdHi = IF hi > st.rdHi THEN hi ELSE st.rdHi]

\* from += offset; elen = len != -1 ? len : sz [- offset]; eeii = elen - elen % 8
\* deviation remainder_ignores_offset: the remainder is taken to be the whole buffer size
Start(dev, st) ==
    LET elen == IF st.len # -1 THEN st.len
                ELSE IF "remainder_ignores_offset" \in dev THEN st.src.sz ELSE st.src.sz - st.off
    IN [st EXCEPT !.elen = elen, !.eeii = elen - (elen % 8), !.pc = "loop"]

\* for (; ii < eeii; ii += 4) { next = *(uint32*)(from + ii); ... }
Word(st) ==
    LET a == st.off + st.ii
        b0 == Byte(st.src, a)   b1 == Byte(st.src, a + 1)   b2 == Byte(st.src, a + 2)   b3 == Byte(st.src, a + 3)
        next == U32OfBytes(b0, b1, b2, b3)
        expected == Xor32(And32(st.ret, OverflowMask), And32(OverflowMask, next))
        ret2 == Add32(st.ret, next)
        otmp2 == Add32(st.overflowtmp, And32(Xor32(expected, ret2), OverflowMask))
        fold == st.ii # 0 /\ st.ii % 256 = 0
    IN [NoteRead(st, a, a + 3) EXCEPT
           !.ret = ret2,
           !.overflow = IF fold THEN Add32(st.overflow, Collapse(otmp2)) ELSE st.overflow,
           !.overflowtmp = IF fold THEN U32Zero ELSE otmp2,
           !.acc = st.acc + b0 + b1 + b2 + b3,
           !.ii = st.ii + 4]

\* ret = collapse(ret); overflow += collapse(overflowtmp);
EndLoop(st) == [st EXCEPT !.ret = Collapse(st.ret), !.overflow = Add32(st.overflow, Collapse(st.overflowtmp)),
                          !.pc = "tail"]

\* for (; ii < elen; ret += from[ii++]);          (from is a char pointer: the byte is sign-extended)
TailByte(st) ==
    LET b == Byte(st.src, st.off + st.ii)
    IN [NoteRead(st, st.off + st.ii, st.off + st.ii) EXCEPT
           !.ret = Add32(st.ret, U32OfSChar(b)), !.acc = st.acc + b, !.ii = st.ii + 1]

\* return (ret - overflow) & 0xff;
Return(st) == [st EXCEPT !.result = LowByte(Sub32(st.ret, st.overflow)), !.pc = "done"]

Step(dev, st) ==
    CASE st.pc = "start" -> Start(dev, st)
      [] st.pc = "loop" -> IF st.ii < st.eeii THEN Word(st) ELSE EndLoop(st)
      [] st.pc = "tail" -> IF st.ii < st.elen THEN TailByte(st) ELSE Return(st)
      [] OTHER -> st

\* the whole call
RECURSIVE RunFrom(_, _)
RunFrom(dev, st) == IF st.pc = "done" THEN st ELSE RunFrom(dev, Step(dev, st))
Run(dev, src, off, len) == RunFrom(dev, Begin(src, off, len))

\* ---- properties of a (partial) run ------------------------------------------------------------------
NOf(st) == RangeLen(st.src, st.off, st.len)
\* "returns the sum of exactly those bytes modulo 256"
ResultIsByteSum(st) == st.pc = "done" => st.result = Expected(st.src, st.off, st.len)
\* "and reads no byte outside that range"
ReadsInRange(st) == st.rdLo # -1 => st.rdLo >= st.off /\ st.rdHi <= st.off + NOf(st) - 1
\* the ghost accumulator is the mathematical sum of the consumed prefix (ties `acc` to ByteSum)
GhostIsByteSum(st) == st.pc = "done" => st.acc = ByteSum(st.src, st.off, NOf(st))
\* why the word loop works: lane sums minus the counted carries are the byte sum so far, and the
\* carry counters themselves never spill into the neighbouring lane
LaneSum(x) == Lane(x, 0) + Lane(x, 1) + Lane(x, 2) + Lane(x, 3)
LoopInvariant(st) ==
    st.pc = "loop" =>
       /\ (LaneSum(st.ret) - LaneSum(st.overflowtmp) - AsInt32(st.overflow)) % 256 = st.acc % 256
       /\ Lane(st.overflowtmp, 0) = 0
       /\ \A k \in 1..3 : Lane(st.overflowtmp, k) <= 65
TailInvariant(st) == st.pc = "tail" => (AsInt32(Sub32(st.ret, st.overflow)) - st.acc) % 256 = 0
=============================================================================
