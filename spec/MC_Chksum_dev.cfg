CONSTANTS
 Dev = {"remainder_ignores_offset"}
 Family = "tiny"
 MaxMid = 11
 MaxTiny = 3
 CarryTail = 1
 CarryLens = {}
INIT Init
NEXT Next
CHECK_DEADLOCK FALSE
INVARIANTS InvResult InvReads
