------------------------------ MODULE CodecOps ------------------------------
(* Pure operators shared by the codec design spec (Codec.tla) and the codec trace monitor          *)
(* (T_Codec.tla): field trees, wire tokens and the C02 well-formedness relation.                    *)
(*                                                                                                  *)
(* Field tree.  A container (header, body, trailer or one repeating-group element) is a sequence   *)
(* of fields; a field is <<tag, text, els>> where els is the sequence of elements (containers) of  *)
(* a repeating group and <<>> for any other field.                                                  *)
(*                                                                                                  *)
(* Wire token.  <<tag, tlen, tsum, vlen, vsum, ival>>: numeric tag (-1: not a decimal tag or no    *)
(* '=', -2: bytes after the last SOH), length and byte sum of the tag text, length and byte sum of *)
(* the value, and the value as a number when it consists of 1..9 decimal digits (else -1).         *)
(*                                                                                                  *)
(* Schema.  [hdr, trl : container id, msgs : msgtype -> container id, defs : container id ->       *)
(* [first : tag, f : tag text -> <<position, mandatory(0/1), group container id or "">>]].         *)
(* In trace validation it is the JSON rendering of the schema XML made by lib/schema.py.           *)
EXTENDS Naturals, Integers, Sequences, FiniteSets, TLC


\* ---- trees --------------------------------------------------------------------------------------
\* Order-insensitive normal form of a container: <<number of fields, set of <<tag, text, elements>>>>.
\* Elements keep their order (a repeating group is a sequence of elements).
RECURSIVE NormC(_)
NormC(fs) == <<Len(fs), { <<fs[i][1], fs[i][2], [j \in DOMAIN fs[i][3] |-> NormC(fs[i][3][j])]>> : i \in DOMAIN fs }>>

SameC(a, b) == NormC(a) = NormC(b)

Without(fs, tags) == SelectSeq(fs, LAMBDA f : f[1] \notin tags)

\* a message tree is [h |-> container, b |-> container, t |-> container]; BeginString, BodyLength,
\* MsgType and CheckSum are derived by the encoder and are judged on the wire (C02), not here
Derived == {8, 9, 35, 10}
SameMsg(x, y) == /\ SameC(Without(x.h, Derived), Without(y.h, Derived))
                 /\ SameC(x.b, y.b)
                 /\ SameC(Without(x.t, Derived), Without(y.t, Derived))

\* first difference between two containers, for the failure signature: the smallest tag whose field
\* (text or elements) differs or is missing on one side; 0 if none
TagsOf(fs) == { fs[i][1] : i \in DOMAIN fs }
FieldOf(fs, t) == fs[CHOOSE i \in DOMAIN fs : fs[i][1] = t]
NormF(f) == <<f[2], [j \in DOMAIN f[3] |-> NormC(f[3][j])]>>
DiffTags(a, b) == { t \in TagsOf(a) \cup TagsOf(b) :
                       \/ t \notin TagsOf(a) \/ t \notin TagsOf(b)
                       \/ NormF(FieldOf(a, t)) # NormF(FieldOf(b, t)) }
MinOf(S) == CHOOSE x \in S : \A y \in S : x <= y
FirstDiff(a, b) == IF DiffTags(a, b) = {} THEN 0 ELSE MinOf(DiffTags(a, b))
MsgDiff(x, y) ==
    LET dh == FirstDiff(Without(x.h, Derived), Without(y.h, Derived))
        db == FirstDiff(x.b, y.b)
        dt == FirstDiff(Without(x.t, Derived), Without(y.t, Derived))
    IN IF dh # 0 THEN dh ELSE IF db # 0 THEN db ELSE dt

\* ---- wire tokens ---------------------------------------------------------------------------------
TokBytes(t) == t[2] + 1 + t[4] + 1                 \* tag '=' value SOH
TokSum(t) == t[3] + 61 + t[5] + 1
RECURSIVE BytesOver(_, _, _), SumOver(_, _, _)
BytesOver(s, lo, hi) == IF lo > hi THEN 0 ELSE TokBytes(s[lo]) + BytesOver(s, lo + 1, hi)
SumOver(s, lo, hi) == IF lo > hi THEN 0 ELSE (TokSum(s[lo]) + SumOver(s, lo + 1, hi)) % 256

\* Frame clauses of C02: returns "" or the name of the first clause that fails.
FrameWhy(toks) ==
    LET n == Len(toks) IN
    IF \E i \in 1..n : toks[i][1] < 0 THEN "token_syntax"
    ELSE IF n < 4 \/ toks[1][1] # 8 \/ toks[2][1] # 9 \/ toks[3][1] # 35 THEN "first_three_fields"
    ELSE IF toks[n][1] # 10 THEN "checksum_not_last"
    ELSE IF toks[2][6] # BytesOver(toks, 3, n - 1) THEN "body_length"
    ELSE IF toks[n][4] # 3 \/ toks[n][6] # SumOver(toks, 1, n - 1) THEN "checksum_value"
    ELSE ""

\* ---- structure: sections, schema position order, repeating groups -------------------------------
In(S, cid, tag) == ToString(tag) \in DOMAIN S.defs[cid].f
Ent(S, cid, tag) == S.defs[cid].f[ToString(tag)]
FirstOf(S, cid) == S.defs[cid].first

\* ParseC consumes the tokens of one container starting at index i (lp = last schema position seen)
\* and stops, without failing, at the first token that cannot continue it: a tag the container does
\* not define, a position lower than the last one or, inside an element, the group's first field
\* (the next element begins).  The caller decides whether stopping there was legitimate.
\* ParseG demands exactly k elements, each starting with the group's first field.
\* Position 0 marks a field the schema XML gives no place (injected with f8c -F): accepted anywhere
\* in its container.
Later(lp, p) == IF p = 0 THEN lp ELSE p
RECURSIVE ParseC(_, _, _, _, _, _), ParseG(_, _, _, _, _)
ParseC(S, toks, i, cid, lp, isEl) ==
    IF i > Len(toks) THEN [i |-> i, why |-> ""]
    ELSE LET t == toks[i][1] IN
         IF ~In(S, cid, t) THEN [i |-> i, why |-> ""]
         ELSE LET e == Ent(S, cid, t) IN
              IF isEl /\ t = FirstOf(S, cid) THEN [i |-> i, why |-> ""]
              ELSE IF e[1] # 0 /\ e[1] < lp THEN [i |-> i, why |-> ""]
              ELSE IF e[3] # "" THEN
                   IF toks[i][6] < 0 THEN [i |-> i, why |-> "group_count_not_a_number"]
                   ELSE LET r == ParseG(S, toks, i + 1, e[3], toks[i][6]) IN
                        IF r.why # "" THEN r
                        ELSE IF r.i <= Len(toks) /\ toks[r.i][1] = FirstOf(S, e[3]) /\ ~In(S, cid, toks[r.i][1])
                             THEN [i |-> r.i, why |-> "group_more_elements_than_count"]
                             ELSE ParseC(S, toks, r.i, cid, Later(lp, e[1]), isEl)
              ELSE ParseC(S, toks, i + 1, cid, Later(lp, e[1]), isEl)
ParseG(S, toks, i, gcid, k) ==
    IF k = 0 THEN [i |-> i, why |-> ""]
    ELSE IF i > Len(toks) \/ toks[i][1] # FirstOf(S, gcid)
         THEN [i |-> i, why |-> "group_element_missing_or_not_starting_with_first_field"]
         ELSE LET r == ParseC(S, toks, i + 1, gcid, Ent(S, gcid, FirstOf(S, gcid))[1], TRUE) IN
              IF r.why # "" THEN r ELSE ParseG(S, toks, r.i, gcid, k - 1)

\* header fields, then body fields, then trailer fields, and nothing else
Structure(S, mt, toks) ==
    LET h == ParseC(S, toks, 1, S.hdr, 0, FALSE)
        b == IF h.why # "" THEN h ELSE ParseC(S, toks, h.i, S.msgs[mt], 0, FALSE)
        t == IF b.why # "" THEN b ELSE ParseC(S, toks, b.i, S.trl, 0, FALSE)
    IN IF t.why # "" THEN t
       ELSE IF t.i = Len(toks) + 1 THEN t
       ELSE [i |-> t.i, why |-> "section_or_position_order"]

\* C02 on one encoded message: [why |-> "" or failing clause, tag |-> offending tag or 0]
WellFormed(S, mt, toks) ==
    LET fw == FrameWhy(toks) IN
    IF fw # "" THEN [why |-> fw, tag |-> 0]
    ELSE LET s == Structure(S, mt, toks) IN
         [why |-> s.why, tag |-> IF s.why # "" /\ s.i <= Len(toks) THEN toks[s.i][1] ELSE 0]
=============================================================================
