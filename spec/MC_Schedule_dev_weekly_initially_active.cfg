CONSTANTS
  D = 6
  Offs <- OffsZero
  Dev = {"weekly_initially_active"}
INIT MCInit
NEXT MCNext
INVARIANT Follows
CHECK_DEADLOCK FALSE
