CONSTANTS
  Vals = {1, 2, 3, 4, 5, 6}
  Dev = {}
INIT Init
NEXT Next
INVARIANT TableExact
INVARIANT HashExact
CHECK_DEADLOCK FALSE
