CONSTANTS
  Dev = {}
  H = 5
  MaxSteps = 5
  MaxNow = 25
SPECIFICATION Spec
INVARIANT MonitorAccepts
INVARIANT NoEarlyLogout
CONSTRAINT Edge
VIEW StateView
CHECK_DEADLOCK FALSE
