CONSTANTS
  MaxRot = 1024
  Counts = {0, 1, 2, 5, 1023, 1024, 1025, 1100}
  Gens = {0, 1, 2, 3, 1023, 1024, 1025}
  Fams = {"log"}
  Dev = {}
SPECIFICATION Spec
INVARIANT IndexInBounds
INVARIANT ShiftOK
INVARIANT NoInventionOK
INVARIANT CapOK
INVARIANT UntouchedOK
INVARIANT ZeroMeansNone
CONSTRAINT Leaf
CHECK_DEADLOCK FALSE
