------------------------------- MODULE Realm -------------------------------
(* Enumerated-value domains ("realms") of fix8: include/fix8/field.hpp RealmBase.                  *)
(* A realm is a sorted array of values (dt_set) or a pair <<lower, upper>> (dt_range) with a        *)
(* parallel array of descriptions; MessageBase::print / print_field (runtime/message.cpp) show      *)
(* _descriptions[get_rlm_idx(value)] next to the value whenever the index is >= 0.                  *)
(*                                                                                                  *)
(* This module puts the *meaning* (set membership, position in the sorted domain, range inclusion)  *)
(* next to a transcription of the *algorithm* (std::lower_bound as libstdc++ runs it, the test the   *)
(* code applies to its result).  Where the code departs from the meaning the departure is a named    *)
(* deviation (d \in Dev):                                                                           *)
(*   lower_bound_no_eq   get_rlm_idx returns the lower_bound position without testing equality, so  *)
(*                       a non-member below the maximum gets the index of its successor              *)
(*   range_idx_always_0  get_rlm_idx returns 0 for a range domain whatever the value                 *)
(* Values are integers here; the drivers map chars, strings and floats to integer codes that keep   *)
(* their order.  Offsets are 0-based like the C++ ones; TLA+ sequences are 1-based, hence the +1.    *)
EXTENDS Naturals, Integers, Sequences, FiniteSets, TLC

\* ---- sorted sequences -------------------------------------------------------------------------
MinOfSet(S) == CHOOSE k \in S : \A j \in S : k <= j
RECURSIVE SortedSeqOf(_)
SortedSeqOf(S) == IF S = {} THEN <<>> ELSE LET m == MinOfSet(S) IN <<m>> \o SortedSeqOf(S \ {m})
Elems(arr) == {arr[i] : i \in DOMAIN arr}
IsStrictlySorted(arr) == \A i \in 1..(Len(arr) - 1) : arr[i] < arr[i + 1]

\* ---- meaning ------------------------------------------------------------------------------------
Member(arr, v) == v \in Elems(arr)
PosOf(arr, v) == Cardinality({i \in DOMAIN arr : arr[i] < v})            \* number of smaller elements
Idx(arr, v) == IF Member(arr, v) THEN PosOf(arr, v) ELSE -1
InRange(arr, v) == arr[1] <= v /\ v <= arr[2]

\* ---- algorithm: std::lower_bound(first, first + len, v) ------------------------------------------
RECURSIVE LB(_, _, _, _)
LB(arr, v, first, len) ==
    IF len = 0 THEN first
    ELSE LET half == len \div 2
             mid == first + half
         IN IF arr[mid + 1] < v THEN LB(arr, v, mid + 1, len - half - 1) ELSE LB(arr, v, first, half)
LowerBound(arr, v) == LB(arr, v, 0, Len(arr))       \* offset in 0..Len(arr) of the first element >= v

\* RealmBase::get_rlm_idx
GetRlmIdx(dt, arr, v, Dev) ==
    IF dt = "set"
    THEN LET p == LowerBound(arr, v)
         IN IF p # Len(arr) /\ ("lower_bound_no_eq" \in Dev \/ arr[p + 1] = v) THEN p ELSE -1
    ELSE IF "range_idx_always_0" \in Dev \/ InRange(arr, v) THEN 0 ELSE -1

\* RealmBase::is_valid (std::binary_search = lower_bound + "not less")
IsValid(dt, arr, v) ==
    IF dt = "set"
    THEN LET p == LowerBound(arr, v) IN p # Len(arr) /\ ~(v < arr[p + 1])
    ELSE InRange(arr, v)

\* the printer: a description is shown iff the index is >= 0, and it is _descriptions[index]
PrintedDescOffset(dt, arr, v, Dev) == GetRlmIdx(dt, arr, v, Dev)

\* ---- the property C10 on one (domain, value) pair -------------------------------------------------
IdxExact(dt, arr, v, Dev) ==
    LET i == GetRlmIdx(dt, arr, v, Dev) IN
    IF dt = "set"
    THEN /\ (i >= 0) <=> Member(arr, v)                      \* exists only for members
         /\ i >= 0 => i < Len(arr) /\ arr[i + 1] = v           \* and belongs to that exact value
         /\ i = Idx(arr, v)
    ELSE i >= 0 => InRange(arr, v)
ValidExact(dt, arr, v) ==
    IsValid(dt, arr, v) <=> (IF dt = "set" THEN Member(arr, v) ELSE InRange(arr, v))
=============================================================================
