CONSTANTS
  Keys = {1, 2, 3}
  MaxOps = 4
  MaxCrashes = 2
  Dev = {"ctrl_slot_shared"}
SPECIFICATION Spec
INVARIANT CompletedSurvive
INVARIANT NoAlienBytes
INVARIANT CtrlIsLastCompleted
CHECK_DEADLOCK FALSE
