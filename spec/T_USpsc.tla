------------------------------ MODULE T_USpsc ------------------------------
(* Monitor for executions of a real ff::uSWSR_Ptr_Buffer (probe_mpmc `uspsc`, `uspsc2`): the         *)
(* sub-queue of the inter-thread queue must be the FIFO that USpsc.tla proves its design to be       *)
(* (Fifo, NoBreach: nothing lost, duplicated or reordered; pop fails only on an empty queue; push    *)
(* never fails).  Events:                                                                           *)
(*   Reset{mode,seg,npush}                                                                          *)
(*   uspsc  (one thread, call by call):  SPush{v,ok}  SPop{ok,v}  SDrain{items}                      *)
(*   uspsc2 (two free threads): SRuns{runs:[from,to,from,to..],got,false_after_done,timeout}         *)
(* In a one-thread execution the queue's content is known at every call, so every result is         *)
(* determined: the elements are 1,2,3.. in push order, `hd` is the next one to come out.             *)
EXTENDS Common

VARIABLES l, ms, fails, nexec
Ev == TraceLog[l]

MonStep(m, e) ==
    IF e.e = "Reset" THEN [ok |-> TRUE, why |-> "", m |-> [mode |-> e.mode, pushed |-> 0, hd |-> 1, n |-> e.npush, dead |-> FALSE]]
    ELSE IF m.dead THEN [ok |-> TRUE, why |-> "", m |-> m]
    ELSE IF m.mode = "uspsc" /\ e.e = "SPush" THEN
        LET why == IF ~e.ok THEN "push_failed" ELSE "" IN
        [ok |-> why = "", why |-> why, m |-> [m EXCEPT !.pushed = e.v, !.dead = why # ""]]
    ELSE IF m.mode = "uspsc" /\ e.e = "SPop" THEN
        LET nonempty == m.hd <= m.pushed
            why == IF nonempty /\ ~e.ok THEN "false_while_nonempty"
                   ELSE IF ~nonempty /\ e.ok THEN "element_from_empty_queue"
                   ELSE IF e.ok /\ e.v # m.hd THEN "lost_duplicated_or_reordered"
                   ELSE "" IN
        [ok |-> why = "", why |-> why, m |-> [m EXCEPT !.hd = IF e.ok THEN @ + 1 ELSE @, !.dead = why # ""]]
    ELSE IF m.mode = "uspsc" /\ e.e = "SDrain" THEN
        LET want == [k \in 1..(m.pushed - m.hd + 1) |-> m.hd + k - 1]
            why == IF e.items # want THEN "drain_differs_from_rest" ELSE "" IN
        [ok |-> why = "", why |-> why, m |-> [m EXCEPT !.dead = TRUE]]
    ELSE IF m.mode = "uspsc2" /\ e.e = "SRuns" THEN
        LET why == IF e.runs # <<1, m.n>> THEN (IF e.timeout \/ e.false_after_done > 0 THEN "lost" ELSE "lost_duplicated_or_reordered")
                   ELSE IF e.got # m.n THEN "lost"
                   ELSE IF e.false_after_done > 0 THEN "false_while_nonempty"
                   ELSE "" IN
        [ok |-> why = "", why |-> why, m |-> [m EXCEPT !.dead = TRUE]]
    ELSE [ok |-> TRUE, why |-> "", m |-> m]

Init == l = 1 /\ ms = [mode |-> "none", dead |-> TRUE] /\ fails = <<>> /\ nexec = 0
Next ==
    \/ /\ l <= NLines
       /\ LET r == MonStep(ms, Ev) IN
          /\ ms' = r.m
          /\ fails' = IF r.ok THEN fails
                      ELSE Append(fails, [line |-> l, exec |-> nexec, why |-> r.why,
                                          sig |-> ms.mode \o ":unexplained:" \o r.why])
       /\ nexec' = IF Ev.e = "Reset" THEN nexec + 1 ELSE nexec
       /\ l' = l + 1
    \/ /\ l = NLines + 1
       /\ WriteVerdict(l - 1, fails, nexec)
       /\ l' = l + 1
       /\ UNCHANGED <<ms, fails, nexec>>
=============================================================================
