CONSTANTS
  Dev = {}
  MaxSteps = 8
  MaxPeer = 9
SPECIFICATION Spec
INVARIANT NoSeqTermination
INVARIANT Recovered
INVARIANT NeverSilentlyBehind
CONSTRAINT Edge
VIEW StateView
CHECK_DEADLOCK FALSE
