CONSTANTS
  D = 24
  Offs <- OffsThorough
  Dev = {}
INIT MCInit
NEXT MCNext
INVARIANT Follows
INVARIANT ShapesAgree
CHECK_DEADLOCK FALSE
