CONSTANTS
  NQ = 2
  NProd = 2
  NCons = 2
  NPush = 1
  NPop = 2
  Dev = {}
INIT InitX
NEXT NextX
INVARIANT Reach_Empty
CHECK_DEADLOCK FALSE
