CONSTANTS
  SegSize = 3
  NSeg = 4
  CacheCap = 2
  NItems = 10
  NPops = 12
  Dev = {}
INIT Init
NEXT Next
INVARIANT Fifo
INVARIANT NoBreach
INVARIANT ChainHoldsRest
INVARIANT RingsDisjoint
CHECK_DEADLOCK FALSE
