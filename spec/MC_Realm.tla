------------------------------ MODULE MC_Realm ------------------------------
(* Exhaustive check of Realm.tla within a bound: every sorted domain over Vals (every non-empty    *)
(* subset as a set domain, every pair lo < hi as a range domain) against every probe value in      *)
(* Probes (Vals widened by one on both sides).  One state per (domain, value); there is no next    *)
(* state.  The same run prints each domain once ("LEAF"): the driver instantiates every printed    *)
(* domain as a real RealmBase over ints, chars, floats and strings and probes it.                  *)
EXTENDS Realm, Json

CONSTANTS Vals, Dev
VARIABLES dt, arr, v

Probes == (MinOfSet(Vals) - 1)..(MinOfSet({-x : x \in Vals}) * (-1) + 1)

Init ==
    /\ dt \in {"set", "range"}
    /\ arr \in IF dt = "set" THEN {SortedSeqOf(S) : S \in (SUBSET Vals) \ {{}}}
               ELSE {<<a, b>> : a \in Vals, b \in Vals} \ {<<a, b>> \in Vals \X Vals : a >= b}
    /\ v \in Probes
Next == UNCHANGED <<dt, arr, v>>

C10_Idx == IdxExact(dt, arr, v, Dev)
C10_Valid == ValidExact(dt, arr, v)
AlgSound == /\ LowerBound(arr, v) = PosOf(arr, v)          \* lower_bound is "number of smaller elements"
            /\ IsStrictlySorted(arr)

Leaf == (v = MinOfSet(Probes)) => PrintT("LEAF " \o ToJson([dt |-> dt, dom |-> arr]))
=============================================================================
