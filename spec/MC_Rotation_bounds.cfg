CONSTANTS
  MaxRot = 1024
  Counts <- AllCounts
  Gens = {}
  Fams = {"log"}
  Dev = {}
SPECIFICATION Spec
INVARIANT IndexInBounds
INVARIANT UntouchedOK
CHECK_DEADLOCK FALSE
