CONSTANTS
  MaxLen = 11
  Lenient = TRUE
  Dev = {}
INIT Init
NEXT Next
INVARIANT AcceptsExactlyConforming
INVARIANT RetainsAll
CHECK_DEADLOCK FALSE
