------------------------------- MODULE Decode -------------------------------
(* The strict FIX decoder as an *acceptor* (properties C04, C05; DESIGN.md 5.1 decoder part).       *)
(*                                                                                                *)
(* Input: a token sequence.  A token is [k, v, c]: k = the tag as canonical decimal text ("58";   *)
(* a tag that is not a positive decimal number without leading zeros has a key that no schema     *)
(* contains), v = the value, c = the value read as a group count (0 if it is not a number).       *)
(* Schema S (hand-written in MC_Decode, rendered from the schema XML by lib/decode_common.py for  *)
(* trace validation):                                                                             *)
(*    S.scopes[id] = [f |-> (key :> [m |-> mandatory, g |-> scope id of the group it counts or 0]),*)
(*                    first |-> key of the first member ("" for header/body/trailer)]             *)
(*    S.hdr, S.trl = scope ids; S.msgs = (message type :> scope id of its body)                   *)
(* Assumption checked by the renderer: the key set of every group scope is disjoint from the key  *)
(* sets of all scopes that enclose it and from header and trailer, and header, body and trailer   *)
(* are pairwise disjoint; then "the position where a tag appears" is unambiguous.                 *)
(*                                                                                                *)
(* State: section, a stack of frames (the section frame, then one frame per open group: scope,    *)
(* tags present in the current element, element index, declared count) and `out`, the retained    *)
(* fields as (path, key, value) - path "b/453.2/802.1" = body, 2nd element of group 453, 1st       *)
(* element of its nested group 802.  Step is a deterministic function, shared by the model        *)
(* checker (MC_Decode: all token sequences over a small schema) and the trace monitor (T_Decode:  *)
(* the token sequences fed to the real Message::factory).                                         *)
(*                                                                                                *)
(* E = [body |-> scope id (0: unknown message type), lenient |-> BOOLEAN, sum |-> byte sum]       *)
(* lenient = TRUE enforces only what C04 lists (valid tag for the position, no repeat, mandatory  *)
(* present, element begins with first field, checksum); lenient = FALSE additionally demands that *)
(* a group holds exactly the announced number of elements.                                        *)
(*                                                                                                *)
(* Dev: named deviations = what runtime/message.cpp was found to do.                              *)
(*   "drop_after_unknown"  decode stops at the first tag that is not valid where it stands and    *)
(*                         silently discards it and everything after it (only the mandatory and   *)
(*                         checksum tests still happen)                                           *)
(*   "tag_mod_65536"       tags are reduced modulo 65536 (token field k16)                        *)
(*   "count_unchecked"     number of elements never compared with the count                      *)
EXTENDS Naturals, Integers, Sequences, FiniteSets, TLC

Sc(S, id) == S.scopes[id]
Keys(S, id) == DOMAIN Sc(S, id).f
MandOf(S, id) == {k \in Keys(S, id) : Sc(S, id).f[k].m}

Pad3(n) == IF n < 10 THEN "00" \o ToString(n) ELSE IF n < 100 THEN "0" \o ToString(n) ELSE ToString(n)

SecFrame(sc, name, pres) == [sc |-> sc, pres |-> pres, g |-> "", idx |-> 0, cnt |-> 0, path |-> name]

Top(st) == st.stk[Len(st.stk)]
Pop(st) == [st EXCEPT !.stk = SubSeq(@, 1, Len(@) - 1)]
SetTop(st, fr) == [st EXCEPT !.stk[Len(st.stk)] = fr]
Reject(st, why) == [st EXCEPT !.ok = FALSE, !.why = why, !.at = st.n]
ElemPath(fr) == fr.path \o "/" \o fr.g \o "." \o ToString(fr.idx)
PathOf(fr) == IF fr.g = "" THEN fr.path ELSE ElemPath(fr)

KeyOf(E, tok) == IF "tag_mod_65536" \in E.dev THEN tok.k16 ELSE tok.k

\* the field goes into the top frame (section or current element)
Place(S, E, st, tok) ==
    LET fr == Top(st)
        k == KeyOf(E, tok)
        info == Sc(S, fr.sc).f[k]
        st1 == [SetTop(st, [fr EXCEPT !.pres = @ \cup {k}]) EXCEPT
                    !.out = Append(@, [p |-> PathOf(fr), k |-> k, v |-> tok.v])]
    IN IF k = "10" /\ fr.g = "" /\ st.sec = "t"
       THEN IF tok.v = Pad3(E.sum) THEN [st1 EXCEPT !.sec = "end"] ELSE Reject(st, "bad_checksum")
       ELSE IF info.g # 0 /\ tok.c > 0
       THEN [st1 EXCEPT !.stk = Append(@, [sc |-> info.g, pres |-> {}, g |-> k, idx |-> 0, cnt |-> tok.c,
                                            path |-> PathOf(fr)])]
       ELSE st1

\* the group on top of the stack ends
CloseGroup(S, E, st) ==
    LET fr == Top(st) IN
    IF fr.idx > 0 /\ ~(MandOf(S, fr.sc) \subseteq fr.pres) THEN Reject(st, "mandatory_missing_in_element")
    ELSE IF ~E.lenient /\ "count_unchecked" \notin E.dev /\ fr.idx # fr.cnt THEN Reject(st, "group_count_mismatch")
    ELSE Pop(st)

Elsewhere(S, E, k) == k \in Keys(S, S.hdr) \/ k \in Keys(S, S.trl) \/ (E.body # 0 /\ k \in Keys(S, E.body))
NotHere(S, E, st, k) ==
    IF "drop_after_unknown" \in E.dev THEN [st EXCEPT !.stopped = TRUE]
    ELSE Reject(st, IF Elsewhere(S, E, k) THEN "misplaced" ELSE "unknown_tag")

RECURSIVE Step(_, _, _, _)
Step(S, E, st0, tok) ==
    LET st == IF st0.fresh THEN [st0 EXCEPT !.n = @ + 1, !.fresh = FALSE] ELSE st0     \* count each token once
        fr == Top(st)
        k == KeyOf(E, tok)
    IN
    IF ~st.ok \/ st.stopped THEN st
    ELSE IF st.sec = "end" THEN Reject(st, "after_checksum")
    ELSE IF fr.g # "" THEN                                    \* inside a repeating group
        IF k = Sc(S, fr.sc).first THEN                        \* a new element begins
            IF fr.idx > 0 /\ ~(MandOf(S, fr.sc) \subseteq fr.pres) THEN Reject(st, "mandatory_missing_in_element")
            ELSE Place(S, E, SetTop(st, [fr EXCEPT !.idx = @ + 1, !.pres = {}]), tok)
        ELSE IF k \in Keys(S, fr.sc) THEN
            IF fr.idx = 0 THEN Reject(st, "element_not_first")
            ELSE IF k \in fr.pres THEN Reject(st, "duplicate_in_element")
            ELSE Place(S, E, st, tok)
        ELSE LET c == CloseGroup(S, E, st) IN IF c.ok THEN Step(S, E, c, tok) ELSE c
    ELSE IF k \in Keys(S, fr.sc) THEN                          \* header / body / trailer field
        IF k \in fr.pres THEN Reject(st, "duplicate") ELSE Place(S, E, st, tok)
    ELSE                                                      \* not valid in this section: a later one?
        LET toBody == st.sec = "h" /\ E.body # 0 /\ k \in Keys(S, E.body)
            toTrl == st.sec \in {"h", "b"} /\ k \in Keys(S, S.trl)
        IN IF ~(toBody \/ toTrl) THEN NotHere(S, E, st, k)
           ELSE IF ~(MandOf(S, fr.sc) \subseteq fr.pres) THEN Reject(st, "mandatory_missing_" \o st.sec)
           ELSE IF toBody THEN Step(S, E, [st EXCEPT !.sec = "b", !.stk = <<SecFrame(E.body, "b", {})>>], tok)
           ELSE IF st.sec = "h" /\ E.body # 0 /\ MandOf(S, E.body) # {} THEN Reject(st, "mandatory_missing_b")
           ELSE Step(S, E, [st EXCEPT !.sec = "t", !.stk = <<SecFrame(S.trl, "t", {})>>], tok)

Feed(S, E, st, tok) == Step(S, E, [st EXCEPT !.fresh = TRUE], tok)

\* the first three fields are BeginString, BodyLength, MsgType; they belong to the header
Start(S, E, t1, t2, t3) ==
    LET base == [sec |-> "h", stk |-> <<SecFrame(S.hdr, "h", {"8", "9", "35"})>>,
                 out |-> <<[p |-> "h", k |-> "8", v |-> t1.v], [p |-> "h", k |-> "9", v |-> t2.v],
                           [p |-> "h", k |-> "35", v |-> t3.v]>>,
                 ok |-> TRUE, why |-> "", at |-> 0, n |-> 3, fresh |-> FALSE, stopped |-> FALSE]
    IN IF t1.k # "8" \/ t2.k # "9" \/ t3.k # "35" THEN [base EXCEPT !.ok = FALSE, !.why = "first_three", !.at = 3]
       ELSE IF E.body = 0 THEN [base EXCEPT !.ok = FALSE, !.why = "unknown_msgtype", !.at = 3]
       ELSE base

RECURSIVE CloseAll(_, _, _)
CloseAll(S, E, st) == IF ~st.ok \/ Top(st).g = "" THEN st
                      ELSE LET c == CloseGroup(S, E, st) IN IF c.ok THEN CloseAll(S, E, c) ELSE c

\* end of input.  lastTok is the final token of the input (the code looks at the last 7 bytes).
Finish(S, E, st0, lastTok) ==
    IF ~st0.ok THEN st0
    ELSE IF st0.stopped THEN
        \* drop_after_unknown: fields seen so far must satisfy the mandatory test of their own frames
        \* and of the sections not yet reached; the checksum is taken from the end of the input
        LET openBad == \E i \in DOMAIN st0.stk : LET fr == st0.stk[i] IN
                           (fr.g = "" \/ fr.idx > 0) /\ ~(MandOf(S, fr.sc) \subseteq fr.pres)
            laterBad == st0.sec = "h" /\ MandOf(S, E.body) # {}
        IN IF openBad \/ laterBad THEN Reject(st0, "mandatory_missing_after_stop")
           ELSE IF lastTok.k # "10" \/ lastTok.v # Pad3(E.sum) THEN Reject(st0, "bad_checksum")
           ELSE st0
    ELSE LET st == CloseAll(S, E, st0) IN
         IF ~st.ok THEN st
         ELSE IF st.sec # "end" THEN Reject(st, "checksum_not_last")
         ELSE st

RECURSIVE FeedAll(_, _, _, _, _)
FeedAll(S, E, st, toks, i) == IF i > Len(toks) THEN st ELSE FeedAll(S, E, Feed(S, E, st, toks[i]), toks, i + 1)

\* the whole acceptor: result state (ok, why, at = index of the offending token, out = retained fields)
Run(S, E, toks) ==
    IF Len(toks) < 4 THEN [ok |-> FALSE, why |-> "too_short", at |-> Len(toks), out |-> <<>>]
    ELSE LET s == Finish(S, E, FeedAll(S, E, Start(S, E, toks[1], toks[2], toks[3]), toks, 4), toks[Len(toks)])
         IN [ok |-> s.ok, why |-> s.why, at |-> s.at, out |-> s.out]

BodyOf(S, mt) == IF mt \in DOMAIN S.msgs THEN S.msgs[mt] ELSE 0
=============================================================================
