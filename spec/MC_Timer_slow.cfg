CONSTANTS
  MaxEv = 2
  Delays = {1, 2, 5}
  Steps = {1, 3}
  MaxNow = 8
  MaxRuns = 2
  MaxClr = 1
  Dev = {}
  Slows = {0, 2}
  Export = FALSE
INIT Init
NEXT Next
INVARIANT NoEarlyFire
INVARIANT DueOrder
INVARIANT RepeatSpacing
INVARIANT ClearSilences
CHECK_DEADLOCK FALSE
