------------------------------ MODULE Calendar ------------------------------
(* C09.  The proleptic Gregorian calendar as a *day-stepping* state machine (today -> tomorrow: the *)
(* only calendar knowledge is the month lengths and the leap rule), the closed forms derived from  *)
(* it (day number <-> civil date; MC_Calendar.tla checks them against the stepping machine for      *)
(* every day 1970-01-01 .. 2099-12-31), the FIX renderings of an instant, and transcriptions of    *)
(*   time_to_epoch          include/fix8/field.hpp   (custom mktime used by every date/time parser)  *)
(*   GetTimeAsStringMS      runtime/f8utils.cpp      (seconds field of the log time stamp)           *)
(* An instant is (day, sod, ms): days since 1970-01-01, second of day, millisecond - TLC integers    *)
(* are 32 bit and seconds since the epoch pass 2^31 in 2038.                                        *)
EXTENDS Naturals, Integers, Sequences, TLC, ChksumU32

\* ---- the calendar, one day at a time -----------------------------------------------------------------
IsLeap(y) == (y % 4 = 0 /\ y % 100 # 0) \/ y % 400 = 0
DaysIn(y, m) == IF m = 2 THEN (IF IsLeap(y) THEN 29 ELSE 28) ELSE IF m \in {4, 6, 9, 11} THEN 30 ELSE 31
Epoch == [day |-> 0, y |-> 1970, m |-> 1, d |-> 1, wd |-> 4]          \* a Thursday (0 = Sunday)
Tomorrow(c) ==
    LET base == [c EXCEPT !.day = @ + 1, !.wd = (@ + 1) % 7]
    IN IF c.d < DaysIn(c.y, c.m) THEN [base EXCEPT !.d = @ + 1]
       ELSE IF c.m < 12 THEN [base EXCEPT !.m = @ + 1, !.d = 1]
       ELSE [base EXCEPT !.y = @ + 1, !.m = 1, !.d = 1]

\* ---- closed forms (what the monitors use; proved equal to the walk by TLC on 1970..2099) ---------------
LeapsThrough(y) == y \div 4 - y \div 100 + y \div 400          \* leap years in 1..y
DaysBeforeYear(y) == (y - 1970) * 365 + (LeapsThrough(y - 1) - LeapsThrough(1969))
CumDays == <<0, 31, 59, 90, 120, 151, 181, 212, 243, 273, 304, 334>>
DaysBeforeMonth(y, m) == CumDays[m] + (IF m > 2 /\ IsLeap(y) THEN 1 ELSE 0)
ValidDate(y, m, d) == y \in 1970..2099 /\ m \in 1..12 /\ d \in 1..DaysIn(y, m)
DayNumber(y, m, d) == DaysBeforeYear(y) + DaysBeforeMonth(y, m) + d - 1
YearOf(day) == LET g == 1970 + day \div 365 IN IF DaysBeforeYear(g) > day THEN g - 1 ELSE g
CivilOf(day) ==
    LET y == YearOf(day)
        doy == day - DaysBeforeYear(y)
        m == CHOOSE k \in 1..12 : DaysBeforeMonth(y, k) <= doy /\ doy < DaysBeforeMonth(y, k) + DaysIn(y, k)
    IN [y |-> y, m |-> m, d |-> doy - DaysBeforeMonth(y, m) + 1]
WeekdayOf(day) == (4 + day) % 7

\* ---- renderings ------------------------------------------------------------------------------------------
DigitStr == <<"0", "1", "2", "3", "4", "5", "6", "7", "8", "9">>
Dg(d) == DigitStr[d + 1]
P2(n) == Dg((n \div 10) % 10) \o Dg(n % 10)
P3(n) == Dg((n \div 100) % 10) \o P2(n)
P4(n) == Dg((n \div 1000) % 10) \o P3(n)
\* n printed with exactly w digits (w in 1..9)
RECURSIVE PW(_, _)
PW(n, w) == IF w = 0 THEN "" ELSE PW(n \div 10, w - 1) \o Dg(n % 10)

HourOf(sod) == sod \div 3600
MinOf(sod) == (sod % 3600) \div 60
SecOf(sod) == sod % 60
DateText(day) == LET c == CivilOf(day) IN P4(c.y) \o P2(c.m) \o P2(c.d)                 \* YYYYMMDD
MonthText(day) == LET c == CivilOf(day) IN P4(c.y) \o P2(c.m)                          \* YYYYMM
ClockText(sod) == P2(HourOf(sod)) \o ":" \o P2(MinOf(sod)) \o ":" \o P2(SecOf(sod))      \* HH:MM:SS
TimeOnlyText(sod, ms) == ClockText(sod) \o "." \o P3(ms)                                \* HH:MM:SS.sss
TimestampText(day, sod, ms) == DateText(day) \o "-" \o TimeOnlyText(sod, ms)            \* YYYYMMDD-HH:MM:SS.sss
FirstOfMonth(day) == LET c == CivilOf(day) IN DayNumber(c.y, c.m, 1)
\* texts from civil fields (for parse events, where the driver supplies the fields it put in the text)
FieldsDateText(f) == P4(f.y) \o P2(f.mo) \o P2(f.d)
FieldsMonthText(f) == P4(f.y) \o P2(f.mo)
FieldsTimeText(f) == P2(f.h) \o ":" \o P2(f.mi) \o ":" \o P2(f.s) \o "." \o P3(f.ms)
FieldsSod(f) == f.h * 3600 + f.mi * 60 + f.s

\* ---- time_to_epoch(tm, 0): transcription -------------------------------------------------------------
MonDays == <<0, 31, 59, 90, 120, 151, 181, 212, 243, 273, 304, 334, 365>>
\* result as an instant [day, sod] (seconds = day * 86400 + sod, sod in 0..86399)
\* deviation epoch_int_overflow (the code before the fix): `tdays * 86400 + ...` is evaluated in int, so
\* it wraps modulo 2^32 for every instant after 2038-01-19 03:14:07
TimeToEpoch(dev, tm_year, tm_mon, tm_mday, hour, min, sec) ==
    LET tyears == IF tm_year # 0 THEN tm_year - 70 ELSE 0
        t0 == MonDays[tm_mon + 1] + (IF tm_mday # 0 THEN tm_mday - 1 ELSE 0) + tyears * 365 + (tyears + 2) \div 4
        tdays == IF tm_year # 0 /\ tm_year % 4 = 0 /\ tm_mon < 2 THEN t0 - 1 ELSE t0
        sod == hour * 3600 + min * 60 + sec
    IN IF "epoch_int_overflow" \notin dev THEN [day |-> tdays + sod \div 86400, sod |-> sod % 86400]
       ELSE \* tdays * 86400 = tdays * 65536 + tdays * 20864, kept in 16-bit halves and wrapped to int32
            LET low == tdays * 20864 + sod
                w == U32((tdays + low \div 65536) % 65536, low % 65536)
                s32 == AsInt32(w)
            IN [day |-> s32 \div 86400, sod |-> s32 % 86400]

\* ---- GetTimeAsStringMS: the seconds field ---------------------------------------------------------------
Pow10 == <<1, 10, 100, 1000, 10000, 100000, 1000000, 10000000, 100000000, 1000000000>>
Ten(k) == Pow10[k + 1]
DashDate(day) == LET c == CivilOf(day) IN P4(c.y) \o "-" \o P2(c.m) \o "-" \o P2(c.d)
\* "YYYY-MM-DD HH:MM:" + seconds field; frac is the fraction printed with dp digits
LogText(day, sod, frac, dp) ==
    DashDate(day) \o " " \o P2(HourOf(sod)) \o ":" \o P2(MinOf(sod)) \o ":" \o P2(SecOf(sod))
      \o (IF dp = 0 THEN "" ELSE "." \o PW(frac, dp))
\* the instant truncated to dp places: always the instant's own calendar fields
LogTruncated(day, sod, ns, dp) == LogText(day, sod, ns \div Ten(9 - dp), dp)
\* the instant rounded to dp places *with the carry propagated* into seconds, minutes, ... , the date
RoundsUp(ns, dp) == 2 * (ns % Ten(9 - dp)) >= Ten(9 - dp)
IsTie(ns, dp) == 2 * (ns % Ten(9 - dp)) = Ten(9 - dp)
LogRounded(day, sod, ns, dp) ==
    LET f == ns \div Ten(9 - dp) + 1
    IN IF f < Ten(dp) THEN LogText(day, sod, f, dp)
       ELSE IF sod < 86399 THEN LogText(day, sod + 1, 0, dp) ELSE LogText(day + 1, 0, 0, dp)
\* deviation log_seconds_round_to_60 (the code before the fix): the seconds are printed as a rounded
\* floating point number next to the unrounded minute, so 59.9996 at three places reads "60.000"
LogAsCode(dev, day, sod, ns, dp) ==
    IF dp = 0 \/ "log_seconds_round_to_60" \notin dev THEN LogTruncated(day, sod, ns, dp)
    ELSE IF ~RoundsUp(ns, dp) THEN LogTruncated(day, sod, ns, dp)
    ELSE LET f == ns \div Ten(9 - dp) + 1
         IN IF f < Ten(dp) THEN LogText(day, sod, f, dp)
            ELSE DashDate(day) \o " " \o P2(HourOf(sod)) \o ":" \o P2(MinOf(sod)) \o ":" \o P2(SecOf(sod) + 1)
                   \o "." \o PW(0, dp)
\* C09, log clause: the text shows the instant's calendar fields (truncated, or rounded to the printed
\* precision with the carry propagated; on an exact tie either) and therefore seconds in 00..59
LogAccepted(day, sod, ns, dp, text) ==
    \/ text = LogTruncated(day, sod, ns, dp)
    \/ RoundsUp(ns, dp) /\ text = LogRounded(day, sod, ns, dp)
=============================================================================
