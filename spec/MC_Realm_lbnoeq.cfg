CONSTANTS
  Vals = {0, 1, 2, 3}
  Dev = {"lower_bound_no_eq"}
INIT Init
NEXT Next
INVARIANT C10_Idx
CHECK_DEADLOCK FALSE
