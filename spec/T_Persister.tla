---------------------------- MODULE T_Persister ----------------------------
(* Trace monitor for C26 (store contract) and C27 (crash consistency of the file store).          *)
(* One trace line = one call on the real persister with what it returned; the driver has replaced *)
(* byte strings by message ids (-1 = bytes never handed to the store).  Events:                   *)
(*   Reset{kind}  Put{seq,id,ret,k0,k1,so}  Get{seq,ret,id}  PutCtrl{s,r,ret,k0,k1}  GetCtrl{ret,s,r}*)
(*   Last{ret,out}  Nearest{req,last,ret}  Range{from,to,ret,calls:[{seq,id,nomore}]}  Reopen{k}   *)
(* k0/k1 are the numbers of completed system calls on the store's files before/after the call, so *)
(* "Reopen2" = a clean restart afterwards (fresh persister on the files the reopened one left).     *)
(* "Reopen{k}" (a fresh persister on the disk image after system call k) tells the monitor which  *)
(* stores had completed (k1 <= k) and which one was in flight (k0 < k < k1).                       *)
(*                                                                                                *)
(* The monitor keeps a *set of candidate contract states* (one, or two while an in-flight store   *)
(* may or may not have reached the disk).  A call is accepted iff its observed result is the      *)
(* contract's result in some candidate.  `dc` tracks what the named deviation ctrl_slot_shared    *)
(* would predict; it is used only to label a rejection, never to accept anything.                 *)
EXTENDS Common, Persister

VARIABLES l, ms, fails, nexec, labels

NoOp == [op |-> "none"]
\* pempty / pfirst / pctrl: deviation ctrl_slot_shared once more, for the process that reopened the store: the index file
\* was empty when it opened it, the first record it stored was message pfirst (0 = nothing yet, -1 = a control record),
\* and a control store followed - then that message is predicted to be missing after the next restart (Reopen2)
MsInit(kind) == [kind |-> kind, phase |-> "live", c |-> {CInit}, dc |-> {}, log |-> <<>>,
                 amb |-> NoOp, ever |-> EmptyFn, pempty |-> FALSE, pfirst |-> 0, pctrl |-> FALSE]

Ev == TraceLog[l]

\* ---- observation of one call, in the shape of Apply's result ------------------------------------
StripDone(calls) == IF calls # <<>> /\ calls[Len(calls)].seq = 0 THEN SubSeq(calls, 1, Len(calls) - 1) ELSE calls
OpOf(e) ==
    CASE e.e = "Put" -> [op |-> "Put", seq |-> e.seq, id |-> e.id]
      [] e.e = "Get" -> [op |-> "Get", seq |-> e.seq]
      [] e.e = "PutCtrl" -> [op |-> "PutCtrl", s |-> e.s, r |-> e.r]
      [] e.e = "GetCtrl" -> [op |-> "GetCtrl"]
      [] e.e = "Last" -> [op |-> "Last"]
      [] e.e = "Nearest" -> [op |-> "Nearest", req |-> e.req, last |-> e.last]
      [] e.e = "Range" -> [op |-> "Range", from |-> e.from, to |-> e.to]
ObsOf(e) ==
    CASE e.e = "Put" -> [ret |-> e.ret]
      [] e.e = "Get" -> [ret |-> e.ret, id |-> IF e.ret THEN e.id ELSE None]
      [] e.e = "PutCtrl" -> [ret |-> e.ret]
      [] e.e = "GetCtrl" -> [ret |-> e.ret, s |-> IF e.ret THEN e.s ELSE 0, r |-> IF e.ret THEN e.r ELSE 0]
      [] e.e = "Last" -> [ret |-> e.ret]
      [] e.e = "Nearest" -> [ret |-> e.ret]
      [] e.e = "Range" -> [calls |-> [i \in DOMAIN StripDone(e.calls) |->
                                        [seq |-> e.calls[i].seq, id |-> e.calls[i].id]],
                           ret |-> e.ret]
\* call-shape clauses that do not depend on the store's content
WellFormed(e) ==
    CASE e.e = "Last" -> e.out = e.ret
      [] e.e = "Range" -> /\ e.calls # <<>>
                          /\ e.calls[Len(e.calls)].seq = 0 /\ e.calls[Len(e.calls)].nomore
                          /\ \A i \in 1..(Len(e.calls) - 1) : e.calls[i].seq # 0 /\ ~e.calls[i].nomore
      [] OTHER -> TRUE

IsCall(e) == e.e \in {"Put", "Get", "PutCtrl", "GetCtrl", "Last", "Nearest", "Range"}

\* ---- completed / in-flight stores at a crash point --------------------------------------------
RECURSIVE FoldDone(_, _, _)
FoldDone(log, k, st) ==
    IF log = <<>> THEN st
    ELSE FoldDone(Tail(log), k, IF Head(log).k1 <= k THEN Apply(st, Head(log).o).st ELSE st)
InFlight(log, k) ==
    LET c == {i \in DOMAIN log : log[i].k0 < k /\ k < log[i].k1}
    IN IF c = {} THEN NoOp ELSE log[CHOOSE i \in c : TRUE].o

\* deviation ctrl_slot_shared: the first message record shares slot 1 with the control record.  It
\* applies when the first successful store of the execution was a message and a later control store
\* reached the disk by system call k; it predicts that this message is missing after a reopen.
FirstIsMsg(log) == log # <<>> /\ log[1].o.op = "Put"
CtrlWritten(log, k) == \E i \in DOMAIN log : log[i].o.op = "PutCtrl" /\ log[i].k1 <= k
Without(st, q) == [st EXCEPT !.store = [x \in DOMAIN st.store \ {q} |-> st.store[x]]]

\* ---- one monitor step --------------------------------------------------------------------------
StepCands(cs, o, obs, lenientPut) ==
    LET ok == {c \in cs : Apply(c, o).res = obs} IN
    IF ok # {} THEN [ok |-> TRUE, cs |-> {Apply(c, o).st : c \in ok}]
    ELSE IF lenientPut THEN [ok |-> TRUE, cs |-> cs]
    ELSE [ok |-> FALSE, cs |-> {Apply(c, o).st : c \in cs}]

Clause(e, m) ==
    CASE ~WellFormed(e) -> "call_shape"
      [] e.e = "Get" /\ e.ret /\ (e.seq \notin DOMAIN m.ever \/ e.id \notin m.ever[e.seq]) -> "alien_bytes"
      [] e.e = "Get" /\ e.ret -> "wrong_message"
      [] e.e = "Get" -> "stored_message_missing"
      [] e.e = "GetCtrl" -> "control_record"
      [] e.e = "Put" -> "put_result"
      [] e.e = "PutCtrl" -> "putctrl_result"
      [] OTHER -> "query_" \o e.e

MonStep(m, e) ==
    IF e.e = "Reset" THEN [ok |-> TRUE, m |-> MsInit(e.kind), why |-> "", sig |-> ""]
    ELSE IF e.e = "Reopen" THEN
        LET base == FoldDone(m.log, e.k, CInit)
            a == InFlight(m.log, e.k)
            cs == IF a.op = "none" THEN {base} ELSE {base, Apply(base, a).st}
            dcs == IF FirstIsMsg(m.log) /\ CtrlWritten(m.log, e.k)
                   THEN {Without(c, m.log[1].o.seq) : c \in cs} ELSE {}
        IN [ok |-> e.ret, m |-> [m EXCEPT !.phase = "post", !.c = cs, !.dc = dcs, !.amb = a,
                                          !.pempty = TRUE, !.pctrl = FALSE,
                                          \* what index slot 0 holds on this disk image: nothing yet (0), message q not yet
                                          \* overwritten by a control store (q), or a control record / nothing at stake (-1)
                                          !.pfirst = IF Get(e, "idxlen", 1) = 0 THEN 0
                                                     ELSE IF FirstIsMsg(m.log) /\ m.log[1].k1 <= e.k /\ ~CtrlWritten(m.log, e.k)
                                                          THEN m.log[1].o.seq ELSE -1],
            why |-> "reopen_failed", sig |-> "reopen_failed"]
    \* a clean restart after the crash recovery: the process that reopened the store ends in an orderly way and another one
    \* opens the files; nothing is in flight, so what the candidates hold must all be there
    ELSE IF e.e = "Reopen2" THEN
        [ok |-> e.ret,
         m |-> [m EXCEPT !.dc = m.dc \cup (IF m.pfirst > 0 /\ m.pctrl THEN {Without(c, m.pfirst) : c \in m.c \cup m.dc} ELSE {}),
                         !.pempty = FALSE, !.pfirst = 0, !.pctrl = FALSE],
         why |-> "reopen_failed", sig |-> "second_reopen_failed"]
    ELSE IF IsCall(e) THEN
        LET o == OpOf(e)
            obs == ObsOf(e)
            \* a refused store on the number whose store was in flight at the crash is tolerated
            \* and C27 says nothing about last/nearest/range while a store may be half on the disk
            lenient == /\ m.phase = "post"
                       /\ \/ e.e = "Put" /\ ~e.ret /\ m.amb.op = "Put" /\ m.amb.seq = e.seq
                          \/ e.e \in {"Last", "Nearest", "Range"} /\ m.amb.op # "none"
            r == StepCands(m.c, o, obs, lenient)
            d == StepCands(m.dc, o, obs, lenient)
            wf == WellFormed(e)
            ev2 == IF e.e = "Put" THEN (e.seq :> ((IF e.seq \in DOMAIN m.ever THEN m.ever[e.seq] ELSE {}) \cup {e.id})) @@ m.ever
                   ELSE m.ever
            log2 == IF m.phase = "live" /\ e.e \in {"Put", "PutCtrl"} /\ e.ret
                    THEN Append(m.log, [o |-> o, k0 |-> e.k0, k1 |-> e.k1]) ELSE m.log
            explained == m.dc # {} /\ wf /\ \E c \in m.dc : Apply(c, o).res = obs
            post == m.phase = "post" /\ m.pempty /\ (IF e.e \in {"Put", "PutCtrl"} THEN e.ret ELSE FALSE)
            pf2 == IF post /\ m.pfirst = 0 THEN (IF e.e = "Put" THEN e.seq ELSE IF e.e = "PutCtrl" THEN -1 ELSE 0) ELSE m.pfirst
            pc2 == m.pctrl \/ (post /\ e.e = "PutCtrl" /\ m.pfirst > 0)
        IN [ok |-> r.ok /\ wf,
            m |-> [m EXCEPT !.c = r.cs, !.dc = d.cs, !.ever = ev2, !.log = log2, !.pfirst = pf2, !.pctrl = pc2],
            why |-> Clause(e, m),
            sig |-> m.kind \o ":" \o m.phase \o ":" \o
                    (IF explained THEN "ctrl_slot_shared" ELSE "unexplained:" \o Clause(e, m))]
    ELSE [ok |-> TRUE, m |-> m, why |-> "", sig |-> ""]

\* design conformance label (never a verdict): order of the store's four system calls
OrderLabel(e) == IF e.e = "Put" /\ e.ret /\ Has(e, "so") /\ e.so # ""
                 THEN (IF e.so = "EiEdWdWi" THEN "order_data_then_index"
                       ELSE IF e.so = "EiEdWiWd" THEN "dev_idx_before_data" ELSE "order_other:" \o e.so)
                 ELSE ""
Bump(b, k) == IF k = "" THEN b ELSE IF k \in DOMAIN b THEN [b EXCEPT ![k] = @ + 1] ELSE (k :> 1) @@ b

Init == l = 1 /\ ms = MsInit("none") /\ fails = <<>> /\ nexec = 0 /\ labels = EmptyFn
Next ==
    \/ /\ l <= NLines
       /\ LET r == MonStep(ms, Ev) IN
          /\ ms' = r.m
          /\ fails' = IF r.ok THEN fails
                      ELSE Append(fails, [line |-> l, exec |-> nexec, why |-> r.why, sig |-> r.sig])
       /\ nexec' = IF Ev.e = "Reset" THEN nexec + 1 ELSE nexec
       /\ labels' = Bump(labels, OrderLabel(Ev))
       /\ l' = l + 1
    \/ /\ l = NLines + 1
       /\ WriteVerdictL(l - 1, fails, nexec, labels)
       /\ l' = l + 1
       /\ UNCHANGED <<ms, fails, nexec, labels>>
=============================================================================
