CONSTANTS
  Threads = {1, 2, 3}
  K = 2
  Model = "threaded"
  Dev = {"no_lock"}
SPECIFICATION Spec
INVARIANT UniqueConsecutive
INVARIANT ExactlyOnce
INVARIANT StoredIsTransmitted
INVARIANT AllSent
CHECK_DEADLOCK FALSE
