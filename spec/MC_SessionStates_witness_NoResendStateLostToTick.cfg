SPECIFICATION Spec
INVARIANT NoResendStateLostToTick
CHECK_DEADLOCK FALSE
