----------------------------- MODULE MC_Chksum -----------------------------
(* Model checking of the calc_chksum transcription (Chksum.tla): one behaviour = one call, one step *)
(* = one loop iteration; Init ranges over a bounded input family chosen by `Family`.               *)
EXTENDS Chksum, Json

CONSTANTS Dev,        \* named deviations of the code from the property ({} = ideal)
          Family,     \* which input family Init ranges over
          MaxTiny,    \* longest buffer of the "tiny" family
          MaxMid,     \* longest buffer of the "mid" family
          CarryLens,  \* explicit lengths tried in the "carry" family (besides "no length")
          CarryTail   \* longest tail (0..2 bytes) appended to the 16-byte block in the "carry" family

VARIABLE st

Small == {1, 128, 255}
Try(s, o, l) == InDomain(s, o, l) /\ st = Begin(s, o, l)

Init ==
    CASE Family = "tiny" ->
           \* every buffer of up to MaxTiny bytes over three byte values, every offset, every length or none
           \E n \in 0..MaxTiny : \E b \in [1..n -> Small] : \E o \in 0..n : \E l \in (-1)..(n - o) :
               Try(Lit(b), o, l)
      [] Family = "mid" ->
           \* every buffer of 8..MaxMid bytes over {0x01, 0xff}, every offset, every length or none: the
           \* word loop entered at every offset, followed by every tail length
           \E n \in 8..MaxMid : \E b \in [1..n -> {1, 255}] : \E o \in 0..n : \E l \in (-1)..(n - o) :
               Try(Lit(b), o, l)
      [] Family = "carry" ->
           \* every 16-byte block over {0x01, 0xff} (all carry patterns of four lanes over four words),
           \* followed by a 0..2 byte tail (signed chars), summed whole or with an explicit length
           \E b \in [1..16 -> {1, 255}] : \E t \in {SubSeq(<<255, 128>>, 1, k) : k \in 0..CarryTail} : \E l \in {-1} \cup CarryLens :
               Try(Lit(b \o t), 0, l)
      [] Family = "pattern" ->
           \* long buffers around every multiple of 256 (the fold interval) and of 4 / 8 (stride, tail)
           \E p \in {"ff", "alt", "hi", "ramp", "mix"} :
           \E z \in {255, 256, 257, 263, 264, 265, 271, 272, 519, 520, 521, 1031, 1032, 1033, 1290, 2100} :
           \E o \in {0, 1, 5} : \E l \in {-1, 0, 8, 250, 264, z - 5} :
               Try(Pat(p, 3, z), o, l)

Next == st' = Step(Dev, st)

\* input export (a CONSTRAINT that is always true): every initial state is printed once, so the driver
\* runs the real code on exactly the family this model was checked on
Export == (st.pc = "start" =>
             PrintT("LEAF " \o ToJson([src |-> st.src, off |-> st.off, len |-> st.len]))) /\ TRUE

InvResult == ResultIsByteSum(st)
InvReads == ReadsInRange(st)
InvGhost == GhostIsByteSum(st)
InvLoop == LoopInvariant(st)
InvTail == TailInvariant(st)
\* vacuity guards: these must be *violated* (some run finishes; some run goes through a fold)
NeverDone == st.pc # "done"
NeverFolds == ~(st.pc = "loop" /\ st.ii > 256 /\ st.overflow # U32Zero)
=============================================================================
