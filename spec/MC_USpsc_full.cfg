CONSTANTS
  SegSize = 2
  NSeg = 5
  CacheCap = 1
  NItems = 9
  NPops = 11
  Dev = {}
INIT Init
NEXT Next
INVARIANT Fifo
INVARIANT NoBreach
INVARIANT ChainHoldsRest
INVARIANT RingsDisjoint
CHECK_DEADLOCK FALSE
