------------------------------ MODULE T_Codec ------------------------------
(* Trace monitor for C01 (round trip), C02 (wire well-formedness) and C11 (clone / copy_legal /    *)
(* move_legal).  One execution = one message built on the real library by probe_codec:             *)
(*   Reset{prop, sch, mt, want, neg, late, big}   want: the message the driver asked for (field     *)
(*        tree in schema order); neg/late/big: tags carrying a negative integer / a date after     *)
(*        2038 / an integer within 47 of INT_MAX; hint: input classes of the message that name a   *)
(*        known weakness of the decoder (all four are used for signatures only)                    *)
(*   Built{ok, bad, tree}       what the library holds after the add_field calls                   *)
(*   Encode{ok, toks, len, h1, h2}    bytes1: token list (see CodecOps), length and two hashes     *)
(*   Decode{ok, tree, excid}    Message::factory(bytes1); excid names the exception it threw       *)
(*   Reencode{ok, len, h1, h2}  encode of the decoded message                                      *)
(*   Clone{ok, tree, len, h1, h2}     the clone and encode(clone)                                  *)
(*   CopyLegal{ok, tree}   MoveLegal{ok, tree}    target message after the transfer                *)
(* Schema facts (sections, positions, group membership, first fields, type classes) come from the  *)
(* side file SCHEMA written by lib/codec_common.py from lib/schema.py (the XML), never from the     *)
(* library.  The monitor demands:                                                                  *)
(*   C01  decoded tree = want (same fields, same text, same elements in the same order; the order   *)
(*        of fields inside a container and the derived fields 8/9/35/10 are not compared) and       *)
(*        bytes2 = bytes1.  A legal message the library refuses to build or encode also fails.     *)
(*   C02  WellFormed (CodecOps) on the token list of every encoding.                               *)
(*   C11  encode(clone) = encode(original); copy target = source as built; move target = source.   *)
(* After the first failure of an execution the monitor stays silent until the next Reset.          *)
EXTENDS Common, CodecOps

VARIABLES l, ms, fails, nexec

SchemaAll == JsonDeserialize(IOEnv.SCHEMA)

NoMsg == [h |-> <<>>, b |-> <<>>, t |-> <<>>]
MsInit == [prop |-> "", sch |-> "", mt |-> "", want |-> NoMsg, built |-> NoMsg, neg |-> {}, late |-> {}, big |-> {}, hint |-> "",
           enc |-> <<0, 0, 0>>, haveEnc |-> FALSE, dead |-> TRUE]

Ev == TraceLog[l]

\* ---- signature helpers ---------------------------------------------------------------------------
\* deepest differing field of two containers: <<tag, how>>
RECURSIVE LeafDiff(_, _)
LeafDiff(a, b) ==
    LET d == FirstDiff(a, b) IN
    IF d = 0 THEN <<0, "same">>
    ELSE IF d \notin TagsOf(a) THEN <<d, "missing">>
    ELSE IF d \notin TagsOf(b) THEN <<d, "extra">>
    ELSE LET fa == FieldOf(a, d)  fb == FieldOf(b, d) IN
         IF fa[2] # fb[2] THEN <<d, "value">>
         ELSE IF Len(fa[3]) # Len(fb[3]) THEN <<d, "element_count">>
         ELSE LET j == CHOOSE k \in DOMAIN fa[3] : NormC(fa[3][k]) # NormC(fb[3][k]) /\
                                                   \A q \in 1..(k - 1) : NormC(fa[3][q]) = NormC(fb[3][q])
              IN LeafDiff(fa[3][j], fb[3][j])
MsgLeafDiff(x, y) ==
    LET dh == LeafDiff(Without(x.h, Derived), Without(y.h, Derived))
        db == LeafDiff(x.b, y.b)
        dt == LeafDiff(Without(x.t, Derived), Without(y.t, Derived))
    IN IF dh[1] # 0 THEN dh ELSE IF db[1] # 0 THEN db ELSE dt
TypeOf(m, tag) == LET ty == SchemaAll[m.sch].types IN IF ToString(tag) \in DOMAIN ty THEN ty[ToString(tag)] ELSE "unknown"
\* e.g. "int_negative:value", "timestamp_after2038:value", "string:missing"
DiffSig(m, got, ref) ==
    LET d == MsgLeafDiff(got, ref) IN
    TypeOf(m, d[1]) \o (IF d[1] \in m.neg THEN "_negative" ELSE IF d[1] \in m.late THEN "_after2038"
                             ELSE IF d[1] \in m.big THEN "_near_intmax" ELSE "") \o ":" \o d[2]

DiffTag(got, ref) == " (tag " \o ToString(MsgLeafDiff(got, ref)[1]) \o ")"
Fail(m, why, sig) == [ok |-> FALSE, m |-> [m EXCEPT !.dead = TRUE], why |-> why, sig |-> sig]
Pass(m) == [ok |-> TRUE, m |-> m, why |-> "", sig |-> ""]
SameBytes(e, enc) == <<e.len, e.h1, e.h2>> = enc

\* ---- one monitor step ------------------------------------------------------------------------------
MonStep(m, e) ==
    IF e.e = "Reset" THEN
        Pass([MsInit EXCEPT !.prop = e.prop, !.sch = e.sch, !.mt = e.mt, !.want = e.want,
                            !.neg = SeqToSet(e.neg), !.late = SeqToSet(e.late), !.big = SeqToSet(e.big),
                            !.hint = e.hint, !.dead = FALSE])
    ELSE IF m.dead THEN Pass(m)
    ELSE IF e.e = "Built" THEN
        IF ~e.ok /\ m.prop = "C01"
        THEN Fail(m, "the library refused to build a message the schema defines", "build_rejected:" \o ToString(e.bad))
        ELSE IF ~e.ok THEN Pass([m EXCEPT !.dead = TRUE])
        ELSE Pass([m EXCEPT !.built = e.tree])
    ELSE IF e.e = "Encode" THEN
        IF ~e.ok THEN (IF m.prop = "C01" THEN Fail(m, "encode threw on a message the schema defines", "encode_exception")
                       ELSE Pass([m EXCEPT !.dead = TRUE]))
        ELSE LET m2 == [m EXCEPT !.enc = <<e.len, e.h1, e.h2>>, !.haveEnc = TRUE] IN
             IF m.prop = "C02" THEN
                 LET w == WellFormed(SchemaAll[m.sch], m.mt, e.toks) IN
                 IF w.why = "" THEN Pass(m2) ELSE Fail(m2, "encoded bytes not well-formed: " \o w.why, "wire:" \o w.why \o ":" \o ToString(w.tag))
             ELSE Pass(m2)
    ELSE IF e.e = "Decode" /\ m.prop = "C01" THEN
        IF ~e.ok THEN Fail(m, "decoding the encoded bytes failed",
                           "decode_exception:" \o e.excid \o ":" \o (IF m.hint # "" THEN m.hint ELSE DiffSig(m, m.built, m.want)))
        ELSE IF SameMsg(e.tree, m.want) THEN Pass(m)
        ELSE Fail(m, "decoded message differs from the message that was built" \o DiffTag(e.tree, m.want),
                  "roundtrip:" \o (IF SameMsg(m.built, m.want) THEN "decode:" ELSE "build:") \o DiffSig(m, e.tree, m.want))
    ELSE IF e.e = "Reencode" /\ m.prop = "C01" THEN
        IF e.ok /\ m.haveEnc /\ SameBytes(e, m.enc) THEN Pass(m)
        ELSE Fail(m, "re-encoding the decoded message is not byte-identical", "reencode_differs")
    ELSE IF e.e = "Clone" /\ m.prop = "C11" THEN
        IF e.ok /\ m.haveEnc /\ SameBytes(e, m.enc) THEN Pass(m)
        ELSE Fail(m, "clone does not encode to the bytes of the original",
                  "clone_encoding_differs:" \o
                  (IF ~e.ok THEN "exception"
                   ELSE IF SameMsg(e.tree, m.built) THEN "same_fields_other_order" \o (IF m.hint # "" THEN ":" \o m.hint ELSE "")
                   ELSE DiffSig(m, e.tree, m.built)))
    ELSE IF e.e = "CopyLegal" /\ m.prop = "C11" THEN
        IF e.ok /\ SameMsg(e.tree, m.built) THEN Pass(m)
        ELSE Fail(m, "copy_legal target differs from the source" \o (IF e.ok THEN DiffTag(e.tree, m.built) ELSE ""),
                  "copy_target_differs:" \o (IF e.ok THEN DiffSig(m, e.tree, m.built) ELSE "exception"))
    ELSE IF e.e = "MoveLegal" /\ m.prop = "C11" THEN
        IF e.ok /\ SameMsg(e.tree, m.built) THEN Pass(m)
        ELSE Fail(m, "move_legal target differs from the original source" \o (IF e.ok THEN DiffTag(e.tree, m.built) ELSE ""),
                  "move_target_differs:" \o (IF e.ok THEN DiffSig(m, e.tree, m.built) ELSE "exception"))
    \* the same three with a message the factory decoded as the source (judged against the message that was asked for: a
    \* decoded message carries the derived fields with their wire values)
    ELSE IF e.e = "Decode" /\ m.prop = "C11" /\ ~e.ok THEN Pass([m EXCEPT !.dead = TRUE])      \* nothing to clone: C01's subject
    ELSE IF e.e = "CloneDec" /\ m.prop = "C11" THEN
        IF e.ok /\ m.haveEnc /\ SameBytes(e, m.enc) THEN Pass(m)
        ELSE Fail(m, "clone of the decoded message does not encode to the bytes of the original",
                  "clone_of_decoded_differs:" \o (IF ~e.ok THEN "exception" ELSE DiffSig(m, e.tree, m.want)))
    ELSE IF e.e = "CopyLegalDec" /\ m.prop = "C11" THEN
        IF e.ok /\ SameMsg(e.tree, m.want) THEN Pass(m)
        ELSE Fail(m, "copy_legal from the decoded message: target differs from the source",
                  "copy_from_decoded_differs:" \o (IF e.ok THEN DiffSig(m, e.tree, m.want) ELSE "exception"))
    ELSE IF e.e = "MoveLegalDec" /\ m.prop = "C11" THEN
        IF e.ok /\ SameMsg(e.tree, m.want) THEN Pass(m)
        ELSE Fail(m, "move_legal from the decoded message: target differs from the source",
                  "move_from_decoded_differs:" \o (IF e.ok THEN DiffSig(m, e.tree, m.want) ELSE "exception"))
    ELSE Pass(m)

Init == l = 1 /\ ms = MsInit /\ fails = <<>> /\ nexec = 0
Next ==
    \/ /\ l <= NLines
       /\ LET r == MonStep(ms, Ev) IN
          /\ ms' = r.m
          /\ fails' = IF r.ok THEN fails
                      ELSE Append(fails, [line |-> l, exec |-> nexec, why |-> r.why, sig |-> r.sig])
       /\ nexec' = IF Ev.e = "Reset" THEN nexec + 1 ELSE nexec
       /\ l' = l + 1
    \/ /\ l = NLines + 1
       /\ WriteVerdict(l - 1, fails, nexec)
       /\ l' = l + 1
       /\ UNCHANGED <<ms, fails, nexec>>
=============================================================================
