CONSTANTS
  NP = 2
  NLines = 2
  Dev = {}
  Lvls = {TRUE, FALSE}
  TwoPhase = FALSE
  Grain = "stmt"
SPECIFICATION Spec
INVARIANT InvExactlyOnce
INVARIANT InvDisabledAbsent
INVARIANT InvProducerOrder
INVARIANT InvSeqConsecutive
INVARIANT InvRetIffAccepted
INVARIANT InvStopComplete
PROPERTY StopReturns
CHECK_DEADLOCK FALSE
