CONSTANTS
 Dev = {"epoch_int_overflow"}
 Family = "walk"
INIT Init
NEXT Next
CHECK_DEADLOCK FALSE
INVARIANTS EpochCorrect
