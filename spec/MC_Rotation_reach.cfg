CONSTANTS
  MaxRot = 3
  Counts = {0,1,2,3,4,5}
  Gens = {0,1,2,3,4,5}
  Fams = {"log"}
  Dev = {}
SPECIFICATION Spec
INVARIANT IndexInBounds
INVARIANT ShiftOK
INVARIANT NoInventionOK
INVARIANT CapOK
INVARIANT UntouchedOK
INVARIANT ZeroMeansNone
INVARIANT SameAsFunction
INVARIANT Reach_ShiftIntoCap
CHECK_DEADLOCK FALSE
