------------------------------- MODULE Common -------------------------------
(* Shared plumbing for trace validation (DESIGN.md section 3).                                     *)
(* A trace is an ndjson file (env TRACE); every line is one event record with a field "e".          *)
(* Monitors are deterministic step functions, so TLC walks one state per trace line and never      *)
(* deadlocks: a line on which the monitor's relation fails is *recorded* (line, execution, clause, *)
(* signature) and the monitor resynchronises at the next "Reset" line.  The verdict is written     *)
(* to env OUT by the Finish step; the driver treats a missing verdict file or consumed /= Len      *)
(* as an infrastructure failure, never as "no violation".                                          *)
EXTENDS Naturals, Integers, Sequences, FiniteSets, TLC, Json, IOUtils

TraceLog == ndJsonDeserialize(IOEnv.TRACE)
NLines == Len(TraceLog)

Has(r, f) == f \in DOMAIN r
Get(r, f, d) == IF f \in DOMAIN r THEN r[f] ELSE d

Min2(a, b) == IF a < b THEN a ELSE b
Max2(a, b) == IF a > b THEN a ELSE b

RECURSIVE SeqSum(_)
SeqSum(s) == IF s = <<>> THEN 0 ELSE Head(s) + SeqSum(Tail(s))

SeqToSet(s) == { s[i] : i \in DOMAIN s }

IsSortedAsc(s) == \A i \in 1..(Len(s) - 1) : s[i] < s[i + 1]

WriteVerdict(consumed, fails, execs) ==
    JsonSerialize(IOEnv.OUT, [consumed |-> consumed, lines |-> NLines, execs |-> execs, fails |-> fails,
                              labels |-> <<>>])

\* labels: a bag (function name -> count) of design-conformance labels seen; informational only
BagToSeq(b) == LET RECURSIVE F(_)
                   F(S) == IF S = {} THEN <<>> ELSE LET k == CHOOSE x \in S : TRUE
                                                   IN <<[k |-> k, n |-> b[k]]>> \o F(S \ {k})
               IN F(DOMAIN b)
WriteVerdictL(consumed, fails, execs, labels) ==
    JsonSerialize(IOEnv.OUT, [consumed |-> consumed, lines |-> NLines, execs |-> execs, fails |-> fails,
                              labels |-> BagToSeq(labels)])
=============================================================================
