-------------------------------- MODULE Pair --------------------------------
(* Two sessions built on the library (an initiator "a" and an acceptor "b") with file persistence  *)
(* and sequence recovery, joined by a network the environment controls (property C21).             *)
(* Each endpoint has the send side of Session.tla (numbering, store, replay on ResendRequest) and   *)
(* the receive side of Recovery.tla (deliver in sequence, ResendRequest on a gap, PossDup           *)
(* re-delivery, GapFill).  Environment actions, exported as replay scripts:                         *)
(*   Send(x)       application on x sends a message (only on an established session: connected and   *)
(*                 this side has processed the peer's Logon since the last connect)                  *)
(*   Deliver(x)    the head of the queue towards x is processed by x (may answer)                   *)
(*   Drop          the connection breaks: everything in flight in both directions is lost           *)
(*   Reconnect     new connection: Logon / Logon exchange numbered with each side's next number     *)
(*   Restart(x)    process restart of x while disconnected: volatile state lost, files kept         *)
(* Dev: "incr_always", "logon_gap_throws" as in Recovery.tla; "restart_forgets" (numbers are not    *)
(* recovered after a restart) is used as the vacuity guard for the restart clauses.                 *)
EXTENDS Naturals, Integers, Sequences, FiniteSets, TLC, Json

CONSTANTS Dev, MaxSteps, MaxSend, MaxDrops, MaxRestarts

VARIABLES ep,      \* [a |-> endpoint, b |-> endpoint]
          net,     \* [a |-> queue towards a, b |-> queue towards b]
          up, hist, ndrop, nrst

vars == <<ep, net, up, hist, ndrop, nrst>>
Other(x) == IF x = "a" THEN "b" ELSE "a"

\* endpoint: ns, nr, store (seq -> id, application messages only), sentlog (kind per number),
\* deliv (sequence of [id, dup]), st, rr (begin of outstanding request or 0), nsent (applications sent)
EP0 == [ns |-> 1, nr |-> 1, store |-> [q \in {} |-> 0], kinds |-> <<>>, deliv |-> <<>>, st |-> "cont", rr |-> 0, nsent |-> 0,
        est |-> TRUE]     \* logon exchange completed on this side (applications send only on an established session)
M(seq, kind, id, dup, arg) == [seq |-> seq, kind |-> kind, id |-> id, dup |-> dup, arg |-> arg]

Bump(e) == IF "incr_always" \in Dev THEN [e EXCEPT !.nr = e.nr + 1] ELSE e

\* emit one new message of `kind` from endpoint e: returns [e, m]
Emit(e, kind, id, arg) ==
    [e |-> [e EXCEPT !.ns = e.ns + 1, !.kinds = Append(e.kinds, kind),
                     !.store = IF kind = "app" THEN (e.ns :> id) @@ e.store ELSE e.store],
     m |-> M(e.ns, kind, id, FALSE, arg)]

\* replay of [b, ns-1] from the store: applications as PossDup copies, everything else gap-filled
RECURSIVE Replay(_, _, _)
Replay(e, q, acc) ==
    IF q >= e.ns THEN acc
    ELSE IF q \in DOMAIN e.store THEN Replay(e, q + 1, Append(acc, M(q, "app", e.store[q], TRUE, 0)))
    ELSE LET last == IF acc # <<>> THEN acc[Len(acc)] ELSE M(0, "none", 0, FALSE, 0) IN
         IF last.kind = "gap" /\ last.arg = q THEN Replay(e, q + 1, [acc EXCEPT ![Len(acc)].arg = q + 1])
         ELSE Replay(e, q + 1, Append(acc, M(q, "gap", 0, TRUE, q + 1)))

\* endpoint e processes inbound m: returns [e, out] (out = messages to send back)
Rx(e, m) ==
    IF e.st = "dead" THEN [e |-> e, out |-> <<>>]
    ELSE IF m.kind = "gap" THEN
         [e |-> IF m.arg >= e.nr THEN [e EXCEPT !.nr = m.arg, !.st = "cont", !.rr = 0] ELSE e, out |-> <<>>]
    ELSE IF m.seq = e.nr THEN
         LET e1 == [e EXCEPT !.nr = e.nr + 1,
                             !.deliv = IF m.kind = "app" THEN Append(e.deliv, [id |-> m.id, dup |-> m.dup]) ELSE e.deliv,
                             !.st = "cont", !.rr = 0]
         IN IF m.kind = "rr" THEN
                 \* answer: replay, then a final gap fill up to ns is unnecessary here (ns - 1 is the last number)
                 [e |-> e1, out |-> Replay(e1, m.arg, <<>>)]
            ELSE [e |-> e1, out |-> <<>>]
    ELSE IF m.seq > e.nr THEN
         IF m.kind = "logon" /\ "logon_gap_throws" \in Dev THEN [e |-> [e EXCEPT !.st = "dead"], out |-> <<>>]
         ELSE IF e.st = "cont" THEN
              LET r == Emit(e, "rr", 0, e.nr)
              IN [e |-> Bump([r.e EXCEPT !.st = "rr", !.rr = e.nr]), out |-> <<r.m>>]
         ELSE [e |-> Bump(e), out |-> <<>>]
    ELSE IF m.dup THEN
         [e |-> Bump([e EXCEPT !.deliv = IF m.kind = "app" THEN Append(e.deliv, [id |-> m.id, dup |-> TRUE]) ELSE e.deliv]),
          out |-> <<>>]
    ELSE [e |-> [e EXCEPT !.st = "dead"], out |-> <<>>]

Step(inp) == Len(hist) < MaxSteps /\ hist' = Append(hist, inp)

Send(x) ==
    /\ up /\ ep[x].est /\ ep[x].st # "dead" /\ ep[x].nsent < MaxSend /\ Step([op |-> "Send", x |-> x])
    /\ LET id == (IF x = "a" THEN 100 ELSE 200) + ep[x].nsent + 1
           r == Emit([ep[x] EXCEPT !.nsent = @ + 1], "app", id, 0)
       IN /\ ep' = [ep EXCEPT ![x] = r.e]
          /\ net' = [net EXCEPT ![Other(x)] = Append(@, r.m)]
    /\ UNCHANGED <<up, ndrop, nrst>>

Deliver(x) ==
    /\ up /\ net[x] # <<>> /\ Step([op |-> "Deliver", x |-> x])
    /\ LET r == Rx(ep[x], Head(net[x]))
           e2 == IF Head(net[x]).kind = "logon" /\ r.e.st # "dead" THEN [r.e EXCEPT !.est = TRUE] ELSE r.e
       IN /\ ep' = [ep EXCEPT ![x] = e2]
          /\ net' = [net EXCEPT ![x] = Tail(@), ![Other(x)] = @ \o r.out]
    /\ UNCHANGED <<up, ndrop, nrst>>

Drop == /\ up /\ ndrop < MaxDrops /\ Step([op |-> "Drop"])
        /\ up' = FALSE /\ ndrop' = ndrop + 1 /\ net' = [a |-> <<>>, b |-> <<>>]
        /\ ep' = [x \in {"a", "b"} |-> IF ep[x].st = "dead" THEN ep[x] ELSE [ep[x] EXCEPT !.st = "cont", !.rr = 0, !.est = FALSE]]
        /\ UNCHANGED nrst

Reconnect ==
    /\ ~up /\ ep.a.st # "dead" /\ ep.b.st # "dead" /\ Step([op |-> "Reconnect"])
    /\ LET ra == Emit(ep.a, "logon", 0, 0) IN
       /\ ep' = [ep EXCEPT !.a = ra.e]
       /\ net' = [a |-> <<>>, b |-> <<ra.m>>]
    /\ up' = TRUE /\ UNCHANGED <<ndrop, nrst>>
\* Deliver of a logon at the acceptor also queues the acceptor's own Logon
DeliverLogon ==
    /\ up /\ net.b # <<>> /\ Head(net.b).kind = "logon" /\ Step([op |-> "Deliver", x |-> "b"])
    /\ LET r == Rx(ep.b, Head(net.b))
           l == Emit(r.e, "logon", 0, 0)
       IN IF r.e.st = "dead" THEN /\ ep' = [ep EXCEPT !.b = r.e] /\ net' = [net EXCEPT !.b = Tail(@)]
          ELSE /\ ep' = [ep EXCEPT !.b = [l.e EXCEPT !.est = TRUE]]
               /\ net' = [net EXCEPT !.b = Tail(@), !.a = @ \o r.out \o <<l.m>>]      \* enforce() first, then the Logon reply
    /\ UNCHANGED <<up, ndrop, nrst>>

Restart(x) ==
    /\ ~up /\ nrst.a + nrst.b < MaxRestarts /\ ep[x].st # "dead" /\ Step([op |-> "Restart", x |-> x])
    /\ nrst' = [nrst EXCEPT ![x] = @ + 1]              \* per side: which process restarted matters to an implementation
    /\ ep' = IF "restart_forgets" \in Dev THEN [ep EXCEPT ![x].ns = 1, ![x].nr = 1] ELSE ep   \* recovered from the control record
    /\ UNCHANGED <<net, up, ndrop>>

Init == /\ ep = [a |-> [EP0 EXCEPT !.ns = 2, !.nr = 2, !.kinds = <<"logon">>],
                 b |-> [EP0 EXCEPT !.ns = 2, !.nr = 2, !.kinds = <<"logon">>]]      \* after the first logon exchange
        /\ net = [a |-> <<>>, b |-> <<>>] /\ up = TRUE /\ hist = <<>> /\ ndrop = 0 /\ nrst = [a |-> 0, b |-> 0]

Next == \/ \E x \in {"a", "b"} : Send(x) \/ Restart(x)
        \/ (net.b # <<>> /\ Head(net.b).kind = "logon" /\ DeliverLogon)
        \/ \E x \in {"a", "b"} : (~(x = "b" /\ net.b # <<>> /\ Head(net.b).kind = "logon") /\ Deliver(x))
        \/ Drop \/ Reconnect
Spec == Init /\ [][Next]_vars

\* ---- C21 -----------------------------------------------------------------------------------------------
NoTermination == ep.a.st # "dead" /\ ep.b.st # "dead"
Quiescent == up /\ net.a = <<>> /\ net.b = <<>> /\ ep.a.rr = 0 /\ ep.b.rr = 0
SentBy(x) == {ep[x].store[q] : q \in DOMAIN ep[x].store}
DelivAt(x) == {ep[x].deliv[i].id : i \in DOMAIN ep[x].deliv}
AllDelivered == Quiescent /\ ep.a.nr >= ep.b.ns /\ ep.b.nr >= ep.a.ns
                   => (SentBy("a") \subseteq DelivAt("b") /\ SentBy("b") \subseteq DelivAt("a"))
FirstIdx(d, id) == CHOOSE i \in DOMAIN d : d[i].id = id /\ \A j \in 1..(i - 1) : d[j].id # id
FirstInOrder == \A x \in {"a", "b"} : LET d == ep[x].deliv IN
                   \A i, j \in DOMAIN d : (i < j /\ d[i].id > d[j].id /\ FirstIdx(d, d[j].id) = j) => FirstIdx(d, d[i].id) # i
RedeliveriesFlagged == \A x \in {"a", "b"} : LET d == ep[x].deliv IN
                   \A j \in DOMAIN d : (\E i \in 1..(j - 1) : d[i].id = d[j].id) => d[j].dup
NoSilentGap == (Quiescent /\ ep.a.st = "cont" /\ ep.b.st = "cont") => (ep.a.nr >= ep.b.ns /\ ep.b.nr >= ep.a.ns)

Edge == PrintT("LEAF " \o ToJson(hist))
StateView == <<ep, net, up, ndrop, nrst>>
=============================================================================
