CONSTANTS
  Dev = {"no_testreq_while_resend_outstanding"}
  H = 5
  MaxSteps = 7
  MaxNow = 25
SPECIFICATION Spec
INVARIANT MonitorAccepts
INVARIANT NoEarlyLogout
VIEW StateView
CHECK_DEADLOCK FALSE
