CONSTANTS
 Dev = {}
 Family = "dyadic"
 KStep = 1
 WTop = {2147483647}
 ExportStep = 16
INIT Init
NEXT Next
CHECK_DEADLOCK FALSE
INVARIANTS DtoaCorrect MeaningSane
CONSTRAINT Export
