------------------------------ MODULE T_Chksum ------------------------------
(* Trace monitor for C07.  One line = one call of the real Message::calc_chksum:                    *)
(*   Chk{mode, src, off, n, ret, abort, san}                                                        *)
(* src is the buffer handed to the call (literal bytes, or a named pattern the spec can regenerate), *)
(* off / n the offset and length arguments (n = -1: no length given), ret the value returned.       *)
(* abort = the call did not return because AddressSanitizer / UBSan stopped the process; in mode    *)
(* "tight" every byte outside [off, off+n) is poisoned, in mode "plain" the buffer is allocated at  *)
(* exactly its size, so an abort *is* a read outside the permitted range (DESIGN.md section 7: the  *)
(* sanitizer is the observer of the "reads no byte outside" clause).                                *)
(* The monitor recomputes ByteSum(src, off, n) mod 256 and compares.  Calls outside the function's   *)
(* domain (range not inside the buffer) are not judged.                                              *)
EXTENDS Common, Chksum

VARIABLES l, fails, nexec, labels

Ev == TraceLog[l]

SrcOf(e) == IF e.src.kind = "lit" THEN Lit(e.src.bytes) ELSE Pat(e.src.pat, e.src.seed, e.src.sz)

\* the input class of a call: what a finding may be tied to
Class(e) == IF e.n = -1 /\ e.off > 0 THEN "remainder_after_offset"
            ELSE IF e.n = -1 THEN "whole_buffer" ELSE "explicit_length"

MonStep(e) ==
    IF e.e # "Chk" THEN [ok |-> TRUE, why |-> "", sig |-> ""]
    ELSE LET s == SrcOf(e) IN
    IF ~InDomain(s, e.off, e.n) THEN [ok |-> TRUE, why |-> "", sig |-> ""]
    ELSE IF e.abort THEN [ok |-> FALSE, why |-> "read outside the permitted range (" \o e.san \o ")",
                          sig |-> "chk:" \o Class(e) \o ":memory_error"]
    ELSE [ok |-> e.ret = Expected(s, e.off, e.n),
          why |-> "returned value is not the byte sum mod 256",
          sig |-> "chk:" \o Class(e) \o ":wrong_sum"]

\* design conformance (never a verdict): does the real result equal the transcription's?
Label(e) == IF e.e = "Chk" /\ ~e.abort /\ e.src.sz <= 24 /\ InDomain(SrcOf(e), e.off, e.n)
            THEN (IF Run({}, SrcOf(e), e.off, e.n).result = e.ret THEN "as_transcription"
                  ELSE "differs_from_transcription")
            ELSE ""
Bump(b, k) == IF k = "" THEN b ELSE IF k \in DOMAIN b THEN [b EXCEPT ![k] = @ + 1] ELSE (k :> 1) @@ b

Init == l = 1 /\ fails = <<>> /\ nexec = 0 /\ labels = <<>>
Next ==
    \/ /\ l <= NLines
       /\ LET r == MonStep(Ev) IN
          fails' = IF r.ok THEN fails
                   ELSE Append(fails, [line |-> l, exec |-> nexec, why |-> r.why, sig |-> r.sig])
       /\ nexec' = IF Ev.e = "Reset" THEN nexec + 1 ELSE nexec
       /\ labels' = Bump(labels, Label(Ev))
       /\ l' = l + 1
    \/ /\ l = NLines + 1
       /\ WriteVerdictL(l - 1, fails, nexec, labels)
       /\ l' = l + 1
       /\ UNCHANGED <<fails, nexec, labels>>
=============================================================================
