CONSTANTS
  Dev = {}
  H = 10
  MaxSteps = 5
  MaxNow = 50
SPECIFICATION Spec
INVARIANT MonitorAccepts
INVARIANT NoEarlyLogout
CONSTRAINT Edge
VIEW StateView
CHECK_DEADLOCK FALSE
