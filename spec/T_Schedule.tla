---------------------------- MODULE T_Schedule ----------------------------
(* Trace monitor for C24.  Events (harness/src/probe_sched.cpp, lib/props/c24.py):                     *)
(*   Reset{kind:"sched", start, end, off, sd, ed}   the configuration as the driver wrote it: start/end *)
(*        seconds into the day, off = utc offset in minutes, sd/ed weekday 0..6 or -1/-1 (daily)        *)
(*   Seg{day, sec, step, n, prev, ret}              n consecutive calls of the real Schedule::test at   *)
(*        the UTC instants (epoch day `day`, second `sec`) + i*step seconds, i = 0..n-1, which all       *)
(*        returned `ret`; the first was called with `prev`, the others with the previous result, as     *)
(*        Session::activation_service chains them                                                       *)
(*   Reset{kind:"dow"}  Dow{cs, ret}                decode_dow on the string with character codes cs     *)
(* The verdict clause: at *every* instant i of a segment, ret = Active(configuration, local instant).   *)
(* Weekday strings: ret = DecodeDow(cs); where the deciding one/two-letter prefix is followed by        *)
(* characters that are not the rest of the day's name, the day or -1 are both accepted (the statement   *)
(* leaves that open; nothing else is accepted).                                                         *)
(* The design toggle Test(.., CodeDev) is evaluated only to *name* a rejection (known deviation of the  *)
(* current code or unexplained), never to accept one.                                                   *)
EXTENDS Common, Schedule

VARIABLES l, cfg, fails, nexec

Ev == TraceLog[l]
DAY == 86400
\* off is kept in minutes as configured (utc_offset_mins); it is only read by LocalOf
NoCfg == [start |-> 0, end |-> 0, off |-> 0, sd |-> -1, ed |-> -1]

\* local instant (seconds since a Sunday 00:00 local time) of check i of a segment.  1970-01-01 was a
\* Thursday.  14 days are added so that negative offsets stay non-negative; only day-of-week and
\* time-of-day are ever read from it.
LocalOf(e, c, i) == ((e.day + 4) % 7) * DAY + e.sec + c.off * 60 + 14 * DAY + i * e.step
PrevAt(e, i) == IF i = 0 THEN e.prev ELSE e.ret

DayClass(c) == IF IsDaily(c) THEN "daily" ELSE IF c.sd = c.ed THEN "weekly_equal_days"
               ELSE IF c.sd < c.ed THEN "weekly" ELSE "weekly_wrap"

MinOfSet(S) == CHOOSE x \in S : \A y \in S : x <= y

\* Naming a rejection.  A rejected instant is *explained* if one of the known toggles (Schedule!KnownToggles:
\* the current code, with or without the staged one-token repairs) gives the observed result.  To name the
\* deviation, the toggles that explain every rejected instant of the segment *and* the way the segment ends
\* (the first call of the next segment, nx) are collected; a deviation is named only if all of them contain
\* it, so that e.g. "never deactivates on equal days" is not blamed for a segment that did end.
NextOk(S, e, c, nx) == nx.e = "Seg" => Test(DAY, c, e.ret, LocalOf(nx, c, 0), S) = nx.ret
NameOf(e, c, nx, bad, i0) ==
    LET fits == {S \in KnownToggles : NextOk(S, e, c, nx) /\
                                      \A i \in bad : Test(DAY, c, PrevAt(e, i), LocalOf(e, c, i), S) = e.ret}
        cands == IF fits = {} THEN KnownToggles ELSE fits
        must == {d \in CodeDev : \A S \in cands : d \in S}
        order == <<"weekly_equal_days_never", "weekly_wrap_ends_day_late", "weekly_initially_active",
                   "weekly_needs_daily_window_to_start">>
        hits == {k \in DOMAIN order : order[k] \in must /\
                                      Test(DAY, c, PrevAt(e, i0), LocalOf(e, c, i0), {order[k]}) = e.ret}
    IN IF hits = {} THEN Explains(DAY, c, PrevAt(e, i0), LocalOf(e, c, i0), e.ret)
       ELSE order[MinOfSet(hits)]

BadSet(e, c) ==
    LET base == LocalOf(e, c, 0)  st == e.step  r == e.ret
        ws == WinStart(DAY, c)  wl == WinLen(DAY, c)  lo == c.start  hi == c.end
    IN  \* = {i : Active(DAY, c, LocalOf(e, c, i)) # e.ret}, with the per-segment constants hoisted
        IF IsDaily(c) THEN {i \in 0..(e.n - 1) : (lo <= (base + i * st) % DAY /\ (base + i * st) % DAY <= hi) # r}
        ELSE {i \in 0..(e.n - 1) : ActiveW(DAY, ws, wl, base + i * st) # r}

SegStep(e, c, nx) ==
    LET bad == BadSet(e, c) IN
    IF bad = {} THEN [ok |-> TRUE, why |-> "", sig |-> ""]
    ELSE LET un == {i \in bad : ~Explained(DAY, c, PrevAt(e, i), LocalOf(e, c, i), e.ret)}
             i0 == IF un # {} THEN MinOfSet(un) ELSE MinOfSet(bad)
             name == IF un # {} THEN "" ELSE NameOf(e, c, nx, bad, i0)
             what == IF e.ret THEN "active_outside_window" ELSE "inactive_inside_window"
             lt == LocalOf(e, c, i0)
         IN [ok |-> FALSE,
             why |-> what \o " at check " \o ToString(i0) \o " of the segment: local weekday " \o ToString(DowOf(DAY, lt))
                     \o " second " \o ToString(TodOf(DAY, lt)) \o " prev " \o ToString(PrevAt(e, i0))
                     \o " (" \o ToString(Cardinality(bad)) \o " instants of the segment disagree)",
             sig |-> DayClass(c) \o ":" \o (IF name = "" THEN "unexplained:" \o what ELSE name)]

DowStep(e) ==
    LET want == DecodeDow(e.cs)
        open == want >= 0 /\ ~(Len(e.cs) = 1 /\ e.cs[1] >= 48 /\ e.cs[1] <= 54) /\ ~IsNamePrefix(e.cs, want)
        ok == e.ret = want \/ (open /\ e.ret = -1)
        shape == IF Len(e.cs) = 0 THEN "empty"
                 ELSE IF \A i \in DOMAIN e.cs : e.cs[i] >= 48 /\ e.cs[i] <= 57 THEN "digits"
                 ELSE IF want >= 0 THEN "day_prefix" ELSE "no_unique_prefix"
    IN [ok |-> ok,
        why |-> "decode_dow returned " \o ToString(e.ret) \o ", the statement requires " \o ToString(want),
        sig |-> "dow:" \o shape \o ":" \o (IF e.ret = -1 THEN "rejected" ELSE IF want = -1 THEN "accepted" ELSE "wrong_day")]

MonStep(e, c) ==
    IF e.e = "Seg" THEN SegStep(e, c, IF l < NLines THEN TraceLog[l + 1] ELSE [e |-> "End"])
    ELSE IF e.e = "Dow" THEN DowStep(e)
    ELSE [ok |-> TRUE, why |-> "", sig |-> ""]

Init == l = 1 /\ cfg = NoCfg /\ fails = <<>> /\ nexec = 0
Next ==
    \/ /\ l <= NLines
       /\ \E r \in {MonStep(Ev, cfg)} :       \* (bound, not LET: evaluated once)
          fails' = IF r.ok THEN fails ELSE Append(fails, [line |-> l, exec |-> nexec, why |-> r.why, sig |-> r.sig])
       /\ cfg' = IF Ev.e = "Reset" /\ Ev.kind = "sched"
                 THEN [start |-> Ev.start, end |-> Ev.end, off |-> Ev.off, sd |-> Ev.sd, ed |-> Ev.ed] ELSE cfg
       /\ nexec' = IF Ev.e = "Reset" THEN nexec + 1 ELSE nexec
       /\ l' = l + 1
    \/ /\ l = NLines + 1
       /\ WriteVerdict(l - 1, fails, nexec)
       /\ l' = l + 1
       /\ UNCHANGED <<cfg, fails, nexec>>
=============================================================================
