CONSTANTS
  MaxEv = 3
  Delays = {1, 2, 5}
  Steps = {1, 3}
  MaxNow = 6
  MaxRuns = 2
  MaxClr = 1
  Dev = {}
  Slows = {0}
  Export = FALSE
INIT Init
NEXT Next
INVARIANT NoEarlyFire
INVARIANT DueOrder
INVARIANT RepeatSpacing
INVARIANT ClearSilences
CHECK_DEADLOCK FALSE
