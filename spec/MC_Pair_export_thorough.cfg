CONSTANTS
  Dev = {}
  MaxSteps = 11
  MaxSend = 2
  MaxDrops = 1
  MaxRestarts = 1
SPECIFICATION Spec
INVARIANT NoTermination
INVARIANT AllDelivered
INVARIANT FirstInOrder
INVARIANT RedeliveriesFlagged
INVARIANT NoSilentGap
CONSTRAINT Edge
VIEW StateView
CHECK_DEADLOCK FALSE
