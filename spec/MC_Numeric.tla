----------------------------- MODULE MC_Numeric -----------------------------
(* Model checking of the numeric transcriptions (Numeric.tla) over bounded input families.          *)
(*   Family "int":    boundary integers (0, +-1, +-(10^k +- 1), +-(2^k +- 1), INT_MIN, INT_MAX), the  *)
(*                    dense range -1100..1100 and a spread of 3300 values over the whole int32 range; *)
(*                    one step per itoa loop iteration, then the parse of the produced characters.   *)
(*   Family "dyadic": x = +-(w + k/4096) for every k in 0..4095 (step KStep), w around 0, 10^k,       *)
(*                    INT_MAX, every precision 0..9.  For these the floating point product in        *)
(*                    modp_dtoa is exact, so the transcription is the code.                          *)
EXTENDS Numeric, Json

CONSTANTS Dev, Family, KStep, WTop, ExportStep

VARIABLE st

RECURSIVE Pow2(_)
Pow2(k) == IF k = 0 THEN 1 ELSE 2 * Pow2(k - 1)
PosBoundary == UNION { {Ten(k) - 1, Ten(k), Ten(k) + 1} : k \in 0..9 }
                 \cup UNION { {Pow2(k) - 1, Pow2(k), Pow2(k) + 1} : k \in 0..30 }
                 \cup {MaxInt32 - 1, MaxInt32}
Spread == { i * 1299709 : i \in 1..1650 }
IntFamily == LET pos == PosBoundary \cup Spread \cup 0..1100
             IN pos \cup { -n : n \in pos } \cup {MinInt32, MinInt32 + 1}

Ws == {0, 1, 9, 10, 99, 999999999, 1000000000, 2147483646} \cup WTop

Init ==
    CASE Family = "int" -> \E n \in IntFamily : st = [kind |-> "int", n |-> n, it |-> ItoaBegin(n), parsed |-> 0, pc |-> "itoa"]
      [] Family = "dyadic" ->
           \E w \in Ws : \E k \in {i * KStep : i \in 0..((4095) \div KStep)} : \E p \in 0..9 : \E neg \in BOOLEAN :
               st = [kind |-> "dy", x |-> [neg |-> neg, w |-> w, limbs |-> IF k = 0 THEN <<>> ELSE <<k>>], k |-> k, p |-> p,
                     text |-> ModpDtoa(Dev, [neg |-> neg, w |-> w, limbs |-> IF k = 0 THEN <<>> ELSE <<k>>], p), pc |-> "done"]

Next ==
    CASE st.kind = "int" /\ st.pc = "itoa" ->
           IF st.it.pc # "done" THEN st' = [st EXCEPT !.it = ItoaStep(st.it)]
           ELSE st' = [st EXCEPT !.parsed = Atoi(Dev, st.it.out), !.pc = "done"]
      [] OTHER -> UNCHANGED st

\* every 32-bit integer is rendered as its canonical decimal text ...
ItoaCanonical == (st.kind = "int" /\ st.pc = "done") => JoinChars(st.it.out) = Canon(st.n)
\* ... and that text parses back to the same integer
AtoiInverse == (st.kind = "int" /\ st.pc = "done") => st.parsed = st.n
\* the rendered text is the correctly rounded decimal with at most p fraction digits
DtoaCorrect == st.kind = "dy" => AcceptText(st.x, st.p, st.text)
\* sanity of the meaning itself: the accepted texts of one input are never empty, and one of the two
\* neighbours is always accepted
MeaningSane == st.kind = "dy" => \E dec \in Rounded(st.x, st.p) : TextsOf(st.x.neg, dec) # {}
\* vacuity guard (must be violated): some tie is reached, some rollover into the whole part happens
NoTieSeen == ~(st.kind = "dy" /\ st.p > 0 /\ CmpHalf(DecExpand(st.x.limbs, st.p).rest) = "eq")
NoRollover == ~(st.kind = "dy" /\ st.p > 0 /\ Up(st.x, st.p).w # NatDigits(st.x.w)
                /\ CmpHalf(DecExpand(st.x.limbs, st.p).rest) = "gt")

Export ==
    /\ (st.kind = "int" /\ st.pc = "itoa" /\ st.it.pc = "digits" /\ st.it.out = <<>>) =>
           PrintT("LEAF " \o ToJson([kind |-> "int", hi |-> st.n \div 65536, lo |-> st.n % 65536]))
    /\ (st.kind = "dy" /\ (st.k % ExportStep = 0 \/ st.k \in {1, 4095, 2047, 2049})) =>
           PrintT("LEAF " \o ToJson([kind |-> "dy", neg |-> st.x.neg, w |-> st.x.w, limbs |-> st.x.limbs, p |-> st.p]))
=============================================================================
