----------------------------- MODULE MC_XmlSM -----------------------------
(* The parser design (Xml.tla) explored as a state machine over input characters.                      *)
(* A state is the parser configuration after the input so far.  Where the code peeks at the next       *)
(* character ('/' in a tag, '<' in a value) the step commits to what that next character is            *)
(* (`must`: a particular character, or -1 = end of input, or -2 = no commitment).                      *)
(* With VIEW hiding the input, TLC visits every abstract configuration once and tries every character  *)
(* class from it: each generated step prints its input (LEAF ...), which gives the driver one input    *)
(* per transition (state x class) - the transition cover replayed on the real XmlElement::Factory.     *)
(* Checked on the way:                                                                                 *)
(*   Live       only the states the code can reach occur (the CDATA states and ccom1 are dead code)     *)
(*   Nesting    every frame below the innermost one waits in state "value"                             *)
(*   Total      Feed is defined for every (state, character) and the run can be ended anywhere:        *)
(*              ModelParse yields a tree or one of the parse-error kinds                               *)
EXTENDS Xml, Json

CONSTANTS MaxLen, MaxStack
VARIABLES cfg, must, inp, last

Alphabet == {60, 62, 47, 63, 33, 45, 91, 93, 61, 34, 39, 32, 10, 97, 38, 92}
        \*    <   >   /   ?   !   -   [   ]   =   "   '  sp  nl   a   &   \
ASSUME {ClassOf(c) : c \in Alphabet} = {"lt", "gt", "slash", "qmark", "bang", "dash", "lbracket", "rbracket", "eq",
                                         "quote", "space", "newline", "name", "other"}

Top == cfg.stk[Len(cfg.stk)]
SMInit == cfg = CInit /\ must = -2 /\ inp = <<>> /\ last = [st |-> "", cls |-> "", depth |-> 0]
SMNext ==
    /\ cfg.out = "run" /\ must # -1 /\ Len(inp) < MaxLen
    /\ \E c \in (IF must = -2 THEN Alphabet ELSE {must}) :
         \E nx \in (IF Peeks(Top, c) /\ ~IsNl(c) THEN Alphabet \cup {-1} ELSE {-2}) :
            /\ cfg' = Feed(cfg, c, nx, {})
            /\ must' = nx
            /\ inp' = Append(inp, c)
            /\ last' = [st |-> Top.st, cls |-> ClassOf(c), depth |-> Len(cfg.stk) - 1]

Abs == [out |-> cfg.out, kind |-> cfg.kind, sts |-> [i \in DOMAIN cfg.stk |-> cfg.stk[i].st],
        te |-> Top.otag = <<>>, same |-> Top.otag = Top.ctag, must |-> must]
View == Abs
Bound == Len(cfg.stk) <= MaxStack
Edge == PrintT("LEAF " \o ToJson([inp |-> inp, st |-> last.st, cls |-> last.cls, depth |-> last.depth]))

LiveStates == {"olb", "otag", "ocom0", "ocom1", "comment", "ccom0", "ccomment", "oattr", "odec", "cdec", "value",
               "cls", "ctag", "finished", "closed"}
Live == \A i \in DOMAIN cfg.stk : cfg.stk[i].st \in LiveStates
Nesting == cfg.out = "run" => \A i \in 1..(Len(cfg.stk) - 1) : cfg.stk[i].st = "value"
Kinds == {"unmatched_tag", "illegal_char", "attr_redefined", "max_depth", "include_not_modelled"}
Total == /\ cfg.out \in {"run", "done", "exc"}
         /\ (cfg.out = "exc" => cfg.kind \in Kinds)
         /\ LET r == AtEof(cfg, {}) IN r.out \in {"done", "exc"} /\ (r.out = "exc" => r.kind \in Kinds)
=============================================================================
