CONSTANTS
  Msgs <- MsgsValid
  P = 3
  C = 2
  Dev = {}
SPECIFICATION Spec
INVARIANT PrefixOK
INVARIANT Complete
VIEW StateView
CHECK_DEADLOCK FALSE
