CONSTANTS
  SegSize = 2
  NSeg = 4
  CacheCap = 1
  NItems = 6
  NPops = 7
  Dev = {"recycled_not_linked"}
INIT Init
NEXT Next
INVARIANT NoBreach
CHECK_DEADLOCK FALSE
