------------------------------ MODULE MC_Timer ------------------------------
(* Model checking of the Timer design (Timer.tla): every interleaving of up to MaxEv schedule calls *)
(* (delay, repeat flag, number of runs after which the callback returns false), clock advances,     *)
(* clears and - arbitrarily late - fires.  `last` is the most recent fire with what the property    *)
(* needs to judge it (reset by every other action: each fire is judged in the state it produces);  *)
(* `cmds` (the command history, hidden by VIEW in the export config) is the      *)
(* schedule replayed on the real Timer<T> thread against the virtual clock.                         *)
EXTENDS Timer, Json

(* A callback takes time: the clock moves by the event's `slow` while it runs.  The ideal thread reads  *)
(* the clock immediately before each decision (Fire judges and re-arms with the instant the callback  *)
(* begins); deviation "stale_now" keeps the instant it last read (tnow) for every event it drains and  *)
(* reads again only when nothing is due under that view (Sleep).                                       *)
CONSTANTS MaxEv, Delays, Steps, MaxNow, MaxRuns, MaxClr, Dev, Export, Slows
VARIABLES now, pending, nsched, quota, runs, ranAt, epoch, final, nclr, last, cmds, tnow, slow

vars == <<now, pending, nsched, quota, runs, ranAt, epoch, final, nclr, last, cmds, tnow, slow>>
NoFire == [id |-> 0]
\* the command history is kept only by the export configuration (it would make every history a state)
\* bookkeeping of events that left the queue is dropped (keeps the state space small)
Keep(f, p) == [j \in DOMAIN f \cap DOMAIN p |-> f[j]]
Rec(c) == IF Export THEN Append(cmds, c) ELSE cmds

Init == /\ now = 0 /\ pending = NoEvents /\ nsched = 0 /\ quota = NoEvents /\ runs = NoEvents
        /\ ranAt = NoEvents /\ epoch = NoEvents /\ final = {} /\ nclr = 0 /\ last = NoFire /\ cmds = <<>> /\ tnow = 0 /\ slow = NoEvents

Schedule(d, rep, q, sl) ==
    LET id == nsched + 1 IN
    /\ nsched < MaxEv /\ (rep \/ q = 1)
    /\ pending' = SchedOf(pending, now, id, d, rep)
    /\ nsched' = id
    /\ quota' = (id :> q) @@ quota /\ runs' = (id :> 0) @@ runs /\ ranAt' = (id :> -1) @@ ranAt
    /\ epoch' = (id :> nclr) @@ epoch
    /\ slow' = (id :> sl) @@ slow
    /\ cmds' = Rec([c |-> "sched", id |-> id, delay |-> d, rep |-> rep, q |-> q, slow |-> sl])
    /\ last' = NoFire
    /\ UNCHANGED <<now, final, nclr, tnow>>

Advance(d) ==
    /\ now + d <= MaxNow
    /\ now' = now + d
    /\ cmds' = Rec([c |-> "adv", d |-> d])
    /\ last' = NoFire
    /\ UNCHANGED <<pending, nsched, quota, runs, ranAt, epoch, final, nclr, tnow, slow>>

\* the instant the thread's decision is based on
View0 == IF "stale_now" \in Dev THEN tnow ELSE now
Sleep == /\ "stale_now" \in Dev /\ tnow # now /\ Fireable(pending, tnow, Dev) = {}
         /\ tnow' = now /\ last' = NoFire
         /\ UNCHANGED <<now, pending, nsched, quota, runs, ranAt, epoch, final, nclr, cmds, slow>>

Fire(i) ==
    LET r == runs[i] + 1 < quota[i]           \* what the callback returns
        others == Ids(pending) \ {i}
    IN
    /\ i \in Fireable(pending, View0, Dev)
    /\ now + slow[i] <= MaxNow
    /\ now' = now + slow[i] /\ tnow' = View0
    /\ last' = [id |-> i, at |-> now, due |-> pending[i].due, iv |-> pending[i].iv, prev |-> ranAt[i],
                minOther |-> IF others = {} THEN -1 ELSE MinDue(Without(pending, i)),
                epoch |-> epoch[i], nclr |-> nclr, afterFinal |-> i \in final, ret |-> r]
    /\ pending' = AfterFire(pending, View0, i, r, Dev)
    /\ slow' = Keep(slow, pending')
    /\ runs' = Keep([runs EXCEPT ![i] = @ + 1], pending')
    /\ ranAt' = Keep([ranAt EXCEPT ![i] = now], pending')
    /\ quota' = Keep(quota, pending') /\ epoch' = Keep(epoch, pending')
    /\ final' = IF pending[i].rep /\ r THEN final ELSE final \cup {i}
    /\ UNCHANGED <<nsched, nclr, cmds>>

Clear ==
    /\ nclr < MaxClr /\ Ids(pending) # {}
    /\ pending' = ClearOf(pending, Dev)
    /\ nclr' = nclr + 1
    /\ cmds' = Rec([c |-> "clear"])
    /\ last' = NoFire
    /\ quota' = Keep(quota, pending') /\ runs' = Keep(runs, pending') /\ ranAt' = Keep(ranAt, pending') /\ epoch' = Keep(epoch, pending')
    /\ slow' = Keep(slow, pending')
    /\ UNCHANGED <<now, nsched, final, tnow>>

Next == \/ \E d \in Delays, rep \in BOOLEAN, q \in 1..MaxRuns, sl \in Slows : Schedule(d, rep, q, sl)
        \/ Sleep
        \/ \E d \in Steps : Advance(d)
        \/ \E i \in Ids(pending) : Fire(i)
        \/ Clear

\* ---- the property -------------------------------------------------------------------------------
Fired == last.id # 0
NoEarlyFire == Fired => last.at >= last.due
DueOrder == Fired => (last.minOther = -1 \/ last.due <= last.minOther)
RepeatSpacing == Fired => /\ (last.prev >= 0 => last.at - last.prev >= last.iv)
                          /\ ~last.afterFinal
ClearSilences == Fired => last.epoch = last.nclr
\* witnesses (must be violated)
Reach_RepeatTwice == ~(Fired /\ last.prev >= 0 /\ last.minOther # -1)
Reach_LateFire == ~(Fired /\ last.at > last.due /\ last.nclr > 0)

Edge == PrintT("LEAF " \o ToJson(cmds))
\* -simulate export: print the command history when the behaviour cannot be extended by a command
Full == (now + 1 > MaxNow /\ nsched = MaxEv) => PrintT("LEAF " \o ToJson(cmds))
View == <<now, pending, nsched, quota, runs, ranAt, epoch, final, nclr, last, tnow, slow>>
=============================================================================
