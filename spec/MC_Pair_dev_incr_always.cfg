CONSTANTS
  Dev = {"incr_always"}
  MaxSteps = 15
  MaxSend = 3
  MaxDrops = 1
  MaxRestarts = 1
SPECIFICATION Spec
INVARIANT NoTermination
INVARIANT AllDelivered
INVARIANT FirstInOrder
INVARIANT RedeliveriesFlagged
INVARIANT NoSilentGap
VIEW StateView
CHECK_DEADLOCK FALSE
