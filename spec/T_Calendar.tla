------------------------------ MODULE T_Calendar ------------------------------
(* Trace monitor for C09.  One line = what the real date/time codecs did for one instant or text:    *)
(*   Inst{day, sec, ms, ts, ts_p, to, to_p, d8, d8_p, lm, lm_p, my6, my6_p, my8, my8_p, abort, san}   *)
(*        the instant (day, second of day, ms) put into UTCTimestamp, UTCTimeOnly, UTCDateOnly,       *)
(*        LocalMktDate and MonthYear (6 and 8 character forms): text printed, and the instant         *)
(*        [neg, day, sec, ms, sub] obtained by constructing the same field class from that text       *)
(*   Parse{kind, text, f, p, abort, san}   text parsed by the field class `kind`; f = the civil fields *)
(*        [y, mo, d, h, mi, s, ms] the driver put into the text (taken from the TLC walk of the       *)
(*        calendar; the monitor re-renders them and insists on text equality before using them)      *)
(*   Log{day, sec, ns, dp, gm, text, abort, san}   GetTimeAsStringMS at dp decimal places             *)
(* Expected texts and instants are recomputed from the small integers with Calendar.tla.            *)
(* Readings: round trips are demanded for the components a type carries (time of day for            *)
(* UTCTimeOnly, the date for the date types, year and month - read back as the first of the month - *)
(* for the 6 character MonthYear).  A log time stamp may truncate or round to the printed precision, *)
(* but a rounded one has to carry into the minute (so seconds stay in 00..59).                       *)
EXTENDS Common, Calendar

VARIABLES l, fails, nexec

Ev == TraceLog[l]

\* seconds since the epoch no longer fit an int from 2038-01-19 03:14:08 on
Era(day, sec) == IF day > 24855 \/ (day = 24855 /\ sec > 11647) THEN "after_2038_01_19" ELSE "int32_seconds"

IsInstant(p, day, sec, ms) == ~p.neg /\ p.day = day /\ p.sec = sec /\ p.ms = ms /\ p.sub = 0

\* first clause of the property that the Inst line breaks ("" = none)
InstClause(e) ==
    LET c == CivilOf(e.day) IN
    CASE e.ts # TimestampText(e.day, e.sec, e.ms) -> "timestamp_text"
      [] ~IsInstant(e.ts_p, e.day, e.sec, e.ms) -> "timestamp_parse"
      [] e.to # TimeOnlyText(e.sec, e.ms) -> "timeonly_text"
      [] ~IsInstant(e.to_p, 0, e.sec, e.ms) -> "timeonly_parse"
      [] e.d8 # DateText(e.day) -> "dateonly_text"
      [] ~IsInstant(e.d8_p, e.day, 0, 0) -> "dateonly_parse"
      [] e.lm # DateText(e.day) -> "localmktdate_text"
      [] ~IsInstant(e.lm_p, e.day, 0, 0) -> "localmktdate_parse"
      [] e.my6 # MonthText(e.day) -> "monthyear_text"
      [] ~IsInstant(e.my6_p, FirstOfMonth(e.day), 0, 0) -> "monthyear_parse"
      [] e.my8 # DateText(e.day) -> "monthyear8_text"
      [] ~IsInstant(e.my8_p, e.day, 0, 0) -> "monthyear8_parse"
      [] OTHER -> ""

ParseText(e) == CASE e.kind = "ts" -> FieldsDateText(e.f) \o "-" \o FieldsTimeText(e.f)
                  [] e.kind = "to" -> FieldsTimeText(e.f)
                  [] e.kind \in {"date", "lmd"} -> FieldsDateText(e.f)
                  [] e.kind = "my" -> FieldsMonthText(e.f)
ParseOk(e) ==
    LET dn == DayNumber(e.f.y, e.f.mo, e.f.d) IN
    CASE e.kind = "ts" -> IsInstant(e.p, dn, FieldsSod(e.f), e.f.ms)
      [] e.kind = "to" -> IsInstant(e.p, 0, FieldsSod(e.f), e.f.ms)
      [] e.kind \in {"date", "lmd"} -> IsInstant(e.p, dn, 0, 0)
      [] e.kind = "my" -> IsInstant(e.p, DayNumber(e.f.y, e.f.mo, 1), 0, 0)

Bad(why, sig) == [ok |-> FALSE, why |-> why, sig |-> sig]
Good == [ok |-> TRUE, why |-> "", sig |-> ""]

MonStep(e) ==
    CASE e.e = "Inst" ->
           IF e.day \notin 0..47481 \/ e.sec \notin 0..86399 \/ e.ms \notin 0..999 THEN Good      \* outside the property
           ELSE IF e.abort THEN Bad("codec stopped by the sanitizer: " \o e.san,
                                    "inst:" \o Era(e.day, e.sec) \o ":undefined_behaviour")
           ELSE IF InstClause(e) = "" THEN Good
           ELSE Bad("rendering / round trip of the instant fails at " \o InstClause(e),
                    "inst:" \o Era(e.day, e.sec) \o ":" \o InstClause(e))
      [] e.e = "Parse" ->
           IF ~ValidDate(e.f.y, e.f.mo, e.f.d) \/ ParseText(e) # e.text THEN Bad("driver: text is not the rendering of f", "driver:parse")
           ELSE IF e.abort THEN Bad("parse stopped by the sanitizer: " \o e.san,
                                    "parse:" \o e.kind \o ":" \o Era(DayNumber(e.f.y, e.f.mo, e.f.d), FieldsSod(e.f)) \o ":undefined_behaviour")
           ELSE IF ParseOk(e) THEN Good
           ELSE Bad("text does not parse to its instant",
                    "parse:" \o e.kind \o ":" \o Era(DayNumber(e.f.y, e.f.mo, e.f.d), FieldsSod(e.f)) \o ":wrong_instant")
      [] e.e = "Log" ->
           IF e.day \notin 0..47481 \/ e.sec \notin 0..86399 \/ e.ns \notin 0..999999999 \/ e.dp \notin 0..9 THEN Good
           ELSE IF e.abort THEN Bad("log renderer stopped by the sanitizer: " \o e.san, "log:undefined_behaviour")
           ELSE IF LogAccepted(e.day, e.sec, e.ns, e.dp, e.text) THEN Good
           ELSE Bad("log time stamp does not show the instant's calendar fields with seconds in 00..59",
                    "log:dp" \o Dg(e.dp) \o ":" \o
                      (IF e.text = LogAsCode({"log_seconds_round_to_60"}, e.day, e.sec, e.ns, e.dp)
                       THEN (IF SecOf(e.sec) = 59 THEN "seconds_60" ELSE "rounded_without_carry") ELSE "other_text"))
      [] OTHER -> Good

Init == l = 1 /\ fails = <<>> /\ nexec = 0
Next ==
    \/ /\ l <= NLines
       /\ LET r == MonStep(Ev) IN
          fails' = IF r.ok THEN fails
                   ELSE Append(fails, [line |-> l, exec |-> nexec, why |-> r.why, sig |-> r.sig])
       /\ nexec' = IF Ev.e = "Reset" THEN nexec + 1 ELSE nexec
       /\ l' = l + 1
    \/ /\ l = NLines + 1
       /\ WriteVerdict(l - 1, fails, nexec)
       /\ l' = l + 1
       /\ UNCHANGED <<fails, nexec>>
=============================================================================
