---------------------------- MODULE MC_XmlTree ----------------------------
(* Round trip at design level: for every small element tree, the design parser (Xml!ModelParse with   *)
(* Dev = {}: the state machine + single-pass reference decoding) applied to the canonical text of the *)
(* tree gives the tree back (tags, attribute maps with references decoded, text, child order), and    *)
(* path lookups (FindAll) find every element by its own path and nothing by a path no element has.    *)
(* With Dev = {"entity_double_decode"} RoundTrip must fail (vacuity guard).                           *)
(* Every tree is also printed (LEAF ...): the shapes are grown by the driver to depth 6 x width 6 and *)
(* replayed on the real parser.                                                                       *)
EXTENDS Xml, Json

CONSTANTS Dev, Which       \* Which: "shapes" | "decorated" | "witness" (two trees that need single-pass decoding)
VARIABLES t

A == <<97>>  B == <<98>>  X == <<120>>
\* ---- all shapes of depth <= 3 levels and width <= 3, tags alternating a, b, a among siblings or all a --------
Leaf(tag) == Elem(tag, {}, FALSE, <<>>, <<>>)
TagAt(i, alt) == IF alt /\ i % 2 = 0 THEN B ELSE A
KidSeqs(S) == {<<>>} \cup {<<x>> : x \in S} \cup {<<x, y>> : x \in S, y \in S} \cup {<<x, y, z>> : x \in S, y \in S, z \in S}
Retag(ks, alt) == [i \in DOMAIN ks |-> [ks[i] EXCEPT !.tag = TagAt(i, alt)]]
L1(alt) == {Leaf(A)}
L2(alt) == {Elem(A, {}, FALSE, <<>>, Retag(ks, alt)) : ks \in KidSeqs(L1(alt))}
L3(alt) == {Elem(A, {}, FALSE, <<>>, Retag(ks, alt)) : ks \in KidSeqs(L2(alt))}
Shapes == L3(TRUE) \cup L3(FALSE)

\* ---- decorated trees: attribute values and text with markup characters and reference-shaped text -------------
Vals == {<<118>>, <<38, 60, 62>>, <<38, 108, 116, 59>>, <<34, 39>>, <<38, 35, 54, 48, 59, 32>>}   \* v &<> &lt; "' &#60;_
AttrSets == {{}} \cup {{<<X, v>>} : v \in Vals}
Texts == {<<>>, <<38, 97, 109, 112, 59>>, <<32, 120, 60, 32>>}                                      \* &amp; _x<_
Deco(tags, attrsets, texts, kidseqs) ==
    {Elem(g, at, tx # <<>>, tx, ks) : g \in tags, at \in attrsets, tx \in texts, ks \in kidseqs}
BigLeaf == Deco({A, B}, AttrSets, Texts, {<<>>})
SmallLeaf == Deco({A, B}, {{}, {<<X, <<38, 108, 116, 59>>>>}}, {<<>>, <<116>>}, {<<>>})
Decorated == Deco({A}, AttrSets, {<<>>, <<116>>},
                  {<<>>} \cup {<<x>> : x \in BigLeaf} \cup {<<x, y>> : x \in SmallLeaf, y \in SmallLeaf})

Witness == Deco({A}, {{<<X, <<38, 108, 116, 59>>>>}}, {<<>>, <<38, 97, 109, 112, 59>>}, {<<>>})
TreeSet == IF Which = "shapes" THEN Shapes ELSE IF Which = "witness" THEN Witness ELSE Decorated
TInit == t \in TreeSet
TNext == UNCHANGED t

RoundTrip == LET r == ModelParse(Serialise(t), Dev) IN r.out = "tree" /\ TreeEq(r.tree, t)

RECURSIVE JoinPath(_)
JoinPath(ch) == IF Len(ch) = 1 THEN ch[1] ELSE ch[1] \o <<SL>> \o JoinPath(Tail(ch))
FindsOwn == LET p == Pre(t) IN
    /\ \A i \in DOMAIN p : LET S == FindAll(p, 0, JoinPath(p[i].chain), FALSE, <<>>, <<>>) IN
            /\ (i - 1) \in S
            /\ \A j \in S : p[j + 1].chain = p[i].chain
            /\ FindAll(p, 0, <<SL, SL>> \o JoinPath(p[i].chain), FALSE, <<>>, <<>>) = S
    /\ FindAll(p, 0, JoinPath(p[1].chain) \o <<SL, 122>>, FALSE, <<>>, <<>>) = {}
    /\ FindAll(p, 0, <<122>>, FALSE, <<>>, <<>>) = {}
Export == PrintT("LEAF " \o ToJson(t))
=============================================================================
