CONSTANTS
  Keys = {0, 1, 2, 3}
  Ids = {11, 12}
  Vals = {1, 2}
  MaxOps = 3
INIT ContractInit
NEXT ContractNext
INVARIANT MapLike
CHECK_DEADLOCK FALSE
