CONSTANTS
  MaxEl = 1
  NegInts = FALSE
  Dev = {"chksum_skips_preamble"}
SPECIFICATION Spec
INVARIANT PositionOrdered
INVARIANT WireWellFormed
INVARIANT RoundTrip
INVARIANT CloneSame
VIEW View
CHECK_DEADLOCK FALSE
