------------------------------ MODULE Session ------------------------------
(* Design of the fix8 session layer (runtime/session.cpp), sequence-number side: what              *)
(* Session::start, send / send_batch -> FIXWriter::write -> Session::send_process, and              *)
(* Session::process with its handlers (sequence_check, handle_resend_request + retrans_callback,    *)
(* handle_test_request, the reject path) do to                                                      *)
(*     ns (next send number)  nr (next expected receive number)  the message store                  *)
(*     the persisted control record   the session state   the bytes written to the socket.         *)
(* One environment input = one public call (Start, AppSend, Batch, Recv..., Restart); the step      *)
(* function Step(s, inp) returns the new state and the *event* the real probe would record for     *)
(* that call (same alphabet as harness/src/probe_session.cpp after lib/session_common.py), so the   *)
(* monitors of SessionMon.tla can be run on the design itself:                                      *)
(*     Dev = {}        the design the properties C16-C19 need: TLC checks that every monitor        *)
(*                     accepts every behaviour (no monitor demands more than the design gives)      *)
(*     Dev = {d}       what the code was found to do: TLC must find a rejection by the monitor      *)
(*                     of the property d breaks (the monitors are not vacuous).                     *)
(* The histories TLC explores are exported (LEAF lines) and replayed on the real Session.           *)
EXTENDS SessionMsgs

CONSTANTS Dev,          \* named deviations switched on (see below)
          MaxSteps, MaxNs, MaxNr, MaxApp,
          Props         \* the monitors run alongside, e.g. {"C16", "C17", "C18", "C19"}

VARIABLES s, hist, mons, bad

vars == <<s, hist, mons, bad>>

\* named deviations --------------------------------------------------------------------------------
\*  "batch_last_stored_empty"     send_process stores the last message of a batch from the cleared batch buffer
\*  "ctrl_plus1_on_noincrement"   control record written as ns+1 even when the message does not advance ns
\*  "reject_no_ctrl_update"       the reject path advances nr without persisting the control record
\*  "gapfill_seq_is_next_send"    intermediate gap fills carry the current ns instead of the gap start
\*  "incr_always"                 nr is incremented after every processed message, in sequence or not
\*  "no_logout_when_established"  a forced logoff sends its Logout only in state logon_received
AllDev == {"batch_last_stored_empty", "ctrl_plus1_on_noincrement", "reject_no_ctrl_update",
           "gapfill_seq_is_next_send", "incr_always", "no_logout_when_established"}
ASSUME Dev \subseteq AllDev

Persist(t) == [t EXCEPT !.ctrl = <<t.ns, t.nr>>]
PutStore(t, o, empty) == [t EXCEPT !.store = (o.seq :> [id |-> o.id, len |-> IF empty THEN 0 ELSE o.len,
                                                       h |-> IF empty THEN 0 ELSE o.h]) @@ t.store]

\* ---- Session::start (initiator): recover, Logon ---------------------------------------------------
DoStart(t) ==
    LET rec == IF t.ctrl # <<>> THEN [t EXCEPT !.ns = t.ctrl[1], !.nr = t.ctrl[2]] ELSE [t EXCEPT !.ns = 1, !.nr = 1]
        o == [Out("A", rec.ns) EXCEPT !.hbint = 30]
        t1 == Persist([rec EXCEPT !.ns = rec.ns + 1, !.st = StLogonSent])
    IN [s |-> t1, ev |-> Event("Start", t, t1, <<>>, <<o>>, <<>>)]

DoRecvLogon(t) ==
    LET i == [In("A", t.nr) EXCEPT !.hbint = 30]
        t1 == Persist([t EXCEPT !.nr = t.nr + 1, !.st = StCont])
    IN [s |-> t1, ev |-> Event("Recv", t, t1, <<i>>, <<>>, <<>>)]

\* ---- application sends ---------------------------------------------------------------------------
DoSend(t) ==
    LET o == App(t.ns, t.nid)
        t1 == Persist(PutStore([t EXCEPT !.ns = t.ns + 1, !.nid = t.nid + 1], o, FALSE))
    IN [s |-> t1, ev |-> Event("Send", t, t1, <<>>, <<o>>, <<>>)]

RECURSIVE BatchFrom(_, _, _, _)
BatchFrom(t, k, n, acc) ==       \* k-th of n
    IF k > n THEN [s |-> t, out |-> acc]
    ELSE LET o == App(t.ns, t.nid)
             empty == k = n /\ n > 1 /\ "batch_last_stored_empty" \in Dev
         IN BatchFrom(PutStore([t EXCEPT !.ns = t.ns + 1, !.nid = t.nid + 1], o, empty), k + 1, n, Append(acc, o))
DoBatch(t, n) ==
    LET b == BatchFrom(t, 1, n, <<>>)
        t1 == Persist(b.s)
    IN [s |-> t1, ev |-> [Event("SendBatch", t, t1, <<>>, b.out, <<>>) EXCEPT !.kind = "batch"]]

\* ---- forced logoff (MsgSequenceTooLow, BadCompidId, ...) ------------------------------------------
Logoff(t, i) ==
    LET sendit == "no_logout_when_established" \notin Dev
        o == Out("5", t.ns)                       \* sent with no_increment: ns stays
        t1 == [t EXCEPT !.shutdown = TRUE, !.st = IF sendit THEN StLogoffSent ELSE t.st,
                        !.ctrl = IF sendit /\ "ctrl_plus1_on_noincrement" \in Dev THEN <<t.ns + 1, t.nr>>
                                 ELSE IF sendit THEN <<t.ns, t.nr>> ELSE t.ctrl]
    IN [s |-> t1, ev |-> Event("Recv", t, t1, <<i>>, IF sendit THEN <<o>> ELSE <<>>, <<>>)]

\* ---- inbound application message -------------------------------------------------------------------
DoRecvApp(t, seq, dup, origok) ==
    LET i == [In("D", seq) EXCEPT !.id = t.npeer, !.possdup = dup, !.has_orig = dup,
                                   !.orig = IF origok THEN 0 ELSE 5]
        bump(x) == IF "incr_always" \in Dev THEN [x EXCEPT !.nr = x.nr + 1] ELSE x
        tp == [t EXCEPT !.npeer = t.npeer + 1]
    IN IF seq = t.nr THEN
            LET t1 == Persist([tp EXCEPT !.nr = t.nr + 1, !.st = IF t.st = StResendSent THEN StCont ELSE t.st])
            IN [s |-> t1, ev |-> Event("Recv", t, t1, <<i>>, <<>>, <<[seq |-> seq, id |-> i.id, possdup |-> dup]>>)]
       ELSE IF seq > t.nr THEN
            IF t.st = StCont THEN
                LET o == [Out("2", t.ns) EXCEPT !.begin = t.nr]
                    t1 == Persist(bump([tp EXCEPT !.ns = t.ns + 1, !.st = StResendSent]))
                IN [s |-> t1, ev |-> Event("Recv", t, t1, <<i>>, <<o>>, <<>>)]
            ELSE LET t1 == Persist(bump(tp)) IN [s |-> t1, ev |-> Event("Recv", t, t1, <<i>>, <<>>, <<>>)]
       ELSE IF dup /\ origok THEN
            LET t1 == Persist(bump(tp))
            IN [s |-> t1, ev |-> Event("Recv", t, t1, <<i>>, <<>>, <<[seq |-> seq, id |-> i.id, possdup |-> TRUE]>>)]
       ELSE Logoff(tp, i)

DoRecvTestReq(t) ==
    LET i == [In("1", t.nr) EXCEPT !.testreqid = "PING"]
        o == [Out("0", t.ns) EXCEPT !.testreqid = "PING"]
        t1 == Persist([t EXCEPT !.ns = t.ns + 1, !.nr = t.nr + 1])
    IN [s |-> t1, ev |-> Event("Recv", t, t1, <<i>>, <<o>>, <<>>)]

\* undecodable inbound message (bad checksum): Reject, nr advances
DoRecvGarbled(t) ==
    LET i == [In("D", t.nr) EXCEPT !.valid = FALSE, !.why = "checksum"]
        o == [Out("3", t.ns) EXCEPT !.refseq = t.nr]
        t0 == [t EXCEPT !.ns = t.ns + 1, !.nr = t.nr + 1]
        t1 == IF "reject_no_ctrl_update" \in Dev THEN [t0 EXCEPT !.ctrl = <<t0.ns, t.nr>>] ELSE Persist(t0)
    IN [s |-> t1, ev |-> Event("Recv", t, t1, <<i>>, <<o>>, <<>>)]

\* ---- ResendRequest: Persister::get(begin, end, retrans_callback) ---------------------------------
\* r = [ns, last, out]; ks = stored numbers to visit, ascending; B = requested begin
RECURSIVE Visit(_, _, _, _)
Visit(t, ks, B, r) ==
    IF ks = <<>> THEN r
    ELSE LET k == Head(ks)
             dev == "gapfill_seq_is_next_send" \in Dev
             gap == IF r.last # 0 THEN r.last + 1 < k ELSE k > B
             gstart == IF r.last # 0 THEN r.last + 1 ELSE B
             \* code: scenario #2 sends with custom seq = ns; scenario #3 with no custom seq (consumes ns)
             g == GapFill(IF dev THEN r.ns ELSE gstart, k)
             ns1 == IF gap /\ dev /\ r.last = 0 THEN r.ns + 1 ELSE r.ns
             out1 == IF gap THEN Append(r.out, g) ELSE r.out
         IN Visit(t, Tail(ks), B, [ns |-> ns1, last |-> k, out |-> Append(out1, Dup(k, t.store[k].id))])

DoRecvResend(t, B, E) ==
    LET i == [In("2", t.nr) EXCEPT !.begin = B, !.end = E]
        S == DOMAIN t.store
        lastStored == IF S = {} THEN 0 ELSE CHOOSE x \in S : \A y \in S : y <= x
        fin == IF E = 0 THEN lastStored ELSE E
        todo == IF B > fin THEN {} ELSE {k \in S : k >= B /\ k <= fin}
        r == Visit(t, AscKeys(todo), B, [ns |-> t.ns, last |-> 0, out |-> <<>>])
        intr == t.ns                                \* rctx._interrupted_seqnum
        nseq == IF r.last = 0 THEN (IF B >= intr THEN B + 1 ELSE intr)
                ELSE (IF r.last + 1 >= intr THEN r.last + 2 ELSE intr)
        final == GapFill(IF r.last = 0 THEN B ELSE r.last + 1, nseq)
        t1 == Persist([t EXCEPT !.ns = nseq, !.nr = t.nr + 1])
    IN [s |-> t1, ev |-> Event("Recv", t, t1, <<i>>, Append(r.out, final), <<>>)]

\* ---- process restart: volatile state lost, files kept ----------------------------------------------
DoRestart(t) ==
    LET t1 == [t EXCEPT !.st = StNone, !.ns = 1, !.nr = 1, !.shutdown = FALSE]
    IN [s |-> t1, ev |-> Event("Restart", t, t1, <<>>, <<>>, <<>>)]

\* ---- inputs -----------------------------------------------------------------------------------------
Live(t) == ~t.shutdown /\ t.st \in {StCont, StResendSent}
Inputs(t) ==
    (IF t.st = StNone /\ ~t.shutdown THEN {[op |-> "Start"]} ELSE {})
    \cup (IF t.st = StLogonSent /\ ~t.shutdown THEN {[op |-> "RecvLogon", seq |-> t.nr]} ELSE {})
    \cup (IF Live(t) /\ t.nid <= MaxApp THEN {[op |-> "Send"]} \cup {[op |-> "Batch", n |-> n] : n \in 2..3} ELSE {})
    \cup (IF Live(t) THEN {[op |-> "RecvApp", seq |-> q, dup |-> d, origok |-> k] :
                              q \in {x \in (t.nr - 1)..(t.nr + 2) : x >= 1}, d \in BOOLEAN, k \in BOOLEAN}
                          \cup {[op |-> "RecvTestReq", seq |-> t.nr], [op |-> "RecvGarbled", seq |-> t.nr]}
                          \cup {[op |-> "RecvResend", seq |-> t.nr, begin |-> b, end |-> e] :
                                  b \in 1..(t.ns + 1), e \in {0} \cup 1..(t.ns + 1)}
          ELSE {})
    \cup (IF t.st # StNone THEN {[op |-> "Restart"]} ELSE {})

Step(t, inp) ==
    CASE inp.op = "Start" -> DoStart(t)
      [] inp.op = "RecvLogon" -> DoRecvLogon(t)
      [] inp.op = "Send" -> DoSend(t)
      [] inp.op = "Batch" -> DoBatch(t, inp.n)
      [] inp.op = "RecvApp" -> DoRecvApp(t, inp.seq, inp.dup, inp.origok)
      [] inp.op = "RecvTestReq" -> DoRecvTestReq(t)
      [] inp.op = "RecvGarbled" -> DoRecvGarbled(t)
      [] inp.op = "RecvResend" -> DoRecvResend(t, inp.begin, inp.end)
      [] inp.op = "Restart" -> DoRestart(t)

\* ---- the design composed with the monitors ----------------------------------------------------------
Cfg(p) == [prop |-> p, role |-> "ini", persist |-> "file", sender |-> "INI", target |-> "ACC", hb |-> 30,
           reset |-> FALSE, enforce |-> TRUE, always_assign |-> FALSE, cfg_send |-> 0, cfg_recv |-> 0, clients |-> <<>>]

Init == /\ s = SInit /\ hist = <<>> /\ bad = {}
        /\ mons = [p \in Props |-> MsInit(Cfg(p))]

Next == /\ Len(hist) < MaxSteps /\ s.ns <= MaxNs /\ s.nr <= MaxNr
        /\ \E inp \in Inputs(s) :
             LET r == Step(s, inp)
                 q == [p \in Props |-> MonStep(mons[p], r.ev)]
             IN /\ s' = r.s
                /\ hist' = Append(hist, inp)
                /\ mons' = [p \in Props |-> q[p].m]
                /\ bad' = bad \cup {[p |-> p, sig |-> q[p].sig] : p \in {x \in Props : ~q[x].ok}}

Spec == Init /\ [][Next]_vars

MonitorsAccept == bad = {}                      \* Dev = {}: no monitor rejects the design
\* sanity of the design itself, stated directly
CtrlEqualsCounters == (s.ctrl # <<>> /\ s.st # StNone /\ Dev = {}) => s.ctrl = <<s.ns, s.nr>>
StoreWithinSent == \A k \in DOMAIN s.store : k < s.ns \/ s.st = StNone

\* schedule export: one line per generated successor (with VIEW = the abstract state: the transition cover)
Edge == PrintT("LEAF " \o ToJson(hist))
StateView == <<s, mons, bad>>
=============================================================================
