CONSTANTS
  Dev = {}
  MaxSteps = 6
  MaxPeer = 7
SPECIFICATION Spec
INVARIANT NoSeqTermination
INVARIANT Recovered
INVARIANT NeverSilentlyBehind
CONSTRAINT Edge
VIEW StateView
CHECK_DEADLOCK FALSE
