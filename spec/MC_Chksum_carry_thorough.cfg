CONSTANTS
 Dev = {}
 Family = "carry"
 MaxMid = 11
 MaxTiny = 0
 CarryTail = 2
 CarryLens = {16, 17, 18}
INIT Init
NEXT Next
CHECK_DEADLOCK FALSE
INVARIANTS InvResult InvReads InvGhost InvLoop InvTail
