CONSTANTS
  MaxEv = 2
  Delays = {1, 2, 5}
  Steps = {1, 3}
  MaxNow = 8
  MaxRuns = 3
  MaxClr = 1
  Dev = {"clear_keeps_one"}
  Slows = {0}
  Export = FALSE
INIT Init
NEXT Next
INVARIANT ClearSilences
CHECK_DEADLOCK FALSE
