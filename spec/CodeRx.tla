------------------------------- MODULE CodeRx -------------------------------
(* What Session::process / sequence_check / handle_sequence_reset / handle_logon of the current    *)
(* code do to the expected inbound number for ONE inbound message, given the state before it:      *)
(* the receive step of Recovery.tla with the three recorded deviations switched on                 *)
(* (incr_always, logon_gap_throws, high_outside_continuous_throws).  It is used by the C20 / C21   *)
(* monitors only to decide whether a recorded step is *explained* by the recorded findings; a      *)
(* rejection in an execution that contains an unexplained step is never attributed to a finding.   *)
EXTENDS Naturals, Integers

\* x = [nr, cont, est]  (cont: state continuous; est: logon exchange under way or complete)
\* m = [seq, kind, dup, newseq], kind \in {"app", "adm", "logon", "logout", "gap"};  result [nr, dead, deliver, rr]
Step(x, m) ==
    IF ~x.est /\ m.kind # "logon" THEN
         \* before the logon exchange is complete enforce() checks nothing: the message is not delivered by an
         \* application that calls enforce(), and the expected number is still incremented
         [nr |-> x.nr + 1, dead |-> m.kind = "logout", deliver |-> FALSE, rr |-> FALSE]
    ELSE IF m.kind = "logout" /\ m.seq = x.nr THEN [nr |-> x.nr + 1, dead |-> TRUE, deliver |-> FALSE, rr |-> FALSE]   \* peer logged out: stop()
    ELSE IF m.kind = "gap" THEN
         IF m.newseq >= x.nr THEN [nr |-> m.newseq, dead |-> FALSE, deliver |-> FALSE, rr |-> FALSE]
         ELSE [nr |-> x.nr, dead |-> TRUE, deliver |-> FALSE, rr |-> FALSE]
    ELSE IF m.seq = x.nr THEN [nr |-> x.nr + 1, dead |-> FALSE, deliver |-> m.kind = "app", rr |-> FALSE]
    ELSE IF m.seq > x.nr THEN
         IF (m.kind = "logon" \/ ~x.cont) /\ x.ignoreLogonGap   \* SessionConfig ignore_logon_sequence_check: no throw, no ResendRequest
              THEN [nr |-> x.nr + 1, dead |-> FALSE, deliver |-> FALSE, rr |-> FALSE]
         ELSE IF m.kind = "logon" \/ ~x.cont THEN [nr |-> x.nr, dead |-> TRUE, deliver |-> FALSE, rr |-> FALSE]
         ELSE [nr |-> x.nr + 1, dead |-> FALSE, deliver |-> FALSE, rr |-> TRUE]
    ELSE IF m.dup THEN [nr |-> x.nr + 1, dead |-> FALSE, deliver |-> m.kind = "app", rr |-> FALSE]
    ELSE [nr |-> x.nr, dead |-> TRUE, deliver |-> FALSE, rr |-> FALSE]
=============================================================================
