CONSTANTS
  SegSize = 2
  NSeg = 4
  CacheCap = 1
  NItems = 6
  NPops = 7
  Dev = {}
INIT Init
NEXT Next
INVARIANT NoThreeRings
CHECK_DEADLOCK FALSE
