CONSTANTS
  MaxEl = 1
  NegInts = TRUE
  Dev = {"neg_int_parse"}
SPECIFICATION Spec
INVARIANT PositionOrdered
INVARIANT WireWellFormed
INVARIANT RoundTrip
INVARIANT CloneSame
VIEW View
CHECK_DEADLOCK FALSE
