CONSTANTS
  FieldNums <- Seq3
  PairNums <- Pairs0
  CountNums <- Counts3
  MsgTypes <- Msgs2
  AdminTypes = {"UB"}
  CompNames <- Comps0
  MaxDepth = 3
  MaxItems = 3
  MaxSteps = 4
  MinSteps = 0
  Pick <- PickAll
  Variants = {"same", "flags", "order", "members", "nested"}
  Dev = {}
  FieldOptions <- SmallOptions
INIT Init
NEXT Next
INVARIANT Valid
INVARIANT OwnTraits
INVARIANT DistinctDefsDistinctTraits
INVARIANT Export
VIEW View
CHECK_DEADLOCK FALSE
