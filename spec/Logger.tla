------------------------------- MODULE Logger -------------------------------
(* Asynchronous logger of fix8 (include/fix8/logger.hpp, runtime/logger.cpp), property C28.         *)
(*                                                                                                *)
(* Producers call send(): a line at a disabled level is dropped (and reported as success), a line  *)
(* at an enabled level is pushed on an unbounded FIFO queue.  One consumer thread runs the loop   *)
(* of Logger::operator():  CheckStop ; TryPop ; (Write | Sleep) ...  and leaves it when it pops   *)
(* the sentinel (an empty line).  Logger::stop() is  RequestStop ; EnqueueSentinel ; Join.        *)
(*                                                                                                *)
(* The design is written as *step functions on a state record* so that three users share it:      *)
(*   MC_Logger  - model checking at statement grain (one action per step function) and at "seam"  *)
(*                grain (consumer runs from one park position - the sleep, or the write system    *)
(*                call - to the next), which is the grain at which the probe can steer the real   *)
(*                threads without any hook; the seam-grain run also exports the schedules;        *)
(*   T_Logger   - Predict(): what the design says the file holds after a given schedule, compared *)
(*                with what the real FileLogger wrote (conformance label, never a verdict).       *)
(*                                                                                                *)
(* dev = {} is the design C28 needs.  Named deviations (what the code was found to do):           *)
(*   "enqueue_return_inverted"  Logger::enqueue returns `try_push(..) == 0`: success reported as  *)
(*                              failure (logger.hpp:299)                                          *)
(*   "exit_on_stop_flag"        the consumer loop is `while (!_stopping)`: it leaves as soon as   *)
(*                              it sees the stop flag, whatever is still queued (logger.cpp:64)   *)
(*   "exit_on_failed_pop_when_stopping"  the consumer takes a failed pop after the stop request   *)
(*                              for "drained" and leaves                                          *)
(*                                                                                                *)
(* The queue (ff uMPMC_Ptr_Queue, C30) is not a plain FIFO at this grain: a push is two steps,     *)
(* Reserve (take the next ticket) and Publish (make the element visible), elements are popped in   *)
(* ticket order, and a pop *fails* while the head ticket is unpublished although published         *)
(* elements may sit behind it.  A push spins while the ticket Lanes places before the next one is  *)
(* unpublished (the lane is still busy).  Submit = Reserve;Publish in one step.                    *)
EXTENDS Naturals, Sequences, FiniteSets, TLC

Sentinel == <<0, 0>>
Line(p, k) == <<p, k>>

NoSub == [x \in {} |-> 0]
Lanes == 4

\* state record
\*   q     the queue: sequence of Line / Sentinel
\*   nsub  lines submitted so far per producer
\*   sub   ghost: Line -> [en, ret, pre]  (level enabled?, value returned by send, returned before stop() began?)
\*   file  what has been written: sequence of [p, k, n] (n = sequence number printed on the line)
\*   seq   the logger's sequence counter
\*   flag  stop requested
\*   cpc   consumer: "check" "pop" "write" "sleep" "done";  cur = element popped
\*   xpc   thread calling stop(): "idle" "enq" "join" "returned"
\*   nt    tickets handed out;  unpub  Line -> ticket of the lines reserved and not yet published
S0(P) == [q |-> <<>>, nsub |-> [p \in P |-> 0], sub |-> NoSub, file |-> <<>>, seq |-> 0, flag |-> FALSE,
          cpc |-> "check", cur |-> Sentinel, xpc |-> "idle", nt |-> 0, unpub |-> NoSub]

\* ---- the queue ---------------------------------------------------------------------------------
CanPush(s) == \A l \in DOMAIN s.unpub : s.nt - s.unpub[l] < Lanes
Parked(s, p) == \E l \in DOMAIN s.unpub : l[1] = p
LineOf(s, p) == CHOOSE l \in DOMAIN s.unpub : l[1] = p
CanPop(s) == s.q # <<>> /\ Head(s.q) \notin DOMAIN s.unpub

\* ---- producer: Logger::send ------------------------------------------------------------------
DoSubmit(s, p, en, dev) ==
    LET k == s.nsub[p] + 1
        ret == IF en THEN "enqueue_return_inverted" \notin dev ELSE TRUE
    IN [s EXCEPT !.nsub[p] = k,
                 !.q = IF en THEN Append(@, Line(p, k)) ELSE @,
                 !.nt = IF en THEN @ + 1 ELSE @,
                 !.sub = (Line(p, k) :> [en |-> en, ret |-> ret, pre |-> s.xpc = "idle"]) @@ @]
\* the two halves of a submit at an enabled level: the producer sits between them for as long as it likes
DoReserve(s, p) ==
    LET k == s.nsub[p] + 1
    IN [s EXCEPT !.nsub[p] = k, !.q = Append(@, Line(p, k)), !.nt = @ + 1,
                 !.unpub = (Line(p, k) :> s.nt) @@ @,
                 !.sub = (Line(p, k) :> [en |-> TRUE, ret |-> FALSE, pre |-> FALSE]) @@ @]
DoPublish(s, p, dev) ==
    LET l == LineOf(s, p)
    IN [s EXCEPT !.unpub = [x \in DOMAIN s.unpub \ {l} |-> s.unpub[x]],
                 !.sub[l] = [en |-> TRUE, ret |-> "enqueue_return_inverted" \notin dev, pre |-> s.xpc = "idle"]]

\* ---- Logger::stop ------------------------------------------------------------------------------
DoXReq(s) == [s EXCEPT !.flag = TRUE, !.xpc = "enq"]
DoXEnq(s) == [s EXCEPT !.q = Append(@, Sentinel), !.nt = @ + 1, !.xpc = "join"]
CanJoin(s) == s.xpc = "join" /\ s.cpc = "done"
DoXJoin(s) == [s EXCEPT !.xpc = "returned"]

\* ---- consumer: Logger::operator() --------------------------------------------------------------
DoCCheck(s, dev) == IF "exit_on_stop_flag" \in dev /\ s.flag THEN [s EXCEPT !.cpc = "done"]
                    ELSE [s EXCEPT !.cpc = "pop"]
DoCPop(s, dev) ==
             IF ~CanPop(s) THEN [s EXCEPT !.cpc = IF "exit_on_failed_pop_when_stopping" \in dev /\ s.flag THEN "done" ELSE "sleep"]
             ELSE LET e == Head(s.q) IN
                  [s EXCEPT !.q = Tail(@), !.cur = e, !.cpc = IF e = Sentinel THEN "done" ELSE "write"]
DoCWrite(s) == [s EXCEPT !.file = Append(@, [p |-> s.cur[1], k |-> s.cur[2], n |-> s.seq + 1]),
                         !.seq = @ + 1, !.cpc = "check"]
DoCSleep(s) == [s EXCEPT !.cpc = "check"]

\* ---- seam grain: the consumer runs from one park position (sleep / write) to the next ------------
RECURSIVE ToPark(_, _)
ToPark(s, dev) == IF s.cpc = "check" THEN ToPark(DoCCheck(s, dev), dev)
                  ELSE IF s.cpc = "pop" THEN ToPark(DoCPop(s, dev), dev)
                  ELSE s
RunC(s, dev) == IF s.cpc = "sleep" THEN ToPark(DoCSleep(s), dev)
                ELSE IF s.cpc = "write" THEN ToPark(DoCWrite(s), dev)
                ELSE s
RunX(s) == IF s.xpc = "idle" /\ CanPush(s) THEN DoXEnq(DoXReq(s)) ELSE s
RunJ(s) == IF CanJoin(s) THEN DoXJoin(s) ELSE s

\* one schedule step [a, p, en] with a in "S" "R" "P" "X" "C" "J"
SchedStep(s, st, dev) ==
    CASE st.a = "S" -> DoSubmit(s, st.p, st.en = 1, dev)
      [] st.a = "R" -> (IF ~Parked(s, st.p) /\ CanPush(s) THEN DoReserve(s, st.p) ELSE s)
      [] st.a = "P" -> (IF Parked(s, st.p) THEN DoPublish(s, st.p, dev) ELSE s)
      [] st.a = "X" -> RunX(s)
      [] st.a = "C" -> RunC(s, dev)
      [] st.a = "J" -> RunJ(s)
      [] OTHER -> s
RECURSIVE Fold(_, _, _)
Fold(s, sched, dev) == IF sched = <<>> THEN s ELSE Fold(SchedStep(s, Head(sched), dev), Tail(sched), dev)
\* the file after a schedule, the consumer having been parked in its first sleep before the first step,
\* and the park position reached after every "C" step
Predict(P, sched, dev) == Fold(ToPark(S0(P), dev), sched, dev)
RECURSIVE ParksOf(_, _, _)
ParksOf(s, sched, dev) ==
    IF sched = <<>> THEN <<>>
    ELSE LET t == SchedStep(s, Head(sched), dev)
         IN (IF Head(sched).a = "C" THEN <<t.cpc>> ELSE <<>>) \o ParksOf(t, Tail(sched), dev)

\* ---- C28 on a state ----------------------------------------------------------------------------
Written(s) == {Line(s.file[i].p, s.file[i].k) : i \in DOMAIN s.file}
Enabled(s) == {l \in DOMAIN s.sub : s.sub[l].en}
ExactlyOnce(s) == /\ \A i, j \in DOMAIN s.file : i # j => Line(s.file[i].p, s.file[i].k) # Line(s.file[j].p, s.file[j].k)
                  /\ Written(s) \subseteq DOMAIN s.sub
DisabledAbsent(s) == Written(s) \cap DOMAIN s.sub \subseteq Enabled(s)
ProducerOrder(s) == \A i, j \in DOMAIN s.file : (i < j /\ s.file[i].p = s.file[j].p) => s.file[i].k < s.file[j].k
SeqConsecutive(s) == \A i \in DOMAIN s.file : s.file[i].n = i
\* the queue is unbounded: a line is accepted iff its level is enabled
RetIffAccepted(s) == \A l \in Enabled(s) \ DOMAIN s.unpub : s.sub[l].ret
StopComplete(s) == s.xpc = "returned" =>
                      /\ s.cpc = "done"                                   \* nothing is written afterwards
                      /\ \A l \in Enabled(s) : s.sub[l].pre => l \in Written(s)
=============================================================================
