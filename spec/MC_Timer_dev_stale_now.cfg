CONSTANTS
  MaxEv = 2
  Delays = {1, 2, 5}
  Steps = {1, 3}
  MaxNow = 8
  MaxRuns = 3
  MaxClr = 1
  Dev = {"stale_now"}
  Slows = {0, 2}
  Export = FALSE
INIT Init
NEXT Next
INVARIANT RepeatSpacing
CHECK_DEADLOCK FALSE
