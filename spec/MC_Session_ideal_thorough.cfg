CONSTANTS
  Dev = {}
  MaxSteps = 9
  MaxNs = 10
  MaxNr = 6
  MaxApp = 4
  Props = {"C16", "C17", "C18", "C19"}
SPECIFICATION Spec
INVARIANT MonitorsAccept
INVARIANT CtrlEqualsCounters
INVARIANT StoreWithinSent
VIEW StateView
CHECK_DEADLOCK FALSE
