CONSTANTS
  Dev = {}
  MaxSteps = 8
  MaxNs = 10
  MaxNr = 5
  MaxApp = 4
  Props = {"C16", "C17", "C18", "C19"}
SPECIFICATION Spec
INVARIANT MonitorsAccept
CONSTRAINT Edge
VIEW StateView
CHECK_DEADLOCK FALSE
