CONSTANTS
  FieldNums <- Seq3
  PairNums <- Pairs0
  CountNums <- Counts2
  MsgTypes <- Msgs1
  AdminTypes = {}
  CompNames <- Comps1
  MaxDepth = 2
  MaxItems = 3
  MaxSteps = 3
  MinSteps = 0
  Pick <- PickAll
  Variants = {}
  Dev = {}
  FieldOptions <- SmallOptions
INVARIANT NoComponentGroup
INIT Init
NEXT Next
VIEW View
CHECK_DEADLOCK FALSE
