------------------------------ MODULE Schedule ------------------------------
(* Session activation schedules of fix8 (include/fix8/session.hpp struct Schedule, Schedule::test,    *)
(* Session::activation_service in runtime/session.cpp) and weekday decoding (decode_dow,              *)
(* runtime/f8utils.cpp).  Property C24.                                                                *)
(*                                                                                                    *)
(* Time is counted in *units*; a day has D units (D = 86400, seconds, in the trace monitor; a small   *)
(* D in the model checked by TLC: every clause below only compares and adds, so it is scale free).    *)
(* A local instant `lt` is a number of units since some Sunday 00:00 local time.                      *)
(* A configuration is a record [start, end, off, sd, ed]: start <= end are units into the day,        *)
(* off is the utc offset (units), sd/ed are weekdays 0..6 (0 = Sunday) or -1/-1 for a daily schedule. *)
(*                                                                                                    *)
(*  1. ActiveDaily / ActiveWeekly: the property statement as *pure window predicates* on the local    *)
(*     instant, written with modular arithmetic on the position in the week.                          *)
(*  2. Test(D, c, prev, lt, Dev): the *design action*: the toggle Schedule::test(prev) in the shape   *)
(*     of the code (weekday and time-of-day comparisons).  Dev = {} is the ideal toggle; each named   *)
(*     deviation replaces one clause by what the current code does; Dev = CodeDev is the code.        *)
(*     MC_Schedule lets TLC prove that the ideal toggle, checked at every unit from any phase and     *)
(*     any initial state, always equals the window predicate, and that every deviation breaks that.   *)
(*  3. DecodeDow(s): weekday decoding over character codes.                                           *)
EXTENDS Naturals, Integers, Sequences, FiniteSets, TLC

TodOf(D, lt) == lt % D
DowOf(D, lt) == (lt \div D) % 7
IsDaily(c) == c.sd < 0

\* ---- 1. the property: window predicates ----------------------------------------------------------
ActiveDaily(D, c, lt) == c.start <= TodOf(D, lt) /\ TodOf(D, lt) <= c.end

\* the window runs forward in time from (sd, start) to (ed, end); on equal days it lies within that day
\* (the configuration requires start < end)
WinStart(D, c) == c.sd * D + c.start
WinEnd(D, c) == c.ed * D + c.end
WinLen(D, c) == (WinEnd(D, c) - WinStart(D, c)) % (7 * D)
\* ws, wl: start and length of the window (the trace monitor computes them once per segment)
ActiveW(D, ws, wl, lt) == ((lt - ws) % (7 * D)) <= wl
ActiveWeekly(D, c, lt) == ActiveW(D, WinStart(D, c), WinLen(D, c), lt)

Active(D, c, lt) == IF IsDaily(c) THEN ActiveDaily(D, c, lt) ELSE ActiveWeekly(D, c, lt)

\* ---- 2. the design: Schedule::test(prev) ----------------------------------------------------------
CodeDev == {"weekly_equal_days_never", "weekly_needs_daily_window_to_start", "weekly_initially_active",
            "weekly_wrap_ends_day_late"}

InRange(c, tod) == c.start <= tod /\ tod <= c.end

\* weekdays touched by the window
DayIn(c, wd) == IF c.sd <= c.ed THEN c.sd <= wd /\ wd <= c.ed ELSE wd >= c.sd \/ wd <= c.ed
\* the same as the code writes it: two strict cases, nothing for sd = ed
DayInStrict(c, wd) == \/ c.sd > c.ed /\ (wd >= c.sd \/ wd <= c.ed)
                      \/ c.sd < c.ed /\ wd >= c.sd /\ wd <= c.ed

\* inside the window, by weekday and time of day
InWin(c, wd, tod) == /\ DayIn(c, wd)
                     /\ (wd = c.sd => tod >= c.start)
                     /\ (wd = c.ed => tod <= c.end)

\* when an inactive schedule becomes active
Activate(c, wd, tod, Dev) ==
    /\ IF "weekly_equal_days_never" \in Dev THEN DayInStrict(c, wd) ELSE DayIn(c, wd)
    /\ IF "weekly_needs_daily_window_to_start" \in Dev THEN InRange(c, tod)
       ELSE (wd = c.sd => tod >= c.start) /\ (wd = c.ed => tod <= c.end)

\* when an active schedule becomes inactive
Deactivate(c, wd, tod, Dev) ==
    LET late == "weekly_wrap_ends_day_late" \in Dev
        endonly == "weekly_initially_active" \in Dev     \* only "at/after the end day, after the end time"
                                                          \* is looked for, never "before the start"
    IN IF c.sd = c.ed /\ "weekly_equal_days_never" \in Dev THEN FALSE
       ELSE IF c.sd <= c.ed THEN (IF endonly THEN wd >= c.ed /\ tod > c.end ELSE ~InWin(c, wd, tod))
       ELSE IF endonly THEN wd < c.sd /\ (IF late THEN wd > c.ed ELSE wd >= c.ed) /\ tod > c.end
       ELSE ~InWin(c, wd, tod) /\ (late => wd # c.ed)

\* Schedule::test(prev) at local instant lt
Test(D, c, prev, lt, Dev) ==
    LET wd == DowOf(D, lt)  tod == TodOf(D, lt) IN
    IF IsDaily(c) THEN InRange(c, tod)
    ELSE IF ~prev THEN Activate(c, wd, tod, Dev) ELSE ~Deactivate(c, wd, tod, Dev)

\* The toggles the monitor knows as "the code": the current one (CodeDev) and the current one with either or
\* both of the two one-token repairs staged as fix patches (equal days `<=`, wrap end day `>=`).
KnownToggles == { {"weekly_equal_days_never", "weekly_needs_daily_window_to_start", "weekly_initially_active", "weekly_wrap_ends_day_late"},
                  {"weekly_needs_daily_window_to_start", "weekly_initially_active", "weekly_wrap_ends_day_late"},
                  {"weekly_equal_days_never", "weekly_needs_daily_window_to_start", "weekly_initially_active"},
                  {"weekly_needs_daily_window_to_start", "weekly_initially_active"} }
ASSUME KnownToggles = {CodeDev \ F : F \in SUBSET {"weekly_equal_days_never", "weekly_wrap_ends_day_late"}}
Explained(D, c, prev, lt, ret) == \E S \in KnownToggles : Test(D, c, prev, lt, S) = ret

\* which named deviation explains an observed result that differs from the window predicate: the first
\* singleton deviation whose toggle gives the observed result, "code_toggle" if only a combination does,
\* "" if none of the known toggles gives it
Explains(D, c, prev, lt, ret) ==
    LET one == {d \in CodeDev : Test(D, c, prev, lt, {d}) = ret}
        order == <<"weekly_equal_days_never", "weekly_wrap_ends_day_late", "weekly_initially_active",
                   "weekly_needs_daily_window_to_start">>
        hits == {i \in DOMAIN order : order[i] \in one}
    IN IF ~Explained(D, c, prev, lt, ret) THEN ""
       ELSE IF hits = {} THEN "code_toggle"
       ELSE order[CHOOSE i \in hits : \A j \in hits : i <= j]

\* ---- 3. weekday names --------------------------------------------------------------------------------
\* character codes; names in lower case
FullNames == << <<115,117,110,100,97,121>>, <<109,111,110,100,97,121>>, <<116,117,101,115,100,97,121>>,
                <<119,101,100,110,101,115,100,97,121>>, <<116,104,117,114,115,100,97,121>>,
                <<102,114,105,100,97,121>>, <<115,97,116,117,114,100,97,121>> >>
Lower(ch) == IF ch >= 65 /\ ch <= 90 THEN ch + 32 ELSE ch
LowerSeq(s) == [i \in DOMAIN s |-> Lower(s[i])]
Take(s, k) == SubSeq(s, 1, k)
HasPrefix(name, p) == Len(p) <= Len(name) /\ Take(name, Len(p)) = p

\* days whose name starts with the first k characters of l
Cands(l, k) == {d \in 0..6 : Len(l) >= k /\ HasPrefix(FullNames[d + 1], Take(l, k))}

\* decoded weekday 0..6, or -1: a single digit 0-6, or the unique day whose name begins with the first
\* one or two letters of the string (case-insensitive); nothing else
DecodeDow(s) ==
    IF Len(s) = 0 THEN -1
    ELSE IF Len(s) = 1 /\ s[1] >= 48 /\ s[1] <= 54 THEN s[1] - 48
    ELSE LET l == LowerSeq(s) IN
         IF Cardinality(Cands(l, 1)) = 1 THEN CHOOSE d \in Cands(l, 1) : TRUE
         ELSE IF Cardinality(Cands(l, 2)) = 1 THEN CHOOSE d \in Cands(l, 2) : TRUE
         ELSE -1

\* the string is (a prefix of) the day's name itself - no characters after the deciding prefix that
\* disagree with the name.  Strings that are decided by their prefix but continue differently ("mox")
\* are where the statement leaves room: the day or "invalid" are both accepted there (see T_Schedule).
IsNamePrefix(s, d) == d \in 0..6 /\ HasPrefix(FullNames[d + 1], LowerSeq(s))
=============================================================================
