------------------------------- MODULE Numeric -------------------------------
(* C08.  The numeric text conversions of fix8 transcribed next to their mathematical meaning:     *)
(*   itoa<int>       include/fix8/f8utils.hpp   digit loop with the mirrored digit table           *)
(*   fast_atoi<int>  include/fix8/f8utils.hpp   multiply-by-ten loop                               *)
(*   modp_dtoa       runtime/modp_numtoa.c      split into whole and scaled fraction, round, emit  *)
(* Meaning: the canonical decimal numeral of an integer; the exact decimal expansion of a binary   *)
(* fraction (long multiplication by ten, no floating point anywhere), correct rounding to p        *)
(* fraction digits with explicit tie detection, and the set of texts that denote the rounded       *)
(* value with at most p fraction digits.                                                           *)
(*                                                                                                 *)
(* A finite double of magnitude below 2^31 is the record [neg, w, limbs]:                          *)
(*      |x| = w + limbs[1]/4096 + limbs[2]/4096^2 + ...        (12-bit limbs, exact)               *)
(* TLC integers are 32 bit, so no quantity in this module exceeds 2^31 - 1: whole parts that may   *)
(* reach 2^31 after rounding are digit sequences.                                                  *)
EXTENDS Naturals, Integers, Sequences, FiniteSets, TLC, ChksumU32

\* ---- digits and strings -----------------------------------------------------------------------------
DigitStr == <<"0", "1", "2", "3", "4", "5", "6", "7", "8", "9">>
D(d) == DigitStr[d + 1]
Pow10 == <<1, 10, 100, 1000, 10000, 100000, 1000000, 10000000, 100000000, 1000000000>>
Ten(k) == Pow10[k + 1]
RECURSIVE Join(_)
Join(ds) == IF ds = <<>> THEN "" ELSE D(Head(ds)) \o Join(Tail(ds))
RECURSIVE JoinChars(_)
JoinChars(cs) == IF cs = <<>> THEN "" ELSE Head(cs) \o JoinChars(Tail(cs))
Reverse(s) == [i \in 1..Len(s) |-> s[Len(s) + 1 - i]]
AllZero(ds) == \A i \in DOMAIN ds : ds[i] = 0

MinInt32 == -2147483647 - 1
MaxInt32 == 2147483647

\* ==== integers: meaning ================================================================================
\* decimal digits (most significant first) of a natural number
RECURSIVE NatDigits(_)
NatDigits(n) == IF n < 10 THEN <<n>> ELSE Append(NatDigits(n \div 10), n % 10)
\* decimal digits of -n for n < 0, computed without ever negating n (INT_MIN has no negation)
TruncDiv10(v) == IF v >= 0 \/ v % 10 = 0 THEN v \div 10 ELSE (v \div 10) + 1     \* C++ '/' truncates
TruncRem10(v) == v - TruncDiv10(v) * 10                                          \* C++ '%': sign of v
RECURSIVE NegDigits(_)
NegDigits(n) == IF n > -10 THEN <<-n>> ELSE Append(NegDigits(TruncDiv10(n)), -TruncRem10(n))
\* the canonical decimal text of a 32-bit integer: optional '-', no leading zeros, "0" for zero
Canon(n) == IF n < 0 THEN "-" \o Join(NegDigits(n)) ELSE Join(NatDigits(n))

\* ==== itoa<int>(value, result, 10): transcription =========================================================
\* "zyxwvutsrqponmlkjihgfedcba9876543210123456789abcdefghijklmnopqrstuvwxyz"[35 + r]: the table is
\* mirrored around '0' so that the negative remainders of a negative value index the right digit
ItoaTable == <<"z","y","x","w","v","u","t","s","r","q","p","o","n","m","l","k","j","i","h","g","f","e","d","c","b","a",
               "9","8","7","6","5","4","3","2","1","0","1","2","3","4","5","6","7","8","9",
               "a","b","c","d","e","f","g","h","i","j","k","l","m","n","o","p","q","r","s","t","u","v","w","x","y","z">>
ItoaBegin(v) == [pc |-> "digits", value |-> v, tmp |-> 0, out |-> <<>>]
ItoaStep(s) ==
    CASE s.pc = "digits" ->      \* do { tmp = value; value /= 10; *ptr++ = table[35 + (tmp - value * 10)]; } while (value);
           LET v2 == TruncDiv10(s.value)
               ch == ItoaTable[35 + (s.value - v2 * 10) + 1]
           IN [s EXCEPT !.tmp = s.value, !.value = v2, !.out = Append(s.out, ch),
                        !.pc = IF v2 = 0 THEN "sign" ELSE "digits"]
      [] s.pc = "sign" ->        \* if (tmp_value < 0) *ptr++ = '-';
           [s EXCEPT !.out = IF s.tmp < 0 THEN Append(s.out, "-") ELSE s.out, !.pc = "reverse"]
      [] s.pc = "reverse" ->     \* the swap loop
           [s EXCEPT !.out = Reverse(s.out), !.pc = "done"]
      [] OTHER -> s
RECURSIVE ItoaRun(_)
ItoaRun(s) == IF s.pc = "done" THEN s ELSE ItoaRun(ItoaStep(s))
ItoaChars(v) == ItoaRun(ItoaBegin(v)).out
ItoaText(v) == JoinChars(ItoaChars(v))

\* ==== fast_atoi<int>(str): transcription =============================================================
CharCode(c) == CASE c = "-" -> 45 [] c = "+" -> 43 [] c = "." -> 46
                 [] OTHER -> 48 + (CHOOSE d \in 0..9 : DigitStr[d + 1] = c)
\* one loop iteration in 32-bit arithmetic: retval = (retval << 3) + (retval << 1) + *str - '0'
AtoiAcc(r, c) == Add32(Add32(Shl3(r), Shl1(r)), OfInt32(CharCode(c) - 48))
RECURSIVE AtoiLoop(_, _)
AtoiLoop(r, cs) == IF cs = <<>> THEN r ELSE AtoiLoop(AtoiAcc(r, Head(cs)), Tail(cs))
\* deviation atoi_no_sign (the code before the fix): every character is taken for a digit, so the '-' of
\* a negative number enters the sum as '-' - '0' = -3 (and shifting the negative accumulator is UB)
\* ideal / fixed code: a leading '-' is consumed, the magnitude is accumulated unsigned and negated
Atoi(dev, cs) ==
    IF "atoi_no_sign" \in dev THEN AsInt32(AtoiLoop(U32Zero, cs))
    ELSE IF cs # <<>> /\ Head(cs) = "-" THEN AsInt32(Sub32(U32Zero, AtoiLoop(U32Zero, Tail(cs))))
    ELSE AsInt32(AtoiLoop(U32Zero, cs))

\* ==== binary fractions in decimal: meaning ==============================================================
Limb == 4096
LimbsZero(ls) == \A i \in DOMAIN ls : ls[i] = 0
\* ls * 10 = carry digit + new fraction (one step of the long multiplication; exact)
MulTen(ls) ==
    LET RECURSIVE M(_, _, _)
        M(i, carry, acc) == IF i = 0 THEN [digit |-> carry, limbs |-> acc]
                            ELSE LET x == ls[i] * 10 + carry
                                 IN M(i - 1, x \div Limb, <<x % Limb>> \o acc)
    IN M(Len(ls), 0, <<>>)
\* the first p decimal digits of the fraction and what is left of it (still exact)
RECURSIVE DecExpand(_, _)
DecExpand(ls, p) == IF p = 0 THEN [digits |-> <<>>, rest |-> ls]
                    ELSE LET m == MulTen(ls)
                             r == DecExpand(m.limbs, p - 1)
                         IN [digits |-> <<m.digit>> \o r.digits, rest |-> r.rest]
\* the fraction compared with one half: "lt", "eq", "gt"
CmpHalf(ls) == IF ls = <<>> \/ ls[1] < Limb \div 2 THEN "lt"
               ELSE IF ls[1] > Limb \div 2 THEN "gt"
               ELSE IF LimbsZero(Tail(ls)) THEN "eq" ELSE "gt"
\* digit sequences as numbers
RECURSIVE DigitsValue(_)
DigitsValue(ds) == IF ds = <<>> THEN 0 ELSE DigitsValue(SubSeq(ds, 1, Len(ds) - 1)) * 10 + ds[Len(ds)]
\* add one to a digit sequence; [carry, digits] (carry = 1 iff it was all nines)
RECURSIVE IncDigits(_)
IncDigits(ds) == IF ds = <<>> THEN [carry |-> 1, digits |-> <<>>]
                 ELSE IF ds[Len(ds)] < 9 THEN [carry |-> 0, digits |-> [ds EXCEPT ![Len(ds)] = @ + 1]]
                 ELSE LET r == IncDigits(SubSeq(ds, 1, Len(ds) - 1))
                      IN [carry |-> r.carry, digits |-> Append(r.digits, 0)]
IncWhole(wd) == LET r == IncDigits(wd) IN IF r.carry = 1 THEN <<1>> \o r.digits ELSE r.digits

\* x rounded to p fraction digits: the decimals [w: whole digits, f: p fraction digits] that are nearest;
\* two of them exactly when x lies midway (either neighbour is accepted on an exact tie)
Down(x, p) == [w |-> NatDigits(x.w), f |-> DecExpand(x.limbs, p).digits]
Up(x, p) == LET d == Down(x, p)
                r == IncDigits(d.f)
            IN [w |-> IF r.carry = 1 THEN IncWhole(d.w) ELSE d.w, f |-> r.digits]
Rounded(x, p) == LET c == CmpHalf(DecExpand(x.limbs, p).rest)
                 IN CASE c = "lt" -> {Down(x, p)} [] c = "gt" -> {Up(x, p)} [] OTHER -> {Down(x, p), Up(x, p)}
\* the texts that denote sign * (w.f) with at most Len(f) fraction digits: trailing zeros may be dropped
\* (all of them: no fraction part at all); a zero value may or may not carry the sign
TextsOf(neg, dec) ==
    LET p == Len(dec.f)
        body == { Join(dec.w) \o (IF d = 0 THEN "" ELSE "." \o Join(SubSeq(dec.f, 1, d))) :
                    d \in {k \in 0..p : AllZero(SubSeq(dec.f, k + 1, p))} }
        zero == AllZero(dec.w) /\ AllZero(dec.f)
    IN IF ~neg THEN body
       ELSE IF zero THEN body \cup {"-" \o b : b \in body}
       ELSE {"-" \o b : b \in body}
\* C08, rendering clause: text is the correctly rounded decimal of x with at most p fraction digits
AcceptText(x, p, text) == \E dec \in Rounded(x, p) : text \in TextsOf(x.neg, dec)
\* the text is the *other* neighbour (one unit in the last place off): used to classify a rejection
OtherNeighbour(x, p, text) ==
    LET c == CmpHalf(DecExpand(x.limbs, p).rest)
    IN \/ c = "lt" /\ text \in TextsOf(x.neg, Up(x, p))
       \/ c = "gt" /\ text \in TextsOf(x.neg, Down(x, p))
\* how close the cut-off part is to one half without being one half: distance below 4096^-2 = 2^-24,
\* the zone in which a product of magnitude up to 10^9 rounded to 53 bits can land on the midpoint
NearMidpoint(x, p) ==
    LET r == DecExpand(x.limbs, p).rest
        pad == r \o <<0, 0>>
    IN /\ CmpHalf(r) # "eq"
       /\ \/ pad[1] = 2048 /\ pad[2] = 0
          \/ pad[1] = 2047 /\ pad[2] = 4095

\* a decimal numeral [neg, wh, wl, f, d]: value (wh * 100000 + wl) + f / 10^d; its text
DecText(t) == (IF t.neg THEN "-" ELSE "") \o Join(IF t.wh = 0 THEN NatDigits(t.wl)
                                                  ELSE NatDigits(t.wh) \o SubSeq(<<0, 0, 0, 0>> \o NatDigits(t.wl),
                                                                              Len(NatDigits(t.wl)), Len(NatDigits(t.wl)) + 4))
              \o (IF t.d = 0 THEN "" ELSE "." \o Join(SubSeq(<<0, 0, 0, 0, 0, 0, 0, 0>> \o NatDigits(t.f),
                                                             Len(NatDigits(t.f)) + 9 - t.d, Len(NatDigits(t.f)) + 8)))
\* C08, parsing clause.  r = [neg, wh, wl, limbs] is the exact value of the double returned for the
\* numeral t.  (|v| - |t|) * 10^d = e + rest with e an integer and rest in [0, 1) (limbs); ok = the whole
\* parts differ by at most one, so that everything fits 32-bit arithmetic
Scaled(v, t) ==
    LET dw == (v.wh - t.wh) * 100000 + (v.wl - t.wl)
        x == DecExpand(v.limbs, t.d)
        ok == dw \in {-1, 0, 1}
    IN [ok |-> ok, e |-> IF ok THEN dw * Ten(t.d) + (DigitsValue(x.digits) - t.f) ELSE 0, rest |-> x.rest]
\* sum of two fractions given as limbs: [carry, limbs]
AddFrac(a, b) ==
    LET n == IF Len(a) > Len(b) THEN Len(a) ELSE Len(b)
        pa == a \o [i \in 1..(n - Len(a)) |-> 0]
        pb == b \o [i \in 1..(n - Len(b)) |-> 0]
        RECURSIVE A(_, _, _)
        A(i, carry, acc) == IF i = 0 THEN [carry |-> carry, limbs |-> acc]
                            ELSE LET x == pa[i] + pb[i] + carry IN A(i - 1, x \div Limb, <<x % Limb>> \o acc)
    IN A(n, 0, <<>>)
SignOf(sc) == IF sc.e > 0 \/ (sc.e = 0 /\ ~LimbsZero(sc.rest)) THEN 1 ELSE IF sc.e = 0 THEN 0 ELSE -1
SumSign(s1, s2) == LET a == AddFrac(s1.rest, s2.rest) IN SignOf([e |-> s1.e + s2.e + a.carry, rest |-> a.limbs])
\* reading 1: within half a unit of the last printed decimal place of the numeral: |r - t| * 10^d <= 1/2
WithinHalfUnit(r, t) ==
    LET sc == Scaled(r, t)
        c == CmpHalf(sc.rest)
    IN sc.ok /\ (\/ sc.e = 0 /\ c \in {"lt", "eq"}
                 \/ sc.e = -1 /\ c \in {"eq", "gt"})
\* reading 2: within half a unit in the last place of the double: no neighbouring double (lo below, hi
\* above, in magnitude) is closer to the numeral than r
NearestDouble(r, lo, hi, t) ==
    LET sr == Scaled(r, t)  sl == Scaled(lo, t)  sh == Scaled(hi, t)
    IN sr.ok /\ sl.ok /\ sh.ok /\ (IF SignOf(sr) <= 0 THEN SumSign(sr, sh) >= 0 ELSE SumSign(sr, sl) <= 0)
\* the numeral lies between the doubles a <= b (in magnitude): with a, b the 8th neighbours of r this says
\* that r is only a few units in the last place away from the numeral
Between(a, b, t) ==
    LET sa == Scaled(a, t)  sb == Scaled(b, t) IN sa.ok /\ sb.ok /\ SignOf(sa) <= 0 /\ SignOf(sb) >= 0
\* fractions compared: a > b
LimbsGT(a, b) ==
    LET n == IF Len(a) > Len(b) THEN Len(a) ELSE Len(b)
        pa == a \o [i \in 1..(n - Len(a)) |-> 0]
        pb == b \o [i \in 1..(n - Len(b)) |-> 0]
    IN \E i \in 1..n : pa[i] > pb[i] /\ \A j \in 1..(i - 1) : pa[j] = pb[j]
\* the doubles around r are further apart than one unit of the last printed decimal place of t
\* ((hi - r) * 10^d > 1): there only reading 2 can be met
DoubleGridCoarser(r, hi, t) ==
    LET sr == Scaled(r, t)  sh == Scaled(hi, t)
    IN sr.ok /\ sh.ok /\ (sh.e - sr.e >= 2 \/ (sh.e - sr.e = 1 /\ LimbsGT(sh.rest, sr.rest)))
\* the statement is read as the disjunction of the two (whichever grid is coarser decides); the sign of
\* the numeral must be kept unless one of the two is zero
AcceptParse(r, lo, hi, t) ==
    LET tzero == t.wh = 0 /\ t.wl = 0 /\ t.f = 0
        rzero == r.wh = 0 /\ r.wl = 0 /\ LimbsZero(r.limbs)
    IN /\ (~tzero /\ ~rzero) => r.neg = t.neg
       /\ WithinHalfUnit(r, t) \/ NearestDouble(r, lo, hi, t)

\* ==== modp_dtoa(value, str, prec): transcription ===========================================================
(* Floating point in the code: `value - whole` is exact (Sterbenz), `(value - whole) * pow10[prec]` is  *)
(* rounded to a double.  The transcription computes the product exactly, so it *is* the code wherever  *)
(* the product is representable (e.g. 12-bit fractions: numerator below 2^42), and it is the code after *)
(* the fix (which recovers the rounding error of the product with fma) everywhere.  Deviations:         *)
(*   dtoa_exp_above_intmax  values above INT_MAX (but below 2^31) are printed by sprintf("%e")          *)
(*   dtoa_whole_overflow    ++whole on whole = INT_MAX is signed overflow (undefined)                   *)
Frac(x) == x.limbs
ModpDtoa(dev, x, p) ==
    LET e == DecExpand(Frac(x), p)
        frac0 == DigitsValue(e.digits)                   \* frac = (uint32)tmp
        c == CmpHalf(e.rest)                             \* diff = tmp - frac against 0.5
        up1 == c = "gt"
        roll == up1 /\ frac0 + 1 >= Ten(p)               \* rollover, e.g. 0.99 with prec 1 is 1.0
        frac == IF up1 THEN (IF roll THEN 0 ELSE frac0 + 1)
                ELSE IF c = "eq" /\ (frac0 = 0 \/ frac0 % 2 = 1) THEN frac0 + 1 ELSE frac0
        bumped == roll                                    \* ++whole happened
        above == x.w = MaxInt32 /\ ~LimbsZero(Frac(x))   \* value > thres_max
        ub == bumped /\ x.w = MaxInt32
        \* prec == 0: diff = value - whole (whole possibly already bumped, then diff < 0)
        c0 == IF bumped THEN "lt" ELSE CmpHalf(Frac(x))
        wdigits == LET w1 == IF bumped THEN IncWhole(NatDigits(x.w)) ELSE NatDigits(x.w)
                       odd == w1[Len(w1)] % 2 = 1
                   IN IF p = 0 /\ (c0 = "gt" \/ (c0 = "eq" /\ odd)) THEN IncWhole(w1) ELSE w1
        \* fraction digits, least significant first, as the do-while emits them (count, done)
        RECURSIVE Emit(_, _, _, _)
        Emit(fr, count, done, out) ==
            LET cnt == count - 1
                d == fr % 10
                out2 == IF d # 0 THEN Append(out, D(d)) ELSE IF done THEN Append(out, "0") ELSE out
                done2 == done \/ d # 0
            IN IF fr \div 10 # 0 THEN Emit(fr \div 10, cnt, done2, out2)
               ELSE IF ~done2 THEN Append(out2, "0")
               ELSE out2 \o [i \in 1..(IF cnt > 0 THEN cnt ELSE 0) |-> "0"]
        fracpart == IF p = 0 THEN <<>> ELSE Append(Emit(frac, p, FALSE, <<>>), ".")
        wholepart == [i \in 1..Len(wdigits) |-> D(wdigits[Len(wdigits) + 1 - i])]      \* reversed, as emitted
        sign == IF x.neg /\ ~(x.w = 0 /\ LimbsZero(Frac(x))) THEN <<"-">> ELSE <<>>
    IN IF ub /\ "dtoa_whole_overflow" \in dev THEN "<undefined behaviour>"
       ELSE IF above /\ "dtoa_exp_above_intmax" \in dev THEN "<exponent form>"
       ELSE JoinChars(Reverse(fracpart \o wholepart \o sign))
=============================================================================
