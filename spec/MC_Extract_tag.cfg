CONSTANTS
  Dev = {"unbounded_tag"}
  Lens = {0, 1, 30, 31, 32, 33, 2046, 2047, 2048, 2049}
  MaxFields = 4
INIT InitB
NEXT NextB
INVARIANT WritesInBounds
CHECK_DEADLOCK FALSE
