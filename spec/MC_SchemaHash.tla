---------------------------- MODULE MC_SchemaHash ----------------------------
(* C14: definitions of one count field *constructed* to collide under the compiler's structural hash. *)
(*                                                                                                    *)
(* rothash(r, v) = r ^ (r >> 2) ^ (r << 5) ^ (r << 13) ^ v ^ 0x80001801 = Lin(r) ^ v ^ K, and          *)
(* group_hash folds it over the member numbers in ascending order.  For a common prefix p of smaller   *)
(* members and definitions p + {a, b}, p + {c, d} (a < b, c < d) the hashes are equal iff              *)
(*     d = Lin(fold(p + a)) ^ Lin(fold(p + c)) ^ b                                                     *)
(* so d is *computed*; TLC then verifies on the full transcription (SchemaOps.GroupHash) that the two  *)
(* definitions collide (invariant SolvedCollides), builds schemas around every usable solution in      *)
(* several shapes and checks on each of them ValidSchema, OwnTraits and DistinctDefsDistinctTraits for  *)
(* the group-table design with deviation set Dev.  Each schema is exported (LEAF) for the real f8c.     *)
(* One state per candidate (p, a, b, c, shape); there are no transitions.                              *)
EXTENDS SchemaComp

CONSTANTS As, Bs, Ps, Shapes, CountA, CountB, Suffix

VARIABLES t
NoSeq == <<>>
NoOptions(i) == {}
PickAll(X) == X
hvars == <<t, S, hist, done, cur>>

\* shapes with three definitions of the count field have a third first member e (0 otherwise)
Three == {"triple", "adjacent_first", "adjacent_last"}
Cands == { [p |-> p, a |-> a, b |-> b, c |-> c, e |-> e, shape |-> sh] : p \in Ps, a \in As, b \in Bs, c \in As, e \in As \cup {0}, sh \in Shapes }

Pre(x) == IF x.p = 0 THEN <<>> ELSE <<UOf(x.p)>>
Solve(x) == UXor(UXor(Lin(FoldHash(U(0, 0), Pre(x) \o <<UOf(x.a)>>)), Lin(FoldHash(U(0, 0), Pre(x) \o <<UOf(x.c)>>))), UOf(x.b))
D(x) == Solve(x).l
Reserved == { SkelFields[i].num : i \in DOMAIN SkelFields } \cup {CountA, CountB, Suffix}
\* third definition p + {e, f}: "triple" collides with the other two; "adjacent_*" hashes to their hash + 1, the key the
\* probing compiler hands to the second of the colliding pair
H1(x) == RotHash(FoldHash(U(0, 0), Pre(x) \o <<UOf(x.a)>>), UOf(x.b))
SolveF(x) == IF x.shape = "triple" THEN UXor(UXor(Lin(FoldHash(U(0, 0), Pre(x) \o <<UOf(x.a)>>)), Lin(FoldHash(U(0, 0), Pre(x) \o <<UOf(x.e)>>))), UOf(x.b))
             ELSE UXor(UXor(Lin(FoldHash(U(0, 0), Pre(x) \o <<UOf(x.e)>>)), RotK), UInc(H1(x)))
F3(x) == SolveF(x).l
Usable3(x) == IF x.shape \notin Three THEN x.e = 0
              ELSE /\ x.e \notin {0, x.a, x.c, x.p} /\ x.p < x.e
                   /\ SolveF(x).h = 0 /\ F3(x) > x.e /\ F3(x) \notin {x.a, x.b, x.c, x.p, x.e} \cup Reserved /\ F3(x) < Suffix
Usable2(x) == /\ x.a # x.c /\ x.a < x.b
             /\ Solve(x).h = 0 /\ D(x) > x.c /\ D(x) \notin {x.a, x.b, x.c, x.p} \cup Reserved /\ D(x) < Suffix
             /\ x.b \notin Reserved /\ x.p < x.a /\ x.p < x.c /\ x.p \notin Reserved

Usable(x) == /\ Usable2(x) /\ Usable3(x) /\ (x.shape \in Three => F3(x) # D(x))

Mem(n) == [n |-> n, m |-> 1, g |-> FALSE, sub |-> <<>>]
PreM(x) == IF x.p = 0 THEN <<>> ELSE <<Mem(x.p)>>
Def1(x) == PreM(x) \o <<Mem(x.a), Mem(x.b)>>
Def2(x) == PreM(x) \o <<Mem(x.c), Mem(D(x))>>
Def3(x) == PreM(x) \o <<Mem(x.e), Mem(F3(x))>>
\* the computed d makes the two definitions collide under the transcribed hash, and they differ in members
SolvedCollides == Usable(t) => /\ GroupHash(Def1(t)) = GroupHash(Def2(t)) /\ Nums(Def1(t)) # Nums(Def2(t))
                               /\ t.shape = "triple" => (GroupHash(Def3(t)) = GroupHash(Def1(t)) /\ Nums(Def3(t)) \notin {Nums(Def1(t)), Nums(Def2(t))})
                               /\ t.shape \in Three \ {"triple"} => GroupHash(Def3(t)) = UInc(GroupHash(Def1(t)))

\* ---- schemas around a collision ----------------------------------------------------------------------
Fs(x) == (IF x.p = 0 THEN <<>> ELSE <<x.p>>) \o <<x.a, x.b, x.c, D(x)>> \o (IF x.shape \in Three THEN <<x.e, F3(x)>> ELSE <<>>)
PreE(x) == IF x.p = 0 THEN <<>> ELSE <<FieldE(x.p, TRUE)>>
E1(x) == PreE(x) \o <<FieldE(x.a, TRUE), FieldE(x.b, FALSE)>>
E2(x) == PreE(x) \o <<FieldE(x.c, TRUE), FieldE(D(x), FALSE)>>
E3(x) == PreE(x) \o <<FieldE(x.e, TRUE), FieldE(F3(x), FALSE)>>
\* "pair": the two definitions under count field CountA in two messages
\* "suffix": both definitions get a common larger member appended (3- and 4-field variants)
\* "nested": two parents with identical members whose nested groups (count field CountB) are the colliding pair:
\*           the definitions differ only in their nested groups
\* "swapped": as pair, the colliding definition first
\* "triple": three messages, three definitions with one hash
\* "adjacent_first" / "adjacent_last": the colliding pair and a definition that hashes to their hash + 1, registered
\*           before / after the pair
Items(x, which) ==
    LET e == IF which = 1 THEN E1(x) ELSE E2(x) IN
    CASE x.shape = "pair" -> <<GroupE(CountA, TRUE, e)>>
      [] x.shape \in {"triple", "adjacent_last"} -> <<GroupE(CountA, TRUE, CASE which = 1 -> E1(x) [] which = 2 -> E2(x) [] OTHER -> E3(x))>>
      [] x.shape = "adjacent_first" -> <<GroupE(CountA, TRUE, CASE which = 1 -> E3(x) [] which = 2 -> E1(x) [] OTHER -> E2(x))>>
      [] x.shape = "swapped" -> <<GroupE(CountA, TRUE, IF which = 1 THEN E2(x) ELSE E1(x))>>
      [] x.shape = "suffix" -> <<GroupE(CountA, FALSE, Append(e, FieldE(Suffix, FALSE)))>>
      [] x.shape = "nested" -> <<GroupE(CountA, TRUE, <<FieldE(Suffix, TRUE), GroupE(CountB, FALSE, e)>>)>>
FDecl(n) == [num |-> n, name |-> "F" \o ToString(n), type |-> "STRING", vals |-> <<>>]
CDecl(n) == [num |-> n, name |-> "NoG" \o ToString(n), type |-> "NUMINGROUP", vals |-> <<>>]
UserFields(x) == [i \in DOMAIN Fs(x) |-> FDecl(Fs(x)[i])] \o <<FDecl(Suffix), CDecl(CountA), CDecl(CountB)>>
SchemaFor(x) ==
    LET i35 == CHOOSE i \in DOMAIN SkelFields : SkelFields[i].num = 35 IN
    [Skeleton EXCEPT !.fields = [@ EXCEPT ![i35].vals = @ \o << <<"UA", "MSG_UA">>, <<"UB", "MSG_UB">> >>
                                                                \o (IF x.shape \in Three THEN << <<"UC", "MSG_UC">> >> ELSE <<>>)] \o UserFields(x),
                     !.msgs = @ \o << [mt |-> "UA", name |-> "MsgUA", admin |-> FALSE, items |-> Items(x, 1)],
                                      [mt |-> "UB", name |-> "MsgUB", admin |-> FALSE, items |-> Items(x, 2)] >>
                                \o (IF x.shape \in Three THEN << [mt |-> "UC", name |-> "MsgUC", admin |-> FALSE, items |-> Items(x, 3)] >> ELSE <<>>)]

HInit == /\ t \in { x \in Cands : Usable(x) }
         /\ S = SchemaFor(t) /\ hist = <<"Collision_" \o t.shape>> /\ done = TRUE /\ cur = 0
HNext == UNCHANGED hvars
\* witness: there are usable solutions (must be violated)
NoUsable == ~Usable(t)
=============================================================================
