CONSTANTS
  MaxLen = 14
INIT AInit0
NEXT ANext
INVARIANT ATotal
CONSTRAINT ABound
CONSTRAINT AEdge
VIEW AView
CHECK_DEADLOCK FALSE
