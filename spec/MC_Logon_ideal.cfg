CONSTANTS
  Dev = {}
SPECIFICATION Spec
INVARIANT MonitorAccepts
CONSTRAINT Leaf
CHECK_DEADLOCK FALSE
