CONSTANTS
  MaxEl = 1
  NegInts = FALSE
  Dev = {"bodylen_short"}
SPECIFICATION Spec
INVARIANT PositionOrdered
INVARIANT WireWellFormed
INVARIANT RoundTrip
INVARIANT CloneSame
VIEW View
CHECK_DEADLOCK FALSE
