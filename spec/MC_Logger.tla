----------------------------- MODULE MC_Logger -----------------------------
(* The logger design as a transition system over the step functions of Logger.tla.                *)
(*   Grain = "stmt": one action per statement of the consumer loop / of stop(); every interleaving *)
(*                   of NP producers x NLines lines (each at an enabled or a disabled level) with  *)
(*                   stop() beginning at any point, including while producers are still running.   *)
(*   Grain = "seam": the consumer moves from park position to park position (RunC), stop() runs up *)
(*                   to its join (RunX).  This is the grain the probe can enforce on the real      *)
(*                   threads; with VIEW the run prints one shortest schedule per (state, step)     *)
(*                   edge - the transition cover replayed on the real FileLogger.                  *)
EXTENDS Logger, Json

CONSTANTS NP, NLines, Dev, Grain, Lvls,     \* Lvls: the level choices a submit has (TRUE = enabled)
          TwoPhase                          \* producers may sit between the two halves of a push (Reserve / Publish)
VARIABLES s, sched

P == 1..NP
vars == <<s, sched>>
Rec(a, p, en) == [a |-> a, p |-> p, en |-> en]
Log(st) == sched' = IF Grain = "seam" THEN Append(sched, st) ELSE sched

Init == /\ s = IF Grain = "seam" THEN ToPark(S0(P), Dev) ELSE S0(P)
        /\ sched = <<>>

Submit(p, en) == /\ s.nsub[p] < NLines /\ s.xpc # "returned" /\ ~Parked(s, p) /\ (en => CanPush(s))
                 /\ s' = DoSubmit(s, p, en, Dev) /\ Log(Rec("S", p, IF en THEN 1 ELSE 0))

Reserve(p) == /\ TwoPhase /\ s.nsub[p] < NLines /\ s.xpc # "returned" /\ ~Parked(s, p) /\ CanPush(s)
              /\ s' = DoReserve(s, p) /\ Log(Rec("R", p, 1))
Publish(p) == /\ Parked(s, p) /\ s' = DoPublish(s, p, Dev) /\ Log(Rec("P", p, 0))
Producers == \E p \in P : Publish(p)

\* statement grain
XReq == s.xpc = "idle" /\ s' = DoXReq(s) /\ UNCHANGED sched
XEnq == s.xpc = "enq" /\ CanPush(s) /\ s' = DoXEnq(s) /\ UNCHANGED sched
XJoin == CanJoin(s) /\ s' = DoXJoin(s) /\ Log(Rec("J", 0, 0))
CCheck == s.cpc = "check" /\ s' = DoCCheck(s, Dev) /\ UNCHANGED sched
CPop == s.cpc = "pop" /\ s' = DoCPop(s, Dev) /\ UNCHANGED sched
CWrite == s.cpc = "write" /\ s' = DoCWrite(s) /\ UNCHANGED sched
CSleep == s.cpc = "sleep" /\ s' = DoCSleep(s) /\ UNCHANGED sched

\* seam grain
X == s.xpc = "idle" /\ CanPush(s) /\ s' = RunX(s) /\ Log(Rec("X", 0, 0))
C == s.cpc \in {"sleep", "write"} /\ s' = RunC(s, Dev) /\ Log(Rec("C", 0, 0))

Consumer == IF Grain = "stmt" THEN CCheck \/ CPop \/ CWrite \/ CSleep ELSE C
Stopper == (Grain = "stmt" /\ XEnq) \/ XJoin
Next == \/ \E p \in P, en \in Lvls : Submit(p, en)
        \/ \E p \in P : Reserve(p) \/ Publish(p)
        \/ IF Grain = "stmt" THEN XReq ELSE X
        \/ Consumer \/ Stopper

\* the consumer thread and a thread that is inside stop() keep running; nobody is obliged to call stop()
\* a producer inside a push finishes it
Spec == Init /\ [][Next]_vars /\ WF_vars(Consumer) /\ WF_vars(Stopper) /\ WF_vars(Producers)

\* ---- C28 -----------------------------------------------------------------------------------------
InvExactlyOnce == ExactlyOnce(s)
InvDisabledAbsent == DisabledAbsent(s)
InvProducerOrder == ProducerOrder(s)
InvSeqConsecutive == SeqConsecutive(s)
InvRetIffAccepted == RetIffAccepted(s)
InvStopComplete == StopComplete(s)
\* stop() does return (a design that waits for something that never comes would satisfy the rest vacuously)
StopReturns == (s.xpc \in {"enq", "join"}) ~> (s.xpc = "returned")

\* witnesses (must be *violated*): the model does contain a stop that overtakes queued lines, and a
\* stop that returns with every producer's lines written
Reach_StopWithBacklog == ~(s.xpc = "join" /\ Len(s.q) > 2)
Reach_PopFailsWithBacklog == ~(s.cpc = "sleep" /\ s.flag /\ Len(s.q) > 2 /\ s.unpub # NoSub)
Reach_AllWritten == ~(s.xpc = "returned" /\ Len(s.file) = NP * NLines)

\* ---- schedule export (seam grain) ------------------------------------------------------------------
Edge == PrintT("LEAF " \o ToJson(sched))
\* the ghost bookkeeping (who submitted what with which result) and the file written so far do not influence
\* what the threads can do next: the cover is taken over the control state and the queue content
View == [q |-> s.q, nsub |-> s.nsub, cpc |-> s.cpc, cur |-> s.cur, xpc |-> s.xpc, flag |-> s.flag, unpub |-> DOMAIN s.unpub]
=============================================================================
