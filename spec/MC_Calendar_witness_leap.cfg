CONSTANTS
 Dev = {}
 Family = "walk"
INIT Init
NEXT Next
CHECK_DEADLOCK FALSE
INVARIANTS NeverLeapDay
