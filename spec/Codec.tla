-------------------------------- MODULE Codec --------------------------------
(* Design spec of the fix8 message codec (DESIGN.md 5.1) for C01, C02 and C11.                      *)
(*                                                                                                  *)
(* A small abstract schema with the shape of a real one: header {8, 9, 35 derived; 34 mandatory;    *)
(* 50 optional}, body {55 mandatory; 11 optional; group 73 -> G}, G {67 first; 66 optional; nested  *)
(* group 78 -> N}, N {80 first; 79 optional}, trailer {93 optional; 10 derived}.  Tags are chosen   *)
(* so that tag order and schema position order disagree in every container.                        *)
(*                                                                                                  *)
(* Build actions add one field / one group / one group element at a time, in any order             *)
(* (MessageBase::add_field keeps a position-keyed multimap: Insert).  Encode is Message::encode     *)
(* (runtime/message.cpp): header without the suppressed 8 and 9, body, trailer without 10, then the *)
(* BeginString / BodyLength / CheckSum fix-up.  Decode is Message::factory -> Message::decode ->    *)
(* MessageBase::decode / decode_group, token by token.  Clone, CopyLegal and MoveLegal are          *)
(* Message::clone and MessageBase::copy_legal / move_legal into a deep-constructed empty message.   *)
(*                                                                                                  *)
(* TLC proves for every message shape within MaxEl: RoundTrip (C01), WireWellFormed (C02, the very *)
(* operator the trace monitor applies to real encodings), CloneSame (C11), and exports every        *)
(* complete build history as a replay input (LEAF lines).  Dev names departures from the ideal      *)
(* design; each must break an invariant (vacuity guard, run by lib/props/c0x.py).                   *)
EXTENDS CodecOps, Json

CONSTANTS MaxEl,     \* elements per repeating group: 0..MaxEl
          NegInts,   \* TRUE: the integer field 11 also takes a negative value
          Dev        \* subset of {"pos_by_insertion", "count_after_elements", "bodylen_short",
                     \*   "chksum_skips_preamble", "neg_int_parse", "copy_skips_nested", "move_leaves_group"}

VARIABLES msg,       \* the message under construction: [h, b, t : container]
          hist,      \* build operations so far (replay input; hidden from the state by VIEW)
          phase,     \* "build" -> "wire" -> "dec" -> "re" -> "done"
          wire,      \* encoded message: sequence of <<tag, value bytes>>
          dec,       \* result of decoding wire: [ok, m]
          wire2,     \* re-encoding of dec.m
          xfer       \* [cl, cp, mv]: clone, copy_legal target, move_legal target

vars == <<msg, hist, phase, wire, dec, wire2, xfer>>

\* ---- the schema ----------------------------------------------------------------------------------
F(p, m, g) == <<p, m, g>>
Sch == [hdr |-> "H", trl |-> "T", msgs |-> [D |-> "B"],
        defs |-> [H |-> [first |-> 8,  f |-> ("8" :> F(1, 1, "")) @@ ("9" :> F(2, 1, "")) @@ ("35" :> F(3, 1, ""))
                                              @@ ("34" :> F(4, 1, "")) @@ ("50" :> F(5, 0, ""))],
                  B |-> [first |-> 55, f |-> ("55" :> F(1, 1, "")) @@ ("11" :> F(2, 0, "")) @@ ("73" :> F(3, 0, "G"))],
                  G |-> [first |-> 67, f |-> ("67" :> F(1, 1, "")) @@ ("66" :> F(2, 0, "")) @@ ("78" :> F(3, 0, "N"))],
                  N |-> [first |-> 80, f |-> ("80" :> F(1, 1, "")) @@ ("79" :> F(2, 0, ""))],
                  T |-> [first |-> 93, f |-> ("93" :> F(1, 0, "")) @@ ("10" :> F(2, 1, ""))]]]
TagsIn(cid) == CASE cid = "H" -> {8, 9, 35, 34, 50} [] cid = "B" -> {55, 11, 73} [] cid = "G" -> {67, 66, 78}
                 [] cid = "N" -> {80, 79} [] cid = "T" -> {93, 10}
Pos(cid, t) == Ent(Sch, cid, t)[1]
Mand(cid, t) == Ent(Sch, cid, t)[2] = 1
Grp(cid, t) == Ent(Sch, cid, t)[3]
Suppressed(cid) == CASE cid = "H" -> {8, 9} [] cid = "T" -> {10} [] OTHER -> {}

\* ---- bytes ---------------------------------------------------------------------------------------
RECURSIVE DigitsOf(_)
DigitsOf(n) == IF n < 10 THEN <<48 + n>> ELSE DigitsOf(n \div 10) \o <<48 + (n % 10)>>
RECURSIVE SeqSumB(_)
SeqSumB(s) == IF s = <<>> THEN 0 ELSE Head(s) + SeqSumB(Tail(s))
IsDigits(v) == v # <<>> /\ \A i \in DOMAIN v : v[i] \in 48..57
RECURSIVE NumOf(_)
NumOf(v) == IF v = <<>> THEN 0 ELSE NumOf(SubSeq(v, 1, Len(v) - 1)) * 10 + (v[Len(v)] - 48)
IVal(v) == IF IsDigits(v) /\ Len(v) <= 9 THEN NumOf(v) ELSE -1
\* what the tokenizer of lib/codec_common.py reports for the token <<tag, value bytes>>
Obs(tok) == <<tok[1], Len(DigitsOf(tok[1])), SeqSumB(DigitsOf(tok[1])), Len(tok[2]), SeqSumB(tok[2]), IVal(tok[2])>>
ObsAll(w) == [i \in DOMAIN w |-> Obs(w[i])]
Pad3(n) == <<48 + (n \div 100), 48 + ((n \div 10) % 10), 48 + (n % 10)>>

\* text -> value -> text of an integer field.  Ideal: identity on canonical texts.  neg_int_parse:
\* fast_atoi has no sign handling, '-' is folded in as the digit '-' - '0' = -3 (f8utils.hpp:626).
RECURSIVE FoldAtoi(_, _)
FoldAtoi(v, acc) == IF v = <<>> THEN acc ELSE FoldAtoi(Tail(v), acc * 10 + (Head(v) - 48))
Itoa(n) == IF n < 0 THEN <<45>> \o DigitsOf(-n) ELSE DigitsOf(n)
ParseInt(v) == IF "neg_int_parse" \in Dev THEN Itoa(FoldAtoi(v, 0)) ELSE v
IntTags == {11}
Store(t, v) == IF t \in IntTags THEN ParseInt(v) ELSE v

\* ---- containers ----------------------------------------------------------------------------------
Has(fs, t) == \E i \in DOMAIN fs : fs[i][1] = t
\* MessageBase::add_field: _pos is a multimap keyed by schema position
Insert(fs, f, cid) ==
    IF "pos_by_insertion" \in Dev THEN Append(fs, f)
    ELSE LET k == Cardinality({i \in DOMAIN fs : Pos(cid, fs[i][1]) <= Pos(cid, f[1])})
         IN SubSeq(fs, 1, k) \o <<f>> \o SubSeq(fs, k + 1, Len(fs))
Replace(fs, t, f) == [i \in DOMAIN fs |-> IF fs[i][1] = t THEN f ELSE fs[i]]

RECURSIVE Complete(_, _)
Complete(fs, cid) ==
    /\ \A t \in TagsIn(cid) : Mand(cid, t) => Has(fs, t)
    /\ \A i \in DOMAIN fs : \A j \in DOMAIN fs[i][3] : Complete(fs[i][3][j], Grp(cid, fs[i][1]))
RECURSIVE Sorted(_, _)
Sorted(fs, cid) ==
    /\ \A i \in 1..(Len(fs) - 1) : Pos(cid, fs[i][1]) < Pos(cid, fs[i + 1][1])
    /\ \A i \in DOMAIN fs : \A j \in DOMAIN fs[i][3] : Sorted(fs[i][3][j], Grp(cid, fs[i][1]))

\* The containers a builder can touch: the three sections, the last element of group 73 ("G") and the
\* last element of group 78 inside it ("N").  Earlier elements are finished (Complete) before the
\* next one is appended, as a program filling one element after the other does.
Lvls == {"H", "B", "T", "G", "N"}
Sec(l) == CASE l = "H" -> "h" [] l = "B" -> "b" [] l = "T" -> "t"
LastEl(f) == f[3][Len(f[3])]
Exists(m, l) ==
    CASE l \in {"H", "B", "T"} -> TRUE
      [] l = "G" -> Has(m.b, 73) /\ FieldOf(m.b, 73)[3] # <<>>
      [] l = "N" -> /\ Has(m.b, 73) /\ FieldOf(m.b, 73)[3] # <<>>
                    /\ LET g == LastEl(FieldOf(m.b, 73)) IN Has(g, 78) /\ FieldOf(g, 78)[3] # <<>>
GetC(m, l) ==
    CASE l \in {"H", "B", "T"} -> m[Sec(l)]
      [] l = "G" -> LastEl(FieldOf(m.b, 73))
      [] l = "N" -> LastEl(FieldOf(LastEl(FieldOf(m.b, 73)), 78))
SetLast(f, c) == <<f[1], f[2], [j \in DOMAIN f[3] |-> IF j = Len(f[3]) THEN c ELSE f[3][j]]>>
SetC(m, l, c) ==
    CASE l \in {"H", "B", "T"} -> [m EXCEPT ![Sec(l)] = c]
      [] l = "G" -> [m EXCEPT !.b = Replace(m.b, 73, SetLast(FieldOf(m.b, 73), c))]
      [] l = "N" -> LET g == LastEl(FieldOf(m.b, 73))
                        g2 == Replace(g, 78, SetLast(FieldOf(g, 78), c))
                    IN [m EXCEPT !.b = Replace(m.b, 73, SetLast(FieldOf(m.b, 73), g2))]
\* path of a container for the replay driver: section, then (group tag, 0-based element index) pairs
PathOf(m, l) ==
    CASE l \in {"H", "B", "T"} -> <<Sec(l)>>
      [] l = "G" -> <<"b", 73, Len(FieldOf(m.b, 73)[3]) - 1>>
      [] l = "N" -> <<"b", 73, Len(FieldOf(m.b, 73)[3]) - 1, 78, Len(FieldOf(LastEl(FieldOf(m.b, 73)), 78)[3]) - 1>>
\* value of a plain field: unique per path, so that a codec mixing up elements is seen
ValOf(m, l, t) ==
    CASE l \in {"H", "B", "T"} -> DigitsOf(t)
      [] l = "G" -> DigitsOf(t) \o DigitsOf(Len(FieldOf(m.b, 73)[3]))
      [] l = "N" -> DigitsOf(t) \o DigitsOf(Len(FieldOf(m.b, 73)[3])) \o DigitsOf(Len(FieldOf(LastEl(FieldOf(m.b, 73)), 78)[3]))

Fix42 == <<70, 73, 88, 46, 52, 46, 50>>
Empty == [h |-> <<<<8, Fix42, <<>>>>, <<9, <<48>>, <<>>>>, <<35, <<>>, <<>>>>>>, b |-> <<>>, t |-> <<<<10, <<>>, <<>>>>>>]
CidOf(l) == l

\* ---- encoder (Message::encode, MessageBase::encode, encode_group) ---------------------------------
RECURSIVE EncC(_, _, _), EncEls(_, _)
EncEls(els, gcid) == IF els = <<>> THEN <<>> ELSE EncC(Head(els), gcid, {}) \o EncEls(Tail(els), gcid)
EncC(fs, cid, sup) ==
    IF fs = <<>> THEN <<>>
    ELSE LET f == Head(fs)
             els == IF Grp(cid, f[1]) # "" /\ IVal(f[2]) > 0 THEN EncEls(f[3], Grp(cid, f[1])) ELSE <<>>
             one == IF f[1] \in sup THEN <<>>
                    ELSE IF "count_after_elements" \in Dev THEN els \o <<<<f[1], f[2]>>>>
                    ELSE <<<<f[1], f[2]>>>> \o els
         IN one \o EncC(Tail(fs), cid, sup)
RECURSIVE BytesOfW(_), SumOfW(_)
BytesOfW(w) == IF w = <<>> THEN 0 ELSE TokBytes(Obs(Head(w))) + BytesOfW(Tail(w))
SumOfW(w) == IF w = <<>> THEN 0 ELSE TokSum(Obs(Head(w))) + SumOfW(Tail(w))
EncodeMsg(m) ==
    LET hdr == Replace(m.h, 35, <<35, <<68>>, <<>>>>)              \* _header->get_msg_type()->set(_msgType)
        payload == EncC(hdr, "H", Suppressed("H")) \o EncC(m.b, "B", {}) \o EncC(m.t, "T", Suppressed("T"))
        msgLen == BytesOfW(payload) - (IF "bodylen_short" \in Dev THEN 1 ELSE 0)
        pre == <<<<8, FieldOf(m.h, 8)[2]>>, <<9, DigitsOf(msgLen)>>>>
        chk == (IF "chksum_skips_preamble" \in Dev THEN SumOfW(payload) ELSE SumOfW(pre \o payload)) % 256
    IN pre \o payload \o <<<<10, Pad3(chk)>>>>

\* ---- decoder (Message::factory, Message::decode, MessageBase::decode, decode_group) ---------------
\* All return [i |-> next token index, c |-> container (fields in arrival order), err |-> "" or reason].
\* lim: last token index the section may consume (the trailing CheckSum field is cut off by `ignore`).
RECURSIVE DecC(_, _, _, _, _), DecG(_, _, _, _, _), DecEl(_, _, _, _, _)
DecC(w, i, lim, cid, c) ==
    IF i > lim \/ w[i][1] \notin TagsIn(cid) THEN [i |-> i, c |-> c, err |-> ""]
    ELSE IF Has(c, w[i][1]) THEN [i |-> i, c |-> c, err |-> "duplicate"]
    ELSE LET t == w[i][1]
             v == Store(t, w[i][2])
         IN IF Grp(cid, t) # "" /\ IVal(v) > 0
            THEN LET r == DecG(w, i + 1, lim, Grp(cid, t), <<>>) IN
                 IF r.err # "" THEN [i |-> r.i, c |-> c, err |-> r.err]
                 ELSE DecC(w, r.i, lim, cid, Append(c, <<t, v, r.c>>))
            ELSE DecC(w, i + 1, lim, cid, Append(c, <<t, v, <<>>>>))
\* one element: fields until a tag repeats (next element), is foreign (group ends: more = FALSE) or input ends
DecEl(w, i, lim, gcid, c) ==
    IF i > lim THEN [i |-> i, c |-> c, err |-> "", more |-> FALSE]
    ELSE LET t == w[i][1] IN
         IF Has(c, t) THEN [i |-> i, c |-> c, err |-> "", more |-> TRUE]
         ELSE IF c = <<>> /\ (t \notin TagsIn(gcid) \/ t # FirstOf(Sch, gcid))
              THEN [i |-> i, c |-> c, err |-> "first_field_of_element", more |-> FALSE]
         ELSE IF t \notin TagsIn(gcid) THEN [i |-> i, c |-> c, err |-> "", more |-> FALSE]
         ELSE LET v == Store(t, w[i][2]) IN
              IF Grp(gcid, t) # "" /\ IVal(v) > 0
              THEN LET r == DecG(w, i + 1, lim, Grp(gcid, t), <<>>) IN
                   IF r.err # "" THEN [i |-> r.i, c |-> c, err |-> r.err, more |-> FALSE]
                   ELSE DecEl(w, r.i, lim, gcid, Append(c, <<t, v, r.c>>))
              ELSE DecEl(w, i + 1, lim, gcid, Append(c, <<t, v, <<>>>>))
DecG(w, i, lim, gcid, els) ==
    IF i > lim THEN [i |-> i, c |-> els, err |-> ""]
    ELSE LET r == DecEl(w, i, lim, gcid, <<>>) IN
         IF r.err # "" THEN [i |-> r.i, c |-> els, err |-> r.err]
         ELSE IF \E t \in TagsIn(gcid) : Mand(gcid, t) /\ ~Has(r.c, t) THEN [i |-> r.i, c |-> els, err |-> "missing_mandatory"]
         ELSE IF r.more THEN DecG(w, r.i, lim, gcid, Append(els, r.c))
         ELSE [i |-> r.i, c |-> Append(els, r.c), err |-> ""]
MissingIn(c, cid) == \E t \in TagsIn(cid) : Mand(cid, t) /\ ~Has(c, t)
DecodeMsg(w) ==
    LET n == Len(w) IN
    IF n < 4 \/ w[1][1] # 8 \/ w[2][1] # 9 \/ w[3][1] # 35 THEN [ok |-> FALSE, m |-> Empty, err |-> "header"]
    ELSE LET h0 == <<<<8, Fix42, <<>>>>, <<9, w[2][2], <<>>>>, <<35, w[3][2], <<>>>>>>
             h == DecC(w, 4, n, "H", h0)
             b == DecC(w, h.i, n, "B", <<>>)
             t == DecC(w, b.i, n - 1, "T", <<<<10, w[n][2], <<>>>>>>)
             err == IF h.err # "" THEN h.err ELSE IF b.err # "" THEN b.err ELSE IF t.err # "" THEN t.err
                    ELSE IF MissingIn(h.c, "H") \/ MissingIn(b.c, "B") \/ MissingIn(t.c, "T") THEN "missing_mandatory"
                    ELSE IF w[n][1] # 10 \/ w[n][2] # Pad3(SumOfW(SubSeq(w, 1, n - 1)) % 256) THEN "checksum"
                    ELSE ""
         IN [ok |-> err = "", m |-> [h |-> h.c, b |-> b.c, t |-> t.c], err |-> err]

\* ---- clone / copy_legal / move_legal ---------------------------------------------------------------
\* copy_legal walks the source's presence table (tag order) and add_field()s a copy of every present
\* field that the target does not have yet; group elements are copied into deep-created elements.
RECURSIVE CopyC(_, _, _), CopyEls(_, _)
SortedTags(S) == LET RECURSIVE Srt(_)
                     Srt(X) == IF X = {} THEN <<>> ELSE <<MinOf(X)>> \o Srt(X \ {MinOf(X)})
                 IN Srt(S)
CopyEls(els, gcid) == [j \in DOMAIN els |-> CopyC(els[j], <<>>, gcid)]
CopyC(src, dst, cid) ==
    LET tags == SortedTags({t \in TagsOf(src) : ~Has(dst, t)})
        RECURSIVE Go(_, _)
        Go(k, d) == IF k > Len(tags) THEN d
                    ELSE LET f == FieldOf(src, tags[k])
                             els == IF Grp(cid, f[1]) = "" THEN <<>>
                                    ELSE IF "copy_skips_nested" \in Dev /\ cid # "B" THEN <<>>
                                    ELSE CopyEls(f[3], Grp(cid, f[1]))
                         IN Go(k + 1, Insert(d, <<f[1], f[2], els>>, cid))
    IN Go(1, dst)
CopyMsg(m) == [h |-> CopyC(m.h, Empty.h, "H"), b |-> CopyC(m.b, Empty.b, "B"), t |-> CopyC(m.t, Empty.t, "T")]
\* move_legal hands the field objects (and whole GroupBase objects) over to the target
MoveC(src, dst, cid) ==
    LET tags == SortedTags({t \in TagsOf(src) : ~Has(dst, t)})
        RECURSIVE Go(_, _)
        Go(k, d) == IF k > Len(tags) THEN d
                    ELSE LET f == FieldOf(src, tags[k])
                             g == IF Grp(cid, f[1]) # "" /\ "move_leaves_group" \in Dev THEN <<f[1], f[2], <<>>>> ELSE f
                         IN Go(k + 1, Insert(d, g, cid))
    IN Go(1, dst)
MoveMsg(m) == [h |-> MoveC(m.h, Empty.h, "H"), b |-> MoveC(m.b, Empty.b, "B"), t |-> MoveC(m.t, Empty.t, "T")]

\* ---- the state machine -----------------------------------------------------------------------------
Init == /\ msg = Empty /\ hist = <<>> /\ phase = "build" /\ wire = <<>>
        /\ dec = [ok |-> FALSE, m |-> Empty, err |-> ""] /\ wire2 = <<>> /\ xfer = [cl |-> Empty, cp |-> Empty, mv |-> Empty]

Vals(t) == IF t = 11 THEN (IF NegInts THEN {<<55>>, <<45, 55>>} ELSE {<<55>>}) ELSE {<<>>}      \* tag 11 is an integer field: "7" or "-7"
AddField(l, t) ==
    /\ phase = "build" /\ Exists(msg, l) /\ t \in TagsIn(CidOf(l)) /\ Grp(CidOf(l), t) = "" /\ t \notin Derived
    /\ ~Has(GetC(msg, l), t)
    /\ \E v0 \in Vals(t) :
         LET v == IF v0 = <<>> THEN ValOf(msg, l, t) ELSE v0 IN
         /\ msg' = SetC(msg, l, Insert(GetC(msg, l), <<t, Store(t, v), <<>>>>, CidOf(l)))
         /\ hist' = Append(hist, [op |-> "F", path |-> PathOf(msg, l), tag |-> t, neg |-> (v0 = <<45, 55>>)])
    /\ UNCHANGED <<phase, wire, dec, wire2, xfer>>
AddGroup(l, t) ==
    /\ phase = "build" /\ Exists(msg, l) /\ t \in TagsIn(CidOf(l)) /\ Grp(CidOf(l), t) # ""
    /\ ~Has(GetC(msg, l), t)
    /\ msg' = SetC(msg, l, Insert(GetC(msg, l), <<t, <<48>>, <<>>>>, CidOf(l)))
    /\ hist' = Append(hist, [op |-> "G", path |-> PathOf(msg, l), tag |-> t, neg |-> FALSE])
    /\ UNCHANGED <<phase, wire, dec, wire2, xfer>>
AddElement(l, t) ==
    /\ phase = "build" /\ Exists(msg, l) /\ t \in TagsIn(CidOf(l)) /\ Grp(CidOf(l), t) # ""
    /\ Has(GetC(msg, l), t)
    /\ LET f == FieldOf(GetC(msg, l), t) IN
       /\ Len(f[3]) < MaxEl
       /\ \A j \in DOMAIN f[3] : Complete(f[3][j], Grp(CidOf(l), t))
       /\ msg' = SetC(msg, l, Replace(GetC(msg, l), t, <<t, DigitsOf(Len(f[3]) + 1), Append(f[3], <<>>)>>))
    /\ hist' = Append(hist, [op |-> "E", path |-> PathOf(msg, l), tag |-> t, neg |-> FALSE])
    /\ UNCHANGED <<phase, wire, dec, wire2, xfer>>
Ready == Complete(msg.h, "H") /\ Complete(msg.b, "B") /\ Complete(msg.t, "T")
Encode == /\ phase = "build" /\ Ready
          /\ wire' = EncodeMsg(msg) /\ phase' = "wire"
          /\ UNCHANGED <<msg, hist, dec, wire2, xfer>>
Decode == /\ phase = "wire"
          /\ dec' = DecodeMsg(wire) /\ phase' = "dec"
          /\ UNCHANGED <<msg, hist, wire, wire2, xfer>>
Reencode == /\ phase = "dec"
            /\ wire2' = IF dec.ok THEN EncodeMsg(dec.m) ELSE <<>>
            /\ phase' = "re"
            /\ UNCHANGED <<msg, hist, wire, dec, xfer>>
Transfer == /\ phase = "re"
            /\ xfer' = [cl |-> CopyMsg(msg), cp |-> CopyMsg(msg), mv |-> MoveMsg(msg)]
            /\ phase' = "done"
            /\ UNCHANGED <<msg, hist, wire, dec, wire2>>
Next == \/ \E l \in Lvls : \E t \in TagsIn(l) : AddField(l, t) \/ AddGroup(l, t) \/ AddElement(l, t)
        \/ Encode \/ Decode \/ Reencode \/ Transfer
Spec == Init /\ [][Next]_vars

\* ---- properties ------------------------------------------------------------------------------------
\* the position map is sorted after every insertion, whatever the order of insertions
PositionOrdered == Sorted(msg.h, "H") /\ Sorted(msg.b, "B") /\ Sorted(msg.t, "T")
\* C02: the relation of CodecOps that the trace monitor applies to the real encoder's output
WireWellFormed == phase # "build" => WellFormed(Sch, "D", ObsAll(wire)).why = ""
\* C01
RoundTrip == phase \in {"re", "done"} => dec.ok /\ SameMsg(dec.m, msg) /\ wire2 = wire
\* C11
CloneSame == phase = "done" => /\ EncodeMsg(xfer.cl) = wire
                               /\ SameMsg(xfer.cp, msg)
                               /\ SameMsg(xfer.mv, msg)
\* witnesses (must be violated): the invariants above are not vacuous
Reach_Nested2 == ~(phase = "done" /\ Exists(msg, "N") /\ Len(FieldOf(msg.b, 73)[3]) = MaxEl
                   /\ Len(FieldOf(LastEl(FieldOf(msg.b, 73)), 78)[3]) = MaxEl)

\* ---- replay export ---------------------------------------------------------------------------------
\* one line per edge into the encoded state: the build history of every complete message (TLC evaluates
\* a CONSTRAINT on every generated successor, so every last-inserted field of every shape is printed)
Leaf == (phase = "wire") => PrintT("LEAF " \o ToJson(hist))
View == <<msg, phase, wire, dec, wire2, xfer>>
=============================================================================
