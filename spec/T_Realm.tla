------------------------------- MODULE T_Realm -------------------------------
(* Trace monitor for C10 (enumerated-value lookups describe only the actual value).                *)
(* One execution = one realm; the driver writes its Reset line from the schema XML (lib/schema.py) *)
(* or, for synthetic realms, from the domain TLC enumerated:                                       *)
(*   Reset{kind:"realm", t, dt:"set"|"range", dom:[codes ascending], descs:[strings], src}          *)
(* Values are integer codes that keep the order of the field type (ints: the value; chars,         *)
(* strings, floats: rank in the sorted list of every value of the execution); Alien = a value the  *)
(* library produced that is none of them.  One line per probe value:                                *)
(*   Realm{v, idx, inside, rv, desc, valid,                what RealmBase::get_rlm_idx / is_valid   *)
(*                                                         returned, the realm entry and the        *)
(*                                                         description at that index                *)
(*         field, fidx, pv,                                a field built from the value's FIX text: *)
(*                                                         its get_rlm_idx() and the value it holds *)
(*         phas, pdesc, pshape, qhas, qdesc, qshape}       MessageBase::print_field / print output  *)
(* The monitor demands what the statement says and no more:                                        *)
(*   set domain:   an index (a printed description) exists iff the value is a member, the entry at  *)
(*                 the index is that value and the description is the one the XML gives that value; *)
(*                 is_valid iff member.  The numeric position is *not* demanded (label only).       *)
(*   range domain: is_valid iff lo <= v <= hi; an index / printed description exists only for       *)
(*                 values inside the range (which description a range value gets is left open).     *)
(* The printer clauses are judged against the value the field actually holds (pv), so a defect of   *)
(* the text-to-value conversion (C08) cannot show up here.                                          *)
EXTENDS Common, Realm

VARIABLES l, ms, fails, nexec, labels, nf
\* nf: bag of the rejection signatures seen so far in this trace file; the first MaxFails rejections of every
\* signature are written to the verdict with their line (a rejection of a *different* kind is always
\* recorded), all of them are counted in labels under "rejected:<sig>"
MaxFails == 25

Alien == -999999
EmptyFn == [x \in {} |-> 0]
NoRealm == [t |-> "-", dt |-> "none", dom |-> <<>>, descs |-> <<>>]

Ev == TraceLog[l]

DescOf(m, v) == m.descs[PosOf(m.dom, v) + 1]
Succ(m, v) == LowerBound(m.dom, v)          \* offset of the smallest member >= v (Len if none)

\* a result [ok, why, sig]; clauses are tried in order, the first that fails is reported
Ok == [ok |-> TRUE, why |-> "", sig |-> ""]
Bad(m, why, sig) == [ok |-> FALSE, why |-> why, sig |-> m.t \o ":" \o m.dt \o ":" \o sig]

\* index-like result i for value v of a set domain (used for idx and for the field's fidx)
SetIdxClause(m, v, i, what) ==
    IF v # Alien /\ Member(m.dom, v) THEN
        IF i >= 0 THEN Ok ELSE Bad(m, what \o ": no index for a member", "unexplained:" \o what \o "_member")
    ELSE IF i < 0 THEN Ok
    ELSE Bad(m, what \o ": index reported for a value that is not in the domain",
             IF v # Alien /\ i = Succ(m, v) THEN "nonmember_gets_successor_" \o what ELSE "unexplained:" \o what \o "_nonmember")

\* printed description (has, d) for the value pv the field holds
SetPrintClause(m, pv, has, d, shape, what) ==
    IF ~shape THEN Bad(m, what \o ": printed line has neither the plain nor the described shape", "unexplained:" \o what \o "_shape")
    ELSE IF pv # Alien /\ Member(m.dom, pv) THEN
        IF has /\ d = DescOf(m, pv) THEN Ok
        ELSE Bad(m, what \o ": member printed without its own description", "unexplained:" \o what \o "_member")
    ELSE IF ~has THEN Ok
    ELSE Bad(m, what \o ": description printed for a value that is not in the domain",
             IF pv # Alien /\ Succ(m, pv) < Len(m.dom) /\ d = m.descs[Succ(m, pv) + 1]
             THEN "nonmember_printed_as_successor_" \o what ELSE "unexplained:" \o what \o "_nonmember")

First(rs) == LET bad == {i \in DOMAIN rs : ~rs[i].ok}
             IN IF bad = {} THEN Ok ELSE rs[CHOOSE i \in bad : \A j \in bad : i <= j]

SetStep(m, e) ==
    LET mem == Member(m.dom, e.v) IN
    First(<<
        SetIdxClause(m, e.v, e.idx, "idx"),
        IF e.idx >= 0 /\ mem /\ ~(e.inside /\ e.rv = e.v /\ e.desc = DescOf(m, e.v))
            THEN Bad(m, "index of a member does not lead to that value and its description", "unexplained:idx_entry") ELSE Ok,
        IF e.valid # mem THEN Bad(m, "is_valid disagrees with set membership", "unexplained:is_valid") ELSE Ok,
        IF e.field THEN SetIdxClause(m, e.pv, e.fidx, "fidx") ELSE Ok,
        IF e.field THEN SetPrintClause(m, e.pv, e.phas, e.pdesc, e.pshape, "print_field") ELSE Ok,
        IF e.field THEN SetPrintClause(m, e.pv, e.qhas, e.qdesc, e.qshape, "print") ELSE Ok
    >>)

RangeIn(m, v) == v # Alien /\ InRange(m.dom, v)
RangeStep(m, e) ==
    First(<<
        IF e.valid # RangeIn(m, e.v) THEN Bad(m, "is_valid disagrees with range inclusion", "unexplained:is_valid") ELSE Ok,
        IF e.idx >= 0 /\ ~RangeIn(m, e.v) THEN Bad(m, "index reported for a value outside the range", "idx_for_value_outside_range") ELSE Ok,
        IF e.idx >= 0 /\ ~e.inside THEN Bad(m, "index outside the realm arrays", "unexplained:idx_entry") ELSE Ok,
        IF e.field /\ e.fidx >= 0 /\ ~RangeIn(m, e.pv) THEN Bad(m, "field index reported for a value outside the range", "fidx_for_value_outside_range") ELSE Ok,
        IF e.field /\ (~e.pshape \/ ~e.qshape) THEN Bad(m, "printed line has neither shape", "unexplained:print_shape") ELSE Ok,
        IF e.field /\ (e.phas \/ e.qhas) /\ ~RangeIn(m, e.pv) THEN Bad(m, "description printed for a value outside the range", "desc_for_value_outside_range") ELSE Ok
    >>)

MonStep(m, e) ==
    IF e.e = "Reset" THEN [r |-> Ok, m |-> [t |-> e.t, dt |-> e.dt, dom |-> e.dom, descs |-> e.descs]]
    ELSE IF e.e = "Realm" /\ m.dt = "set" THEN [r |-> SetStep(m, e), m |-> m]
    ELSE IF e.e = "Realm" /\ m.dt = "range" THEN [r |-> RangeStep(m, e), m |-> m]
    ELSE [r |-> Ok, m |-> m]

\* design-conformance labels (never a verdict): which case of Realm.tla the probe value exercised and
\* whether the reported index is the position Realm!Idx gives
Label(m, e) ==
    IF e.e # "Realm" THEN ""
    ELSE IF m.dt = "range" THEN (IF RangeIn(m, e.v) THEN "range_inside" ELSE "range_outside")
    ELSE IF Member(m.dom, e.v) THEN (IF e.idx = Idx(m.dom, e.v) THEN "member_idx_is_position" ELSE "member_idx_other")
    ELSE IF Succ(m, e.v) < Len(m.dom) THEN "nonmember_below_max" ELSE "nonmember_above_max"
Bump(b, k) == IF k = "" THEN b ELSE IF k \in DOMAIN b THEN [b EXCEPT ![k] = @ + 1] ELSE (k :> 1) @@ b

Init == nf = EmptyFn /\ l = 1 /\ ms = NoRealm /\ fails = <<>> /\ nexec = 0 /\ labels = EmptyFn
Next ==
    \/ /\ l <= NLines
       /\ LET s == MonStep(ms, Ev) IN
          /\ ms' = s.m
          /\ fails' = IF s.r.ok \/ (s.r.sig \in DOMAIN nf /\ nf[s.r.sig] >= MaxFails) THEN fails
                      ELSE Append(fails, [line |-> l, exec |-> nexec, why |-> s.r.why, sig |-> s.r.sig])
          /\ nf' = IF s.r.ok THEN nf ELSE Bump(nf, s.r.sig)
          /\ labels' = Bump(Bump(labels, Label(ms, Ev)), IF s.r.ok THEN "" ELSE "rejected:" \o s.r.sig)
       /\ nexec' = IF Ev.e = "Reset" THEN nexec + 1 ELSE nexec
       /\ l' = l + 1
    \/ /\ l = NLines + 1
       /\ WriteVerdictL(l - 1, fails, nexec, labels)
       /\ l' = l + 1
       /\ UNCHANGED <<ms, fails, nexec, labels, nf>>
=============================================================================
