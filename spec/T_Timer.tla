------------------------------ MODULE T_Timer ------------------------------
(* Trace monitor for C31 (timer events fire no earlier than scheduled and in due order).            *)
(* One execution = the real FIX8::Timer<T> thread driven against a virtual clock                    *)
(* (harness/src/probe_timer.cpp); all instants are virtual milliseconds.  Events, in the order in   *)
(* which they were written under one output lock:                                                   *)
(*   Reset  SchedCall{id,now,delay,rep}  SchedRet{id}  Advance{now}  Fire{id,now,ret}               *)
(*   ClearCall{now}  ClearRet{n}  Settle  End                                                       *)
(* SchedCall/ClearCall are written before the call, SchedRet/ClearRet after it returned; Fire is    *)
(* written inside the callback, `now` being the instant the timer thread last read from the clock.  *)
(*                                                                                                  *)
(* Demanded (exactly the statement; lateness is never a violation):                                 *)
(*   early            a callback runs at an instant < schedule instant + delay                      *)
(*   repeat_too_soon  a repeating event runs again < its interval after its previous run            *)
(*   fire_after_final an event runs again after its callback returned false / a one-shot runs twice *)
(*   due_order        an event runs while another event with a strictly smaller due time was        *)
(*                    certainly in the queue: its schedule call had returned before this callback   *)
(*                    began (the callback holds the queue lock, so a SchedRet line above the Fire   *)
(*                    line means the insertion preceded the decision).  Equal due times: any order. *)
(*   fire_after_clear an event scheduled before a clear() runs after that clear() returned          *)
(*   fire_unknown     a callback that was never scheduled                                           *)
(* A Fire between ClearCall and ClearRet is not judged by the clear clause (it raced the clear).    *)
(* Instant of a run: in an *exact* execution (Reset.exact: the driver moved the clock only while    *)
(* the timer thread was settled, and callbacks that take time moved it themselves) the clock read   *)
(* inside the callback (now2) is the instant the callback began and is used for every clause; in    *)
(* the other executions clock advances race the thread and the only sound instant is the one the    *)
(* thread last read (now).  An unsettled wait ends exactness.                                       *)
(* Design conformance (label only): whether Timer.tla's Fire is enabled for that event on the       *)
(* monitor's queue.                                                                                 *)
EXTENDS Common, Timer

VARIABLES l, ms, fails, nexec, labels

EmptyFn == [x \in {} |-> 0]
Ev == TraceLog[l]

MsInit == [live |-> TRUE, exact |-> FALSE, pend |-> NoEvents, sure |-> {}, ran |-> EmptyFn, final |-> {}, cleared |-> {}]
MsNone == [live |-> FALSE]

FireStep(m, e) ==
    LET i == e.id
        t == IF m.exact THEN e.now2 ELSE e.now IN
    IF i \notin Ids(m.pend)
    THEN [ok |-> FALSE, m |-> m, lab |-> "",
          why |-> IF i \in m.cleared THEN "fire_after_clear" ELSE IF i \in m.final THEN "fire_after_final" ELSE "fire_unknown"]
    ELSE
        LET p == m.pend[i]
            why == IF t < p.due THEN (IF i \in DOMAIN m.ran THEN "repeat_too_soon" ELSE "early")
                   ELSE IF \E j \in m.sure \cap Ids(m.pend) : j # i /\ m.pend[j].due < p.due THEN "due_order"
                   ELSE ""
            p2 == AfterFire(m.pend, t, i, e.ret, {})
        IN [ok |-> why = "", why |-> why,
            lab |-> IF i \in Fireable(m.pend, t, {}) THEN (IF t = p.due THEN "design:Fire_on_time" ELSE "design:Fire_late")
                    ELSE "design:Fire_not_enabled",
            m |-> [m EXCEPT !.pend = p2, !.ran = (i :> t) @@ m.ran,
                            !.final = IF i \in Ids(p2) THEN m.final ELSE m.final \cup {i}]]

MonStep(m, e) ==
    IF e.e = "Reset" THEN [ok |-> TRUE, why |-> "", m |-> [MsInit EXCEPT !.exact = Get(e, "exact", FALSE)], lab |-> ""]
    ELSE IF e.e = "Settle" /\ m.live /\ ~e.ok THEN [ok |-> TRUE, why |-> "", m |-> [m EXCEPT !.exact = FALSE], lab |-> "exactness_lost"]
    ELSE IF ~m.live THEN [ok |-> TRUE, why |-> "", m |-> m, lab |-> ""]
    ELSE IF e.e = "SchedCall" THEN
        [ok |-> TRUE, why |-> "", lab |-> "",
         m |-> [m EXCEPT !.pend = SchedOf(m.pend, e.now, e.id, e.delay, e.rep), !.sure = m.sure \ {e.id},
                         !.final = m.final \ {e.id}, !.cleared = m.cleared \ {e.id}]]
    ELSE IF e.e = "SchedRet" THEN
        [ok |-> e.ret, why |-> "schedule_refused", lab |-> "", m |-> [m EXCEPT !.sure = m.sure \cup {e.id}]]
    ELSE IF e.e = "Fire" THEN FireStep(m, e)
    ELSE IF e.e = "ClearRet" THEN
        [ok |-> TRUE, why |-> "", lab |-> "",
         m |-> [m EXCEPT !.pend = NoEvents, !.sure = {}, !.cleared = m.cleared \cup Ids(m.pend)]]
    ELSE [ok |-> TRUE, why |-> "", m |-> m, lab |-> ""]

Bump(b, k) == IF k = "" THEN b ELSE IF k \in DOMAIN b THEN [b EXCEPT ![k] = @ + 1] ELSE (k :> 1) @@ b

Init == l = 1 /\ ms = MsNone /\ fails = <<>> /\ nexec = 0 /\ labels = EmptyFn
Next ==
    \/ /\ l <= NLines
       /\ LET r == MonStep(ms, Ev) IN
          /\ ms' = r.m
          /\ fails' = IF r.ok THEN fails
                      ELSE Append(fails, [line |-> l, exec |-> nexec, why |-> r.why, sig |-> "timer:unexplained:" \o r.why])
          /\ labels' = Bump(labels, r.lab)
       /\ nexec' = IF Ev.e = "Reset" THEN nexec + 1 ELSE nexec
       /\ l' = l + 1
    \/ /\ l = NLines + 1
       /\ WriteVerdictL(l - 1, fails, nexec, labels)
       /\ l' = l + 1
       /\ UNCHANGED <<ms, fails, nexec, labels>>
=============================================================================
