CONSTANTS
  Keys = {1, 2, 3}
  MaxOps = 6
  MaxCrashes = 0
  Dev = {}
SPECIFICATION Spec
INVARIANT CompletedSurvive
INVARIANT NoAlienBytes
INVARIANT CtrlIsLastCompleted
CONSTRAINT Leaf
CHECK_DEADLOCK FALSE
