----------------------------- MODULE Heartbeat -----------------------------
(* Heartbeat / TestRequest supervision (property C22): Session::heartbeat_service,                *)
(* handle_test_request, handle_heartbeat (runtime/session.cpp) on a whole-second virtual clock.    *)
(* Inputs: Tick(dt) (the clock advances dt seconds, then one supervision tick runs), an inbound    *)
(* Heartbeat or TestRequest, an application send.  The design produces the event the real probe    *)
(* would record and the C22 monitor of SessionMon.tla is run alongside:                            *)
(*   Dev = {}                            every behaviour accepted                                   *)
(*   Dev = {"testreq_grace_is_one_tick"} the Logout follows at the very next tick after the        *)
(*                                       TestRequest (the silence clock is not restarted)          *)
(*   Dev = {"no_testreq_while_resend_outstanding"}  supervision of the receive side is suspended   *)
(*                                       while the session's own ResendRequest is outstanding      *)
(* RecvHigh: an application message numbered above the expected one meets the session in normal    *)
(* operation - it answers with a ResendRequest and is in state resend_request_sent; the            *)
(* counterparty then stays silent (what comes after a gap is the subject of C20), so supervision   *)
(* has to notice a dead peer in that state too.                                                    *)
EXTENDS SessionMsgs

CONSTANTS Dev, H, MaxSteps, MaxNow

VARIABLES t,        \* session record (SInit shape) plus clock fields
          clk,      \* [now, lastSent, lastRecv, trAt]
          hist, mon, bad,
          gap       \* a too-high message has been received (RecvHigh): the counterparty is silent from then on

Grace == H + H \div 5
MCfg == [prop |-> "C22", role |-> "ini", persist |-> "mem", sender |-> "INI", target |-> "ACC", hb |-> H,
         reset |-> FALSE, enforce |-> TRUE, always_assign |-> FALSE, cfg_send |-> 0, cfg_recv |-> 0, clients |-> <<>>]

Ev(name, t0, t1, in, out, now) == [Event(name, t0, t1, in, out, <<>>) EXCEPT !.now = now]
Stamp(o, now) == [o EXCEPT !.sending = now]

\* the logon exchange at second 0 (same as Session.tla DoStart / DoRecvLogon)
T1 == [SInit EXCEPT !.st = StCont, !.ns = 2, !.nr = 2, !.ctrl = <<2, 2>>]
StartEv == Ev("Start", SInit, [SInit EXCEPT !.st = StLogonSent, !.ns = 2, !.ctrl = <<2, 1>>], <<>>,
              <<[Out("A", 1) EXCEPT !.hbint = H]>>, 0)
LogonEv == Ev("Recv", [SInit EXCEPT !.st = StLogonSent, !.ns = 2, !.ctrl = <<2, 1>>], T1,
              <<[In("A", 1) EXCEPT !.hbint = H]>>, <<>>, 0)

DoTick(dt) ==
    LET now == clk.now + dt
        idle == now - clk.lastSent >= H
        hb == Out("0", t.ns)
        ns1 == IF idle THEN t.ns + 1 ELSE t.ns
        silent == now - clk.lastRecv > Grace
        pending == t.st = 9
        expire == pending /\ silent /\ (now - clk.trAt > Grace \/ "testreq_grace_is_one_tick" \in Dev)
        ask == ~pending /\ silent /\ ~("no_testreq_while_resend_outstanding" \in Dev /\ t.st = 12)
        tr == [Out("1", ns1) EXCEPT !.testreqid = "TEST"]
        lo == Out("5", ns1)
        out == (IF idle THEN <<Stamp(hb, now)>> ELSE <<>>)
               \o (IF expire THEN <<Stamp(lo, now)>> ELSE IF ask THEN <<Stamp(tr, now)>> ELSE <<>>)
        ns2 == IF ask THEN ns1 + 1 ELSE ns1
        t1 == [t EXCEPT !.ns = ns2, !.ctrl = <<ns2, t.nr>>,
                        !.st = IF expire THEN StTerm ELSE IF ask THEN 9 ELSE t.st,
                        !.shutdown = expire]
    IN [t |-> t1, ev |-> Ev("Tick", t, t1, <<>>, out, now),
        clk |-> [now |-> now, lastSent |-> IF out # <<>> THEN now ELSE clk.lastSent, lastRecv |-> clk.lastRecv,
                 trAt |-> IF ask THEN now ELSE clk.trAt]]

DoRecvHb ==
    LET i == In("0", t.nr)
        t1 == [t EXCEPT !.nr = t.nr + 1, !.ctrl = <<t.ns, t.nr + 1>>, !.st = IF t.st = 9 THEN StCont ELSE t.st]
    IN [t |-> t1, ev |-> Ev("Recv", t, t1, <<i>>, <<>>, clk.now), clk |-> [clk EXCEPT !.lastRecv = clk.now]]

DoRecvTestReq ==
    LET i == [In("1", t.nr) EXCEPT !.testreqid = "PING"]
        o == Stamp([Out("0", t.ns) EXCEPT !.testreqid = "PING"], clk.now)
        t1 == [t EXCEPT !.ns = t.ns + 1, !.nr = t.nr + 1, !.ctrl = <<t.ns + 1, t.nr + 1>>]
    IN [t |-> t1, ev |-> Ev("Recv", t, t1, <<i>>, <<o>>, clk.now),
        clk |-> [clk EXCEPT !.lastRecv = clk.now, !.lastSent = clk.now]]

DoRecvHigh ==
    LET i == [In("D", t.nr + 1) EXCEPT !.id = 150]
        o == Stamp([Out("2", t.ns) EXCEPT !.begin = t.nr, !.end = 0], clk.now)
        t1 == [t EXCEPT !.ns = t.ns + 1, !.ctrl = <<t.ns + 1, t.nr>>, !.st = 12]
    IN [t |-> t1, ev |-> Ev("Recv", t, t1, <<i>>, <<o>>, clk.now),
        clk |-> [clk EXCEPT !.lastRecv = clk.now, !.lastSent = clk.now]]

DoSend ==
    LET o == Stamp(App(t.ns, t.nid), clk.now)
        t1 == [t EXCEPT !.ns = t.ns + 1, !.nid = t.nid + 1, !.ctrl = <<t.ns + 1, t.nr>>]
    IN [t |-> t1, ev |-> Ev("Send", t, t1, <<>>, <<o>>, clk.now), clk |-> [clk EXCEPT !.lastSent = clk.now]]

Inputs == IF t.shutdown THEN {}
          ELSE {[op |-> "Tick", dt |-> d] : d \in {1, 2, H - 1, H, Grace, Grace + 1} \cap 1..(MaxNow - clk.now)}
               \cup {[op |-> "Send"]}
               \* after a gap the counterparty says nothing more in this model
               \cup (IF gap THEN {} ELSE {[op |-> "RecvHb"], [op |-> "RecvTestReq"]})
               \cup (IF ~gap /\ t.st = StCont THEN {[op |-> "RecvHigh"]} ELSE {})

Apply(inp) == CASE inp.op = "Tick" -> DoTick(inp.dt)
                [] inp.op = "RecvHb" -> DoRecvHb
                [] inp.op = "RecvTestReq" -> DoRecvTestReq
                [] inp.op = "Send" -> DoSend
                [] inp.op = "RecvHigh" -> DoRecvHigh

Mon0 == MonStep(MonStep(MsInit(MCfg), StartEv).m, LogonEv).m

Init == /\ t = T1 /\ clk = [now |-> 0, lastSent |-> 0, lastRecv |-> 0, trAt |-> -1]
        /\ hist = <<>> /\ mon = Mon0 /\ bad = {} /\ gap = FALSE
Next == /\ Len(hist) < MaxSteps
        /\ \E inp \in Inputs :
             LET r == Apply(inp)  q == MonStep(mon, r.ev)
             IN /\ t' = r.t /\ clk' = r.clk /\ hist' = Append(hist, inp) /\ mon' = q.m
                /\ gap' = (gap \/ inp.op = "RecvHigh")
                /\ bad' = IF q.ok THEN bad ELSE bad \cup {q.sig}
Spec == Init /\ [][Next]_<<t, clk, hist, mon, bad, gap>>

MonitorAccepts == bad = {}
\* the design itself: a Logout is never sent before a TestRequest has been outstanding for more than Grace
NoEarlyLogout == t.shutdown => clk.now - clk.trAt > Grace \/ "testreq_grace_is_one_tick" \in Dev
Edge == PrintT("LEAF " \o ToJson(hist))
StateView == <<t, clk, mon, bad, gap>>
=============================================================================
