CONSTANTS
  Keys = {1, 2, 3, 4, 5}
  Reserves = {0, 1, 2}
  Inits <- InitsAll
  MaxOps = 4
  Dev = {"zero_reserve"}
INIT Init
NEXT Next
INVARIANT SetLike
INVARIANT ResultsRight
INVARIANT IterValid
INVARIANT NoLeak
INVARIANT InBounds
CHECK_DEADLOCK FALSE
