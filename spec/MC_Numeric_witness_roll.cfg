CONSTANTS
 Dev = {}
 Family = "dyadic"
 KStep = 1
 WTop = {}
 ExportStep = 64
INIT Init
NEXT Next
CHECK_DEADLOCK FALSE
INVARIANTS NoRollover
