------------------------------ MODULE Recovery ------------------------------
(* Gap recovery between a fix8 session and a FIX-conformant counterparty (property C20).           *)
(* The counterparty (Peer) numbers everything it sends, keeps a log, loses what it sends while     *)
(* disconnected, logs on again with its next number and answers a ResendRequest by replaying the   *)
(* application messages (PossDup) and gap-filling administrative ones.  The session side is the    *)
(* receive logic of Session::process / sequence_check / handle_sequence_reset / handle_logon.      *)
(*                                                                                                 *)
(* Environment actions (one per driver step, exported as replay scripts):                          *)
(*   App / Adm        counterparty sends an application / administrative message (delivered at     *)
(*                    once when connected, lost when not)                                           *)
(*   Drop             connection lost                                                              *)
(*   Reconnect        new connection: counterparty's Logon carries its next number                 *)
(*   Answer           counterparty answers the outstanding ResendRequest (whole replay delivered)   *)
(*   AnswerCut(k)     ... but the connection drops after k replayed messages                       *)
(*                                                                                                 *)
(* Dev = {} is the receive design C20 needs.  Named deviations = what the code was found to do:    *)
(*   "incr_always"              expected number incremented after every processed message           *)
(*   "logon_gap_throws"         a Logon numbered above the expected number ends the session         *)
(*   "high_outside_continuous_throws"  a too-high message while a ResendRequest is outstanding      *)
(*                              ends the session                                                   *)
EXTENDS Naturals, Integers, Sequences, FiniteSets, TLC, Json

CONSTANTS Dev, MaxSteps, MaxPeer

VARIABLES ss,      \* session: [nr, st, deliv, rr]  st \in {"cont", "rr", "dead"}; rr = begin of outstanding request or 0
          peer,    \* [next, log]  log[i] = [seq, kind, id]
          up,      \* connection established?
          hist

vars == <<ss, peer, up, hist>>

Msg(seq, kind, id, dup, newseq) == [seq |-> seq, kind |-> kind, id |-> id, dup |-> dup, newseq |-> newseq]

Bump(x) == IF "incr_always" \in Dev THEN [x EXCEPT !.nr = x.nr + 1] ELSE x

\* ---- session receive step ------------------------------------------------------------------------
Rx(x, m) ==
    IF x.st = "dead" THEN x
    ELSE IF m.kind = "gap" THEN
         \* SequenceReset-GapFill: the code does not sequence-check it; NewSeqNo below expected is fatal
         IF m.newseq >= x.nr THEN [x EXCEPT !.nr = m.newseq, !.st = "cont", !.rr = 0]
         ELSE IF "incr_always" \in Dev THEN [x EXCEPT !.st = "dead"]       \* MsgSequenceTooLow(NewSeqNo)
         ELSE x                                                           \* ideal: a stale gap fill is ignored
    ELSE IF m.seq = x.nr THEN
         LET y == [x EXCEPT !.nr = x.nr + 1, !.deliv = IF m.kind = "app" THEN x.deliv \cup {m.id} ELSE x.deliv]
         IN IF y.st = "rr" /\ "incr_always" \notin Dev THEN [y EXCEPT !.st = "cont", !.rr = 0] ELSE y
    ELSE IF m.seq > x.nr THEN
         IF m.kind = "logon" /\ "logon_gap_throws" \in Dev THEN [x EXCEPT !.st = "dead"]
         ELSE IF x.st = "cont" THEN Bump([x EXCEPT !.st = "rr", !.rr = x.nr])
         ELSE IF "high_outside_continuous_throws" \in Dev THEN [x EXCEPT !.st = "dead"]
         ELSE Bump(x)
    ELSE \* lower than expected
         IF m.dup THEN Bump([x EXCEPT !.deliv = IF m.kind = "app" THEN x.deliv \cup {m.id} ELSE x.deliv])
         ELSE [x EXCEPT !.st = "dead"]                    \* too low without PossDup: a protocol violation

RECURSIVE RxAll(_, _)
RxAll(x, ms) == IF ms = <<>> THEN x ELSE RxAll(Rx(x, Head(ms)), Tail(ms))

\* ---- counterparty ----------------------------------------------------------------------------------
PeerEmit(kind) ==
    LET id == IF kind = "app" THEN 100 + Cardinality({i \in DOMAIN peer.log : peer.log[i].kind = "app"}) + 1 ELSE 0
        e == [seq |-> peer.next, kind |-> kind, id |-> id]
    IN [p |-> [next |-> peer.next + 1, log |-> Append(peer.log, e)], m |-> Msg(e.seq, kind, id, FALSE, 0)]

\* replay of [b, next-1]: application messages as PossDup copies, runs of administrative ones as one gap fill
RECURSIVE Replay(_, _, _)
Replay(log, i, acc) ==
    IF i > Len(log) THEN acc
    ELSE LET e == log[i] IN
         IF e.kind = "app" THEN Replay(log, i + 1, Append(acc, Msg(e.seq, "app", e.id, TRUE, 0)))
         ELSE LET last == IF acc # <<>> THEN acc[Len(acc)] ELSE Msg(0, "none", 0, FALSE, 0) IN
              IF last.kind = "gap" /\ last.newseq = e.seq
              THEN Replay(log, i + 1, [acc EXCEPT ![Len(acc)].newseq = e.seq + 1])
              ELSE Replay(log, i + 1, Append(acc, Msg(e.seq, "gap", 0, TRUE, e.seq + 1)))
ReplayFrom(b) == Replay(SubSeq(peer.log, b, Len(peer.log)), 1, <<>>)      \* log[i].seq = i

\* ---- environment actions ----------------------------------------------------------------------------
Step(inp) == /\ Len(hist) < MaxSteps /\ hist' = Append(hist, inp)

Send(kind) ==
    /\ peer.next <= MaxPeer /\ Step([op |-> IF kind = "app" THEN "App" ELSE "Adm"])
    /\ LET r == PeerEmit(kind) IN
       /\ peer' = r.p
       /\ ss' = IF up THEN Rx(ss, r.m) ELSE ss
    /\ UNCHANGED up

Drop == /\ up /\ Step([op |-> "Drop"]) /\ up' = FALSE
        /\ ss' = IF ss.st = "dead" THEN ss ELSE [ss EXCEPT !.st = "cont", !.rr = 0]      \* an outstanding request dies with the connection
        /\ UNCHANGED peer

Reconnect ==
    /\ ~up /\ ss.st # "dead" /\ peer.next <= MaxPeer /\ Step([op |-> "Reconnect"])
    /\ LET r == PeerEmit("logon") IN
       /\ peer' = [r.p EXCEPT !.log[Len(r.p.log)].kind = "adm"]
       /\ ss' = Rx(ss, r.m)
    /\ up' = TRUE

Answer ==
    /\ up /\ ss.st # "dead" /\ ss.rr # 0 /\ Step([op |-> "Answer"])
    /\ ss' = RxAll([ss EXCEPT !.rr = 0], ReplayFrom(ss.rr))
    /\ UNCHANGED <<peer, up>>

AnswerCut(k) ==
    /\ up /\ ss.st # "dead" /\ ss.rr # 0 /\ k < Len(ReplayFrom(ss.rr)) /\ Step([op |-> "AnswerCut", k |-> k])
    /\ LET y == RxAll([ss EXCEPT !.rr = 0], SubSeq(ReplayFrom(ss.rr), 1, k))
       IN ss' = IF y.st = "dead" THEN y ELSE [y EXCEPT !.st = "cont", !.rr = 0]
    /\ up' = FALSE /\ UNCHANGED peer

Init == /\ ss = [nr |-> 2, st |-> "cont", deliv |-> {}, rr |-> 0]       \* after the first logon exchange (number 1)
        /\ peer = [next |-> 2, log |-> <<[seq |-> 1, kind |-> "adm", id |-> 0]>>]
        /\ up = TRUE /\ hist = <<>>

Next == Send("app") \/ Send("adm") \/ Drop \/ Reconnect \/ Answer \/ \E k \in 0..2 : AnswerCut(k)
Spec == Init /\ [][Next]_vars

\* ---- C20 ----------------------------------------------------------------------------------------------
NoSeqTermination == ss.st # "dead"
Quiescent == up /\ ss.rr = 0 /\ ss.st = "cont"
PeerApps == {peer.log[i].id : i \in {j \in DOMAIN peer.log : peer.log[j].kind = "app"}}
\* after recovery (connected, nothing outstanding): everything delivered, numbers agree
Recovered == (Quiescent /\ ss.nr >= peer.next) => (PeerApps \subseteq ss.deliv /\ ss.nr = peer.next)
\* and recovery is always possible: with the connection up and nothing outstanding the session is never behind
\* without having asked (a gap is always followed by a request)
NeverSilentlyBehind == (up /\ ss.st = "cont" /\ ss.rr = 0) => ss.nr >= peer.next

Edge == PrintT("LEAF " \o ToJson(hist))
StateView == <<ss, peer, up>>
=============================================================================
