SPECIFICATION Spec
INVARIANT NoRevival
CHECK_DEADLOCK FALSE
