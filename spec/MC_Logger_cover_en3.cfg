CONSTANTS
  NP = 3
  NLines = 2
  Dev = {}
  Lvls = {TRUE}
  TwoPhase = FALSE
  Grain = "seam"
SPECIFICATION Spec
INVARIANT InvExactlyOnce
INVARIANT InvDisabledAbsent
INVARIANT InvProducerOrder
INVARIANT InvSeqConsecutive
INVARIANT InvRetIffAccepted
INVARIANT InvStopComplete
CONSTRAINT Edge
VIEW View
CHECK_DEADLOCK FALSE
