CONSTANTS
  SegSize = 3
  NSeg = 4
  CacheCap = 2
  NItems = 12
  NPops = 14
  Dev = {}
INIT InitS
NEXT NextS
INVARIANT Fifo
INVARIANT NoBreach
CONSTRAINT Leaf
VIEW View
CHECK_DEADLOCK FALSE
