CONSTANTS
  SegSize = 2
  NSeg = 5
  CacheCap = 1
  NItems = 8
  NPops = 0
  Dev = {}
SPECIFICATION Spec
PROPERTY AllPopped
CHECK_DEADLOCK FALSE
