------------------------------ MODULE T_Logger ------------------------------
(* Trace monitor for C28.  One execution of the real FileLogger is recorded as                     *)
(*   Reset{mode, np, sched}  [Parks{init, seq}]  Submit{p,k,en,ret,t0,t1}*  Stop{t0,t1}            *)
(*   File{lines:[{n,p,k}], bad}  Late{n}            (Late is the last event: the verdict is taken there) *)
(* t0/t1 are ticks of one global counter taken before a call and after its return; a line was      *)
(* "submitted before the logger is stopped" iff its submit call had returned when stop() was       *)
(* called (t1 < Stop.t0).  File is the log file read when stop() returned, Late.n the number of    *)
(* lines that appeared in it afterwards.                                                          *)
(*                                                                                                *)
(* The monitor demands exactly the clauses of the property statement:                             *)
(*   line_lost         every line at an enabled level submitted before stop() is in the file        *)
(*   written_twice     no line is in the file twice                                                *)
(*   alien_line        every line of the file is a submitted line (torn / foreign text counts)     *)
(*   disabled_written  no line at a disabled level is in the file                                  *)
(*   producer_order    the lines of one producer are in submission order                           *)
(*   sequence_numbers  the printed sequence numbers are 1, 2, 3 ... in file order                  *)
(*   return_value      a line at an enabled level that was written was reported as success, and a  *)
(*                     line submitted before stop() that was reported as success was written.      *)
(*                     Nothing is demanded of the value returned for a line at a disabled level    *)
(*                     (DESIGN.md appendix B), nor of lines submitted while stop() was running.    *)
(*   stop_incomplete   stop() returned, and nothing was written after it returned                  *)
(* For executions that follow a TLC schedule the design (Logger.tla) is replayed on the schedule   *)
(* and compared with the file and with the consumer's park positions: a label, never a verdict.    *)
EXTENDS Common, Logger

VARIABLES l, ms, fails, nexec, labels

EmptyFn == [x \in {} |-> 0]
NoStop == [t0 |-> -1, t1 |-> -1]
NoFile == [e |-> "File", lines |-> <<>>, bad |-> 0]
MsInit(e) == [mode |-> e.mode, np |-> e.np, sched |-> e.sched, subs |-> <<>>, stop |-> NoStop,
              parks |-> <<>>, pinit |-> "", file |-> NoFile]
Ms0 == [mode |-> "none", np |-> 0, sched |-> <<>>, subs |-> <<>>, stop |-> NoStop, parks |-> <<>>,
        pinit |-> "", file |-> NoFile]

Ev == TraceLog[l]

Key(r) == <<r.p, r.k>>
Pre(m, r) == m.stop.t0 >= 0 /\ r.t1 < m.stop.t0

\* k values of producer p in file order
RECURSIVE KsOf(_, _)
KsOf(f, p) == IF f = <<>> THEN <<>>
              ELSE (IF Head(f).p = p THEN <<Head(f).k>> ELSE <<>>) \o KsOf(Tail(f), p)
Increasing(q) == \A i \in 1..(Len(q) - 1) : q[i] < q[i + 1]

\* the clauses, each as [ok, why, sig]
Judge(m, e, late) ==
    LET f == e.lines
        W == {Key(f[i]) : i \in DOMAIN f}
        S == {m.subs[i] : i \in DOMAIN m.subs}
        en == {Key(r) : r \in {x \in S : x.en}}
        dis == {Key(r) : r \in {x \in S : ~x.en}}
        must == {r \in S : r.en /\ Pre(m, r)}
        lost == {r \in must : Key(r) \notin W}
        prods == {r.p : r \in S} \cup {f[i].p : i \in DOMAIN f}
        \* shape of the loss the deviation exit_on_stop_flag produces: the file is otherwise in order and each
        \* producer's written lines are exactly the first ones of its enabled lines (a tail was dropped)
        tail == \A p \in prods :
                   LET ks == KsOf(f, p)
                       mine == {r.k : r \in {x \in S : x.en /\ x.p = p}}
                   IN \A a \in mine : \A b \in SeqToSet(ks) : (a < b) => a \in SeqToSet(ks)
        wrongret == {r \in S : r.en /\ Key(r) \in W /\ ~r.ret}
        ghostret == {r \in must : r.ret /\ Key(r) \notin W}
    IN << [ok |-> e.bad = 0 /\ W \subseteq (en \cup dis), why |-> "alien_line", sig |-> "unexplained:alien_line"],
          [ok |-> Cardinality(W) = Len(f), why |-> "written_twice", sig |-> "unexplained:written_twice"],
          [ok |-> W \cap dis = {}, why |-> "disabled_written", sig |-> "unexplained:disabled_written"],
          [ok |-> \A p \in prods : Increasing(KsOf(f, p)), why |-> "producer_order", sig |-> "unexplained:producer_order"],
          [ok |-> \A i \in DOMAIN f : f[i].n = i, why |-> "sequence_numbers", sig |-> "unexplained:sequence_numbers"],
          [ok |-> lost = {}, why |-> "line_lost",
           sig |-> IF tail /\ Cardinality(W) = Len(f) /\ late = 0 THEN "lost:tail_dropped_at_stop" ELSE "unexplained:line_lost"],
          [ok |-> wrongret = {}, why |-> "return_value", sig |-> "ret:failure_reported_for_written_line"],
          [ok |-> ghostret = {}, why |-> "return_value", sig |-> "ret:success_reported_for_lost_line"],
          [ok |-> m.stop.t1 >= 0, why |-> "stop_incomplete", sig |-> "unexplained:stop_did_not_return"],
          [ok |-> late = 0, why |-> "stop_incomplete", sig |-> "unexplained:write_after_stop_returned"] >>

\* design conformance of a scheduled execution (label only)
StepsOf(sched) == [i \in DOMAIN sched |-> [a |-> sched[i].a, p |-> sched[i].p, en |-> sched[i].en]]
FileOf(st) == [i \in DOMAIN st.file |-> <<st.file[i].p, st.file[i].k, st.file[i].n>>]
ObsFile(f) == [i \in DOMAIN f |-> <<f[i].p, f[i].k, f[i].n>>]
Conforms(m, e, dev) ==
    LET P == 1..m.np
        sc == StepsOf(m.sched)
        st == Predict(P, sc, dev)
    IN /\ FileOf(st) = ObsFile(e.lines)
       /\ ParksOf(ToPark(S0(P), dev), sc, dev) = m.parks
       /\ m.pinit = "sleep"
SchedLabel(m, e) ==
    IF m.mode # "sched" THEN ""
    ELSE IF Conforms(m, e, {}) THEN "sched_conforms_ideal_design"
    ELSE IF Conforms(m, e, {"exit_on_stop_flag"}) THEN "sched_conforms_dev_exit_on_stop_flag"
    ELSE "sched_unexplained"
RetLabel(m) ==
    LET S == {m.subs[i] : i \in DOMAIN m.subs} IN
    IF {r \in S : r.en} = {} THEN ""
    ELSE IF \A r \in S : r.en => r.ret THEN "ret_as_designed"
    ELSE IF \A r \in S : r.en => ~r.ret THEN "ret_dev_enqueue_return_inverted"
    ELSE "ret_unexplained"

Failing(js) == SelectSeq(js, LAMBDA j : ~j.ok)

MonStep(m, e) ==
    CASE e.e = "Reset" -> [m |-> MsInit(e), fs |-> <<>>, labs |-> <<>>]
      [] e.e = "Parks" -> [m |-> [m EXCEPT !.parks = e.seq, !.pinit = e.init], fs |-> <<>>, labs |-> <<>>]
      [] e.e = "Submit" -> [m |-> [m EXCEPT !.subs = Append(@, e)], fs |-> <<>>, labs |-> <<>>]
      [] e.e = "Stop" -> [m |-> [m EXCEPT !.stop = [t0 |-> e.t0, t1 |-> e.t1]], fs |-> <<>>, labs |-> <<>>]
      [] e.e = "File" -> [m |-> [m EXCEPT !.file = e], fs |-> <<>>, labs |-> <<SchedLabel(m, e), RetLabel(m)>>]
      \* the execution is judged at its last event, when it is known whether anything was written late
      [] e.e = "Late" -> [m |-> m, fs |-> Failing(Judge(m, m.file, e.n)), labs |-> <<>>]
      [] OTHER -> [m |-> m, fs |-> <<>>, labs |-> <<>>]

Bump(b, k) == IF k = "" THEN b ELSE IF k \in DOMAIN b THEN [b EXCEPT ![k] = @ + 1] ELSE (k :> 1) @@ b
RECURSIVE BumpAll(_, _)
BumpAll(b, ks) == IF ks = <<>> THEN b ELSE BumpAll(Bump(b, Head(ks)), Tail(ks))

Init == l = 1 /\ ms = Ms0 /\ fails = <<>> /\ nexec = 0 /\ labels = EmptyFn
Next ==
    \/ /\ l <= NLines
       /\ LET r == MonStep(ms, Ev) IN
          /\ ms' = r.m
          /\ fails' = fails \o [i \in DOMAIN r.fs |-> [line |-> l, exec |-> nexec, why |-> r.fs[i].why, sig |-> r.fs[i].sig]]
          /\ labels' = BumpAll(labels, r.labs)
       /\ nexec' = IF Ev.e = "Reset" THEN nexec + 1 ELSE nexec
       /\ l' = l + 1
    \/ /\ l = NLines + 1
       /\ WriteVerdictL(l - 1, fails, nexec, labels)
       /\ l' = l + 1
       /\ UNCHANGED <<ms, fails, nexec, labels>>
=============================================================================
