CONSTANTS
 Dev = {}
 Family = "tiny"
 MaxMid = 11
 MaxTiny = 5
 CarryTail = 1
 CarryLens = {}
INIT Init
NEXT Next
CHECK_DEADLOCK FALSE
INVARIANTS InvResult InvReads InvGhost InvLoop InvTail
CONSTRAINT Export
