CONSTANTS
  MaxEl = 1
  NegInts = FALSE
  Dev = {"copy_skips_nested"}
SPECIFICATION Spec
INVARIANT PositionOrdered
INVARIANT WireWellFormed
INVARIANT RoundTrip
INVARIANT CloneSame
VIEW View
CHECK_DEADLOCK FALSE
