CONSTANTS
 Dev = {}
 Family = "dyadic"
 KStep = 4
 WTop = {2147483647}
 ExportStep = 128
INIT Init
NEXT Next
CHECK_DEADLOCK FALSE
INVARIANTS DtoaCorrect MeaningSane
CONSTRAINT Export
