------------------------------- MODULE Logon -------------------------------
(* Logon acceptance and CompID identity (property C23): Session::handle_logon for both roles and  *)
(* SessionID comparison (include/fix8/session.hpp), as a one-step design: a configuration (role,   *)
(* CompID enforcement, client list) and one inbound Logon (CompIDs matching / wrong on either     *)
(* side, ResetSeqNumFlag, in sequence or too high, HeartBtInt) produce the event the real probe    *)
(* would record; the C23 monitor must accept every event of the ideal design and reject the        *)
(* deviation "sid_ne_is_and" (operator!= requires both CompIDs to differ).                        *)
EXTENDS SessionMsgs

CONSTANTS Dev

VARIABLES c, phase, bad

Cases == [role : {"ini", "acc"}, enforce : BOOLEAN, clients : {<<>>, <<"INI">>, <<"ELSE">>},
          reset : BOOLEAN, sci : {"match", "wrong"}, tci : {"match", "wrong"}, seqd : {0, 1}, hb : {10, 30}]

Own(k) == IF k.role = "ini" THEN "INI" ELSE "ACC"
Peer(k) == IF k.role = "ini" THEN "ACC" ELSE "INI"
MCfg(k) == [prop |-> "C23", role |-> k.role, persist |-> "mem", sender |-> Own(k), target |-> Peer(k), hb |-> 30,
            reset |-> FALSE, enforce |-> k.enforce, always_assign |-> FALSE, cfg_send |-> 0, cfg_recv |-> 0,
            clients |-> k.clients]

SidNe(s1, t1, s2, t2) == IF "sid_ne_is_and" \in Dev THEN s1 # s2 /\ t1 # t2 ELSE s1 # s2 \/ t1 # t2

EventOf(k) ==
    LET own == Own(k)  peer == Peer(k)
        isci == IF k.sci = "match" THEN peer ELSE "EVIL"
        itci == IF k.tci = "match" THEN own ELSE "OTHER"
        t0 == IF k.role = "ini" THEN [SInit EXCEPT !.st = StLogonSent, !.ns = 2, !.ctrl = <<2, 1>>]
              ELSE [SInit EXCEPT !.st = 3]                               \* wait_for_logon
        i == [In("A", 1 + k.seqd) EXCEPT !.sci = isci, !.tci = itci, !.hbint = k.hb, !.reset = k.reset]
        refuse == [t0 EXCEPT !.st = StTerm, !.shutdown = TRUE]
        logoff == [t0 EXCEPT !.st = StLogoffSent, !.shutdown = TRUE]
        lo == [Out("5", t0.ns) EXCEPT !.sci = own, !.tci = peer]
    IN IF k.role = "acc" THEN
           LET targetok == ~k.enforce \/ itci = own
               listed == k.clients = <<>> \/ \E j \in DOMAIN k.clients : k.clients[j] = isci
               resp == [Out("A", 1) EXCEPT !.hbint = k.hb, !.sci = own, !.tci = isci]
               ok == [t0 EXCEPT !.st = StCont, !.ns = 2, !.nr = 2, !.ctrl = <<2, 2>>]
           IN IF ~targetok \/ ~listed THEN Event("Recv", t0, refuse, <<i>>, <<>>, <<>>)
              ELSE IF k.seqd = 1 THEN Event("Recv", t0, logoff, <<i>>, <<lo>>, <<>>)
              ELSE Event("Recv", t0, ok, <<i>>, <<resp>>, <<>>)
       ELSE
           LET mismatch == SidNe(itci, isci, own, peer)        \* SessionID(tci, sci) != _sid
               ok == [t0 EXCEPT !.st = StCont, !.nr = 2, !.ctrl = <<2, 2>>]
           IN IF mismatch /\ k.enforce THEN Event("Recv", t0, refuse, <<i>>, <<>>, <<>>)
              ELSE IF k.seqd = 1 THEN Event("Recv", t0, logoff, <<i>>, <<lo>>, <<>>)
              ELSE Event("Recv", t0, ok, <<i>>, <<>>, <<>>)

SidEvent(s1, t1, s2, t2) ==
    [e |-> "SidCmp", s1 |-> s1, t1 |-> t1, s2 |-> s2, t2 |-> t2,
     eq |-> s1 = s2 /\ t1 = t2, ne |-> SidNe(s1, t1, s2, t2), eq_self |-> TRUE, ne_self |-> FALSE]

Init == c \in Cases /\ phase = 0 /\ bad = {}
Next == /\ phase = 0 /\ phase' = 1 /\ c' = c
        /\ LET r == MonStep(MsInit(MCfg(c)), EventOf(c))
               q == {<<a, b, x, y>> \in {"A", "B"} \X {"A", "B"} \X {"A", "B"} \X {"A", "B"} :
                        ~MonStep(MsInit(MCfg(c)), SidEvent(a, b, x, y)).ok}
           IN bad' = (IF r.ok THEN {} ELSE {r.sig}) \cup {"sidcmp" : z \in q}
Spec == Init /\ [][Next]_<<c, phase, bad>>

MonitorAccepts == bad = {}
Leaf == (phase = 1) => PrintT("LEAF " \o ToJson(c))
=============================================================================
