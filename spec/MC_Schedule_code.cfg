CONSTANTS
  D = 6
  Offs <- OffsZero
  Dev <- CodeDev
INIT MCInit
NEXT MCNext
INVARIANT Follows
CHECK_DEADLOCK FALSE
