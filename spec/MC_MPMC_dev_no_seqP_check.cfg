CONSTANTS
  NQ = 2
  NProd = 2
  NCons = 2
  NPush = 2
  NPop = 2
  Dev = {"no_seqP_check"}
INIT InitX
NEXT NextX
INVARIANT TicketOrder
CHECK_DEADLOCK FALSE
